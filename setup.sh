#!/bin/bash
# Builds the overlay venv used by every check: /venv's site-packages (pint's deps) + /repo
# + z3-solver, crosshair-tool, cvc5, jsonschema from the offline wheelhouse.  Idempotent.
set -e
cd "$(dirname "$0")"
V=/verif/.venv
if [ -x $V/bin/python ] && $V/bin/python -c "import z3, crosshair, pint" 2>/dev/null; then
  exit 0
fi
rm -rf $V
/venv/bin/python -m venv $V
SP=$($V/bin/python -c "import sysconfig; print(sysconfig.get_paths()['purelib'])")
printf '/venv/lib/python3.12/site-packages\n/repo\n' > $SP/verif_overlay.pth
PIP_NO_INDEX=1 $V/bin/pip install -q --no-index --find-links /opt/veriftools/wheels z3-solver crosshair-tool cvc5 jsonschema >/dev/null
$V/bin/python -c "import z3, crosshair, pint, sys; assert pint.__file__.startswith('/repo/'), pint.__file__; print('overlay ok', z3.get_version_string())"
