#!/bin/bash
# tools/round2.sh Cxx ...  -- verify and run the round-2 seeded changes of the given properties
cd /verif
for id in "$@"; do for x in a b; do
  d=/tmp/seed2/$id/$x
  [ -f $d/patch.diff ] || { echo "## $id/$x MISSING"; continue; }
  v=$(NJ=6 tools/seedverify.sh $d 2>&1 | tr '\n' ' ' | cut -c1-260)
  r=$(NV=2 tools/seedrun.sh $d/patch.diff $id 2>&1 | tr '\n' ' ' | cut -c1-420)
  echo "## $id/$x VERIFY: $v"
  echo "   CHECK: $r"
done; done
