#!/bin/bash
# tools/round6.sh verify|check|final Cxx ...  -- round 6 (one change per property, /tmp/seed6/<id>/k)
#   verify: tools/seedverify.sh in scratch worktrees (parallel-safe)    -> /tmp/seed6/<id>/k/VERIFY
#   check : tools/seedrun.sh against /repo (serial)                     -> /tmp/seed6/<id>/k/CHECK
#   final : same, after strengthening                                   -> /tmp/seed6/<id>/k/FINAL
cd /verif
mode=$1; shift
for id in "$@"; do
  d=/tmp/seed6/$id/k
  [ -f $d/patch.diff ] || { echo "## $id/k MISSING"; continue; }
  case $mode in
    verify) NJ=${NJ:-5} tools/seedverify.sh $d 2>&1 | tr '\n' ' ' | cut -c1-300 > $d/VERIFY; echo "## $id/k VERIFY: $(cat $d/VERIFY)";;
    check)  NV=2 tools/seedrun.sh $d/patch.diff $id 2>&1 | tr '\n' ' ' | cut -c1-420 > $d/CHECK; echo "## $id/k CHECK: $(cat $d/CHECK)";;
    final)  NV=2 tools/seedrun.sh $d/patch.diff $id 2>&1 | tr '\n' ' ' | cut -c1-420 > $d/FINAL; echo "## $id/k FINAL: $(cat $d/FINAL)";;
  esac
done
