#!/bin/bash
# run quick checks against a seeded change: tools/seedrun.sh <patch.diff> Cxx [Cyy ...]
# applies the patch to /repo, runs the checks, restores /repo straight afterwards
p=$1; shift
cd /verif
if [ -n "$(git -C /repo status --porcelain)" ]; then echo "/repo not clean"; exit 2; fi
git -C /repo apply $p || exit 2
trap 'git -C /repo checkout -- .' EXIT
for c in "$@"; do
  out=$(VERIF_SEED=${VERIF_SEED:-1} ./pv check $c --tier ${TIER:-quick} 2>&1); rc=$?
  echo "== $c rc=$rc"
  echo "$out" | grep -E "VIOLATION|INCONCLUSIVE|harness" | head -${NV:-4}
done
