#!/usr/bin/env python3
"""tools/mut.py FILE 'OLD' 'NEW' Cxx [Cyy..] -- apply a one-off textual mutation to /repo, run the
quick checks, print their exit status, and always restore /repo (git checkout)."""
import subprocess, sys
f, old, new, *props = sys.argv[1:]
p = "/repo/" + f
s = open(p).read()
if s.count(old) != 1:
    print(f"pattern occurs {s.count(old)} times in {f}"); sys.exit(3)
open(p, "w").write(s.replace(old, new))
try:
    for pr in props:
        r = subprocess.run(["/verif/pv", "check", pr], capture_output=True, text=True)
        lines = r.stdout.strip().splitlines()
        viol = [l for l in lines if l.startswith("VIOLATION")]
        print(f"{pr}: exit={r.returncode} violations={len(viol)}")
        for l in viol[:3]:
            print("   ", l[:260])
        if r.returncode == 2:
            for l in lines[-6:]:
                print("   ", l[:300])
finally:
    subprocess.run(["git", "-C", "/repo", "checkout", "--", f])
