#!/usr/bin/env python3
"""writes seeded/INDEX.md from the meta.json files of the kept seeded changes"""
import glob, json, os
ROOT = os.path.dirname(os.path.dirname(os.path.abspath(__file__)))
rows = []
for d in sorted(glob.glob(os.path.join(ROOT, "seeded", "C*", "*", "meta.json"))):
    m = json.load(open(d))
    prop, x = d.split("/")[-3], d.split("/")[-2]
    b = (m.get("breaks") or "").replace("|", "/").replace("\n", " ")
    b = b if len(b) <= 260 else b[:257] + "..."
    if "checks_run_first_pass" in m:
        first = "caught" if m["checks_run_first_pass"].get("caught") else "missed"
        fin = m["checks_run_final"]["result"] or ""
    else:
        first = "missed" if m.get("missed_at_first") else "caught"
        fin = m["checks_run"]["result"]
    fin = fin.replace("|", "/")
    fin = fin if len(fin) <= 200 else fin[:197] + "..."
    rows.append(f"| {prop}/{x} | {m.get('round', 1)} | {b} | {first} | {fin} |")
with open(os.path.join(ROOT, "seeded", "INDEX.md"), "w") as f:
    f.write("# Kept seeded changes\n\nOne row per change (patch.diff, demo.py, meta.json in the directory). 'first pass' is the result of the\nproperty's quick check before the change had been looked at; 'final' is the result against the checks as committed.\n\n")
    f.write("| seed | round | change | first pass | final |\n|---|---|---|---|---|\n" + "\n".join(rows) + "\n")
print(len(rows), "rows")
