#!/usr/bin/env python3
"""keep a verified seeded change: tools/seedkeep.py C05 a "<verify line>" "<caught by ...>" [--missed-first "<what was strengthened>"]"""
import json, shutil, sys, os, argparse
ap = argparse.ArgumentParser()
ap.add_argument("prop"); ap.add_argument("x"); ap.add_argument("verify"); ap.add_argument("caught")
ap.add_argument("--missed-first", default="")
a = ap.parse_args()
src = f"/tmp/seed_out/{a.prop}/{a.x}"
dst = f"/verif/seeded/{a.prop}/{a.x}"
os.makedirs(dst, exist_ok=True)
for f in ("patch.diff", "demo.py"):
    shutil.copy(f"{src}/{f}", f"{dst}/{f}")
m = json.load(open(f"{src}/meta.json"))
out = {
    "property": a.prop,
    "breaks": m.get("summary"),
    "needs": m.get("needs"),
    "files": m.get("files"),
    "author": "independent sub-agent given only the property text and a scratch worktree",
    "author_ran": {"tests": m.get("tests"), "demo_unchanged_exit": m.get("demo_unchanged_exit"), "demo_changed_exit": m.get("demo_changed_exit")},
    "verified_by_me": {"how": "tools/seedverify.sh: scratch worktree of /repo HEAD, demo on unchanged code, git apply patch.diff, demo on changed code, full test suite (pytest -n 8 --dist loadscope pint/testsuite)", "result": a.verify},
    "checks_run": {"how": "tools/seedrun.sh: git -C /repo apply patch.diff; ./pv check <id> --tier quick (VERIF_SEED=1); git -C /repo checkout -- .", "result": a.caught},
}
if a.missed_first:
    out["missed_at_first"] = a.missed_first
json.dump(out, open(f"{dst}/meta.json", "w"), indent=1)
print("kept", dst)
