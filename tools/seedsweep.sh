#!/bin/bash
# tools/seedsweep.sh [ids...]  -- apply every kept seeded change to /repo in turn, run the quick
# check of its property, restore /repo; writes seeded/RESULTS.md
cd "$(dirname "$0")/.."
out=seeded/RESULTS.md
tmp=$(mktemp)
echo "| seed | patch applies | check | exit | first reported violation |" > $tmp
echo "|---|---|---|---|---|" >> $tmp
for d in seeded/C*/*/; do
  id=$(basename $(dirname $d)); x=$(basename $d)
  if [ $# -gt 0 ] && [[ ! " $* " =~ " $id " ]]; then continue; fi
  if [ -n "$(git -C /repo status --porcelain)" ]; then echo "/repo not clean"; exit 2; fi
  if ! git -C /repo apply "$(pwd)/$d/patch.diff" 2>/dev/null; then echo "| $id/$x | NO | - | - | - |" >> $tmp; continue; fi
  res=$(VERIF_SEED=${VERIF_SEED:-1} ./pv check $id --tier quick 2>&1); rc=$?
  git -C /repo checkout -- .
  v=$(echo "$res" | grep -m1 VIOLATION | sed 's/.*# //; s/ model=.*//' | tr '|' '/')
  echo "| $id/$x | yes | ./pv check $id --tier quick | $rc | $v |" >> $tmp
  echo "$id/$x rc=$rc $v"
done
{ echo "# Seeded changes against the quick checks"; echo; echo "/repo HEAD $(git -C /repo rev-parse --short HEAD), /verif $(git rev-parse --short HEAD), VERIF_SEED=${VERIF_SEED:-1}, $(date -u +%Y-%m-%dT%H:%MZ)"; echo; cat $tmp; } > $out
rm -f $tmp
