#!/bin/bash
# tools/seeds.sh "C01 C02 ..." "0 1 2 3"  -- run quick checks under several seeds, print one line each
cd "$(dirname "$0")/.."
for p in $1; do for s in $2; do printf "%s seed=%s " $p $s; VERIF_SEED=$s ./pv check $p 2>&1 | tail -1 | sed 's/.*known=/known=/' | cut -c1-120; done; done
