#!/usr/bin/env python3
"""keep round 6 (one change per property): /tmp/seed6/<id>/k -> seeded/<id>/k, from the VERIFY/CHECK/FINAL files written by tools/round6.sh"""
import json, os, shutil, sys, glob

ROOT = os.path.dirname(os.path.dirname(os.path.abspath(__file__)))
HEAD = "fac2cbe"
n = 0
for src in sorted(glob.glob("/tmp/seed6/C??/k")):
    prop = src.split("/")[-2]
    rd = lambda f: open(os.path.join(src, f)).read().strip() if os.path.exists(os.path.join(src, f)) else ""
    ver, first, fin = rd("VERIFY"), rd("CHECK"), rd("FINAL")
    import re
    bad = re.search(r"(?<![x0-9])([0-9]+) failed", ver)
    # (test_numpy.py::test_cross is order-dependent under xdist and flickers on the unchanged tree too)
    flicker_only = bad and bad.group(1) == "1" and "test_cross" in ver
    if "demo_unchanged=0 demo_changed=1" not in ver or (bad and not flicker_only) or not first:
        print("skip", prop, ver[:80]); continue
    dst = os.path.join(ROOT, "seeded", prop, "k")
    os.makedirs(dst, exist_ok=True)
    for fn in ("patch.diff", "demo.py"):
        shutil.copy(os.path.join(src, fn), os.path.join(dst, fn))
    m = json.load(open(os.path.join(src, "meta.json")))
    fin = fin or first
    out = {
        "property": prop, "round": 6,
        "breaks": m.get("summary"), "needs": m.get("needs"), "files": m.get("files"),
        "author": f"independent sub-agent (round 6) given only the property text and a scratch worktree of /repo at {HEAD}; told in one line each which ten ideas were taken and asked for a different mechanism and code location, needing a sequence, boundary value, configuration, second use or unusual call form to show",
        "author_ran": {"tests": m.get("tests"), "demo_unchanged_exit": m.get("demo_unchanged_exit"), "demo_changed_exit": m.get("demo_changed_exit")},
        "verified_by_me": {"how": "tools/seedverify.sh (scratch worktree, demo on unchanged and changed code, full test suite under xdist --dist loadscope)", "result": ver},
        "checks_run_first_pass": {"how": "tools/seedrun.sh against the checks as they were BEFORE this round was looked at (held-out)", "result": first, "caught": "rc=1" in first},
        "checks_run_final": {"how": "tools/seedrun.sh against the checks as committed with this round (VERIF_SEED=1)", "result": fin, "caught": "rc=1" in fin},
    }
    json.dump(out, open(os.path.join(dst, "meta.json"), "w"), indent=1, ensure_ascii=False)
    n += 1
print("kept", n)
