#!/bin/bash
# verify a candidate seeded change: tools/seedverify.sh <dir with patch.diff, demo.py> 
# (scratch worktree under /tmp, removed afterwards)
d=$1
wt=/tmp/vwt_$$
git -C /repo worktree add -q --detach $wt HEAD || exit 2
cd $wt
PYTHONPATH=$wt timeout 300 /venv/bin/python $d/demo.py >/tmp/vwt_$$.u.log 2>&1; u=$?
if ! git -C $wt apply $d/patch.diff; then echo "APPLY-FAILED"; git -C /repo worktree remove --force $wt; exit 2; fi
PYTHONPATH=$wt timeout 300 /venv/bin/python $d/demo.py >/tmp/vwt_$$.c.log 2>&1; c=$?
t=$(PYTHONPATH=$wt /venv/bin/python -m pytest -q -p no:cacheprovider -n ${NJ:-8} --dist loadscope pint/testsuite 2>&1 | tail -3 | tr "\n" " ")
cd /
git -C /repo worktree remove --force $wt
echo "demo_unchanged=$u demo_changed=$c tests: $t"
tail -3 /tmp/vwt_$$.c.log
rm -f /tmp/vwt_$$.u.log /tmp/vwt_$$.c.log
