#!/usr/bin/env python3
"""keep a held-out round of seeded changes: /tmp/seed<N>/<id>/<a|b> -> seeded/<id>/<e|f> (round 3), <g|h> (round 4), <i|j> (round 5)

tools/round3keep.py <first_pass.log> <final.log> [round]     (logs written by the round scripts)"""
import json, os, re, shutil, sys

first_log, final_log = sys.argv[1], sys.argv[2]
ROUND = int(sys.argv[3]) if len(sys.argv) > 3 else 3
SUFFIX = {3: {"a": "e", "b": "f"}, 4: {"a": "g", "b": "h"}, 5: {"a": "i", "b": "j"}}[ROUND]
HEAD = {3: "c879335", 4: "860eafa", 5: "06c0635"}[ROUND]
ASKED = {
    3: "asked for changes that a reviewer would wave through (refactorings, speed-ups, tidied helpers) and that need a second call, another entry point, a less common configuration or another numeric type to show",
    4: "told which fifteen ideas were taken and asked for the least travelled combination of inputs, object kinds, numeric types, registry options and call sequences in the anchored functions and their helpers",
    5: "told which two dozen ideas were taken, pointed at boundary values, last branches, second-order effects, interactions of two facets and reflected/in-place forms, and asked to report behaviour of the unmodified code that already contradicts the property",
}[ROUND]
ROOT = os.path.dirname(os.path.dirname(os.path.abspath(__file__)))


def parse(path, key):
    out = {}
    cur = None
    for ln in open(path, encoding="utf-8", errors="replace"):
        m = re.match(r"## (C\d\d)/([ab]) (\w+): (.*)", ln)
        if m:
            cur = (m.group(1), m.group(2))
            out.setdefault(cur, {})[m.group(3)] = m.group(4).strip()
            continue
        m = re.match(r"\s+CHECK: (.*)", ln)
        if m and cur:
            out[cur]["CHECK"] = m.group(1).strip()
    return out


first = parse(first_log, "CHECK")
final = parse(final_log, "FINAL")
n = 0
for (prop, x), f in sorted(first.items()):
    src = f"/tmp/seed{ROUND}/{prop}/{x}"
    dst = os.path.join(ROOT, "seeded", prop, SUFFIX[x])
    os.makedirs(dst, exist_ok=True)
    for fn in ("patch.diff", "demo.py", "patch_original.diff"):
        if os.path.exists(os.path.join(src, fn)):
            shutil.copy(os.path.join(src, fn), os.path.join(dst, fn))
    m = json.load(open(os.path.join(src, "meta.json")))
    fin = final.get((prop, x), {}).get("FINAL", "")
    out = {
        "property": prop,
        "round": ROUND,
        "breaks": m.get("summary"),
        "needs": m.get("needs"),
        "files": m.get("files"),
        "author": f"independent sub-agent (round {ROUND}) given only the property text and a scratch worktree of /repo at {HEAD}; {ASKED}",
        "author_ran": {"tests": m.get("tests"), "demo_unchanged_exit": m.get("demo_unchanged_exit"), "demo_changed_exit": m.get("demo_changed_exit")},
        "verified_by_me": {"how": "tools/seedverify.sh (scratch worktree, demo on unchanged and changed code, full test suite under xdist --dist loadscope; the order-dependent test_numpy.py::test_cross flickers on the unchanged tree too)", "result": f.get("VERIFY", "")},
        "checks_run_first_pass": {"how": "tools/seedrun.sh against the checks as they were BEFORE this round was looked at (held-out)", "result": f.get("CHECK", ""), "caught": "rc=1" in f.get("CHECK", "")},
        "checks_run_final": {"how": "tools/seedrun.sh against the strengthened checks (VERIF_SEED=1)", "result": fin, "caught": "rc=1" in fin},
    }
    json.dump(out, open(os.path.join(dst, "meta.json"), "w"), indent=1, ensure_ascii=False)
    n += 1
print("kept", n)
