#!/usr/bin/env python3
"""Regenerates /verif/MANIFEST.json from the table below (run after adding a check)."""
import json
import os

ROOT = os.path.dirname(os.path.dirname(os.path.abspath(__file__)))

SX = "symbolic execution of the real pint code on a symbolic numeric type (Q as non_int_type), path conditions and obligations decided by z3; counterexamples replayed on a Fraction registry"

CHECKS = {
    "C05": dict(
        text="Bounded model checking of Quantity.__eq__/__ne__/compare/__hash__ run on symbolic magnitudes: for every explored unit pair/triple the "
        "verdict holds for all rational magnitudes (z3 unsat on every path), against an affine-map oracle from an independent reader of the definition files. "
        "Universal over magnitudes; unit pairs are a structural cover plus seeded draws (all temperature-like pairs exhaustively).",
        note="Solver verdicts in exact rational arithmetic (Q twin of Fraction); NaN/inf magnitudes, float arrays and same-object comparisons are decided by a concrete companion family (H05.e, float registry, enumerated values - not solver-universal). Trusts z3 unsat and the REF reader (self-checked against pint).",
        design="4/C05",
    ),
}

CHECKS.update(
    C01=dict(
        text="Bounded model checking of the real dimensional-analysis code with symbolic integer exponents: 'conversion succeeds' and every compatibility "
        "predicate are proved equivalent to equality of base-dimension vectors (independent reader) for all exponent values in [-2,2] (thorough [-3,3]) "
        "and all magnitudes, on compound units of the default registry and on generated registries whose definition exponents are symbolic too; "
        "plus seeded/all ordered unit pairs with a symbolic magnitude.",
        note="hash_mode=const stub (UnitsContainer hashes over its key set) keeps exponents symbolic; sound under the hash contract. Exponent range and unit tuples are bounds. auto_reduce_dimensions / case-insensitive / autoconvert_to_preferred configurations are covered by H01.d on concrete unit pairs; float/Decimal outside.",
        design="4/C01",
    ),
    C02=dict(
        text="For every unit spelling of the bundled files, prefix x unit strings, same-dimension pairs and generated definition files with symbolic scales, "
        "the real conversion code is run on a symbolic magnitude and the result is proved (z3) equal to x times the exact factor from an independent reader, for every rational x "
        "(and every non-zero scale/prefix value in generated registries); identity, round trip, swapped cache key and path independence included.",
        note="Solver verdicts in exact rational arithmetic; float and Decimal registries are sampled by a concrete companion family (H02.f: few-ulp / type clauses on enumerated values, not solver-universal); units with non-integer powers in their factor are compared by root units only.",
        design="4/C02",
    ),
    C03=dict(
        text="Each Quantity operator of the real code is run on symbolic magnitudes in two unit expressions of the same operands; the results are proved physically equal for all magnitudes "
        "(root magnitude, dimensionality, truth value or exception class). Reflected and in-place (scalar and object-array) forms are proved equal to the plain forms; admissibility of a bare "
        "symbolic number under + and - is proved to be exactly 'dimensionless or zero'.",
        note="Exact rational arithmetic; unit tuples are a cover list plus seeded draws; integer powers in [-3,3]; int/float/Decimal magnitudes only through the concrete companion family H03.d (enumerated values); NaN outside.",
        design="4/C03",
    ),
    C04=dict(
        text="UnitsContainer/ParserHelper/Unit algebra of the real code on symbolic integer exponents: group laws, canonical form (no zero entry), == iff equal exponents, non-mutation proved for all exponents in the bound; "
        "hash laws with real hashes after solver-driven realisation (detects stale cached hashes); dimensionality homomorphism against the independent reader; column_echelon_form with symbolic matrices "
        "against a minor-based rank encoding; pi_theorem on solver-realised small integer matrices.",
        note="Exponent range [-2,2] (thorough [-3,3] and half-integers), alphabet of 3 names, matrices up to 3x3: bounds. Float cancellation and Decimal exponents outside.",
        design="4/C04",
    ),
    C06=dict(
        text="Bounded model checking of the offset calculus: the real operators (+ - * / ** unary comparisons, reflected and in-place twins on object arrays) and the two-stage "
        "conversion run on generated offset units with symbolic scale and offset and symbolic magnitudes; unit and value of every cell of the operator x operand-kind x order x mode table "
        "are proved equal to a rule table transcribed from the documentation (or the documented exception is raised). Default-registry temperature pairs against the independent reader; "
        "log units with exp/log as an uninterpreted inverse pair.",
        note="Rule table in pvlib/harness/c06.py is the oracle (transcribed from docs/user/nonmult.rst and the property statement). Exact arithmetic; real exp/log accuracy outside; scales assumed > 0.",
        design="4/C06",
    ),
    C07=dict(
        text="Expression strings (all skeletons with 2-3 leaves over + - * / // ** unary signs and parentheses, sampled 4-leaf ones, juxtaposition variants) are evaluated by the real tokenizer/tree builder/evaluator "
        "with symbolic leaf values and by Python's own compiler on the same symbolic numbers; equality is proved for all leaf values (exponent leaves: small integers, solver-realised). Spelling variants with symbolic "
        "number literals are proved equal to the canonical spelling; ParserHelper.from_string scale bookkeeping likewise; numeric literal types per registry; every ill-formed token sequence up to length 4 must raise.",
        note="The no-code-execution / no-I/O clause is decided only on a fixed list of ~55 hostile strings x 5 entry points with a recording operand and a sentinel path (H07.e, concrete; all strings cannot be made symbolic); '%' is not an operator of parse_expression (it is preprocessed into percent); skeletons needing real powers of symbolic bases are skipped.",
        design="4/C07",
    ),
    C08=dict(
        text="Name resolution of the real registry: (SX) every string over the alphabet of two generated colliding registries up to length 5 and the prefix x unit x plural cross product of the default registry "
        "are resolved; the reading must be allowed by the documented rule, undefined strings must raise, name/symbol must be the definition's, the answer must not depend on earlier lookups, and the root magnitude is "
        "proved equal to x * prefix * scale for all symbolic values (factor applied exactly once). (CrossHair) parse_unit_name is confirmed over all paths against the rule for every unicode string of length <= 4.",
        note="Ambiguous strings: any valid reading accepted (determinism + validity only). CrossHair could not execute get_name with a symbolic key (internal error), so get_name/get_symbol/contains are covered by the enumerated domains only.",
        design="4/C08",
        technique=SX + "; plus CrossHair (symbolic strings, z3) for parse_unit_name",
    ),
    C09=dict(
        text="format(unit/quantity, spec) of the real formatters (D, C, P, H, L, Lx; long and ~) on units with solver-chosen integer exponents (every value in [-3,3]) and symbolic magnitudes rendered as placeholder literals: "
        "independent per-format layout recognisers require each unit exactly once, on the correct side, with exactly its exponent (omitted iff +-1), parentheses where a single denominator has several terms; "
        "D/C/P texts (and str(q)) are parsed back by the real parser and proved equal (magnitude equality by z3).",
        note="Exponent values are enumerated by solver-driven realisation (the number formatter needs concrete integers); spec dispatch (default_format, magnitude spec, '#'), sort functions and registered custom formats are checked by string relations (H09.d-f); content of Python's numeric mini-language and locale/babel output outside; Measurement formats are C19's H19.e.",
        design="4/C09",
    ),
    C10=dict(
        text="Generated definition files whose every numeric literal is a symbolic placeholder are loaded through the real text parser; names, symbols, aliases, factors (incl. prefixed/plural spellings), dimensionality, "
        "offset conversions, group/system membership, defaults and context rules/redefinitions of the resulting registry are proved equal to the template's model for all literal values; repeated for permutations "
        "of the unit/prefix lines, layout variants, and loading paths (iterable, file, define(), load_definitions, cold and warm disk cache); 17 kinds of ill-formed definitions must raise at load or first use.",
        note="The text structure is enumerated from one template family (not every file); numbers are symbolic. hash_mode=mixed.",
        design="4/C10",
    ),
    C11=dict(
        text="Conversions under contexts in the real registry on symbolic magnitudes and parameters: for the bundled contexts the result is proved equal to an independent evaluation of the equation text "
        "in default_en.txt (own parser + quantity algebra) along the declared chain; for generated contexts all activation forms (name, alias, object, enable, with, per-call, decorator) and stacks up to 3 "
        "are proved equal to the reference model (last enabled wins, any shortest chain, parameter sources); find_shortest_path/find_connected_nodes against BFS on all directed graphs with <= 4 nodes.",
        note="Gaussian/ESU constants are float-valued (** 0.5): only reachability, linearity and inverse consistency within 1e-9. Tie-breaking among equally short chains unconstrained.",
        design="4/C11",
    ),
    C12=dict(
        text="Bounded model checking of the real context machinery against a reference stack model: every operation sequence up to length 3 (thorough: all of length 3 and sampled length 4) over "
        "{enable(c[,n=v]), disable(1|all), with c:, with c: raise, activation that fails part-way, define} is executed on a freshly generated registry with symbolic rule coefficients, parameters and "
        "redefinition factors; after every step conversions, root/base units, compatible units and predicates are proved equal to the model for all values; a second registry sharing a Context object and the "
        "Context objects themselves are checked for interference/mutation.",
        note="Reference model in pvlib/ctxmodel.py (stack discipline, last enabled wins, shortest rule chain). hash_mode=mixed. Sequences longer than the bound outside.",
        design="4/C12",
    ),
    C13=dict(
        text="History independence as bounded model checking of the real registry: after every step of every sequence (all pairs, sampled/all triples) over 5 cache-populating queries and 10 state changes "
        "(define, enable/disable contexts with redefinitions, default_system changes, touching a second registry) a battery of 24 read-only answers is proved equal, for all symbolic scales/factors/magnitudes, "
        "to the answers of a registry freshly built from the same definitions in the same state; objects kept alive across the change are included.",
        note="Generated 8-unit registry with contexts and two systems; hash_mode=mixed; sequences beyond the bound and the default registry's full table outside.",
        design="4/C13",
    ),
    C14=dict(
        text="get_base_units/to_base_units of the real registry under every declared system on a symbolic magnitude (value and dimensionality preserved for all magnitudes, only declared base units + unreplaced roots per an independent reader, "
        "idempotent, default_system switches take effect immediately and explicit-system queries do not leak); generated systems with both rule forms and symbolic scales; Group/System membership closure on all group graphs over 3 groups "
        "(edges and memberships symbolic booleans) before and after each kind of edit against a reference transitive closure, with restricted compatible-unit queries.",
        note="atomic/Planck systems: units only (float-valued factors). Group graphs with more than 3 groups outside.",
        design="4/C14",
    ),
    C15=dict(
        text="to_root_units/to_base_units/to_reduced_units/to_compact/to_preferred and their in-place twins run on a symbolic magnitude: same dimensionality and equal root magnitude proved for all magnitudes; "
        "in-place == functional; to_compact's [1,1000) clause proved over 72 decades under an ideal log10 contract; reduced units checked for mergeable pairs against the independent reader; auto-reduce / auto-preferred registries keep the value.",
        note="math shim inside qto (ideal log10, floor/ceil via ToInt) is a stub and part of the claim; MIP search runs concretely; float/int magnitudes in offset and logarithmic units through a concrete companion family (in-place == functional); uncertain magnitudes under the affine ufloat model; NaN/inf outside.",
        design="4/C15",
    ),
    C16=dict(
        text="About 65 NumPy functions, ufuncs and ndarray methods applied through pint to object-dtype arrays of symbolic numbers: the result with inputs in (u, v) is proved equal element-wise, for all element values, to the result with "
        "the inputs re-expressed in (u', v') (comparisons inside NumPy fork symbolically); the output unit is compared with the implied-unit table; incompatible inputs must raise; inputs must be unchanged; in-place add, item assignment and copyto convert into the target's units.",
        note="Solver verdicts only for functions that accept object dtype (roughly half of the handled table), arrays of length 3; float-dtype kernels (interp, nan_to_num, clip forms, isclose, reductions with where=, dot/cross with offset operands, operators on offset/delta arrays) are decided on exactly representable concrete values by H16.f (not solver-universal); trigonometry/exp/log accuracy outside.",
        design="4/C16",
    ),
    C17=dict(
        text="ureg.wraps/check/with_context of the real code applied to ~1500 generated signature structures (specs None/unit/Unit/'=A'/'=A*B'/'=A**2', positional/keyword/default call forms, strict on/off, scalar/tuple/reference returns); "
        "the magnitudes observed inside the wrapped function and the re-wrapped result are proved equal for all argument magnitudes to an independently written oracle; exceptions and arity rejection are part of the oracle.",
        note="Structures are enumerated (1-2 parameters exhaustively, 3 sampled in quick); magnitudes symbolic. Specs referring to undefined names are outside the property and skipped.",
        design="4/C17",
    ),
    C18=dict(
        text="copy / deepcopy / pickle protocols 0-5 / to_tuple-from_tuple of Quantity, Unit, UnitsContainer and ParserHelper with a symbolic magnitude (pickled by placeholder id) and solver-chosen exponents: equal for all magnitudes, attached to a fresh "
        "application registry and usable there (prefixed units not yet registered), not mixing with the source registry; every operator and ordering between objects of two registries must raise ValueError; a deep-copied registry "
        "and its source are evolved with symbolic definitions and proved independent; the lazy application registry converts like an explicit one; exception classes round-trip (concrete).",
        note="ndarray magnitudes outside; Measurement round trips, exceptions and the lazy registry are concrete companion families; exponents in [-2,2] realised.",
        design="4/C18",
    ),
    C19=dict(
        text="Measurement construction, accessors, conversion and arithmetic of the real code with symbolic nominal value and standard deviation, with ufloat replaced by an affine model: all constructor forms report back "
        "(value, error, rel); a negative error is rejected exactly when e < 0 (solver-partitioned); conversion maps the nominal value like a plain quantity and scales the standard deviation by |slope| (offset units included), rel invariant under "
        "multiplicative conversion; scalar multiples, sums and differences of independent measurements follow the unit rules with first-order propagation; '+/-' and '±' texts with symbolic literals parse to that measurement.",
        note="PARTIAL, UNDER A STUB: solver verdicts hold under the affine ufloat model; the real uncertainties package enters only through concrete companion families (correlation identities H19.c, format round trips H19.e, parenthesised and exponent-suffixed notations) and the replay of counterexamples on the float registry with a tolerance; non-linear propagation outside.",
        design="4/C19",
    ),
    C20=dict(
        text="Every entry of an independently written table of standard values (about 230 units/constants, 32 prefixes, 5 temperature scales) is compared with the real registry "
        "for all magnitudes x (linear/affine map proved by z3), plus symbol and dimensionality. The solver's role is small; the strength is the independent table.",
        note="Trusts the transcription of the standards in pvlib/ref/stdtable.py; exact arithmetic for the solver verdicts; the float registry is compared with the same table to 1e-14 relative by a concrete companion family.",
        design="4/C20",
    ),
)

PENDING = {
    # id: reason (kept current while the framework is being built)
}

ALL = [f"C{i:02d}" for i in range(1, 21)]


def main():
    checks = []
    for pid in ALL:
        if pid not in CHECKS:
            continue
        c = CHECKS[pid]
        checks.append(
            {
                "property_id": pid,
                "quick_cmd": f"./pv check {pid} --tier quick",
                "thorough_cmd": f"./pv check {pid} --tier thorough",
                "evidence_file": f"evidence/{pid}.json",
                "replay_cmd_template": "./pv replay {path}",
                "engine": "sx",
                "level_claimed": {"category": "model_checking", "text": c["text"], "design_ref": c["design"]},
                "level_note": c["note"],
                "technique": c.get("technique", SX),
            }
        )
    na = []
    for pid in ALL:
        if pid in CHECKS:
            continue
        na.append({"property_id": pid, "reason": PENDING.get(pid, "check not built yet in this round (solver-based harness planned in DESIGN.md section 4); nothing is claimed")})
    man = {
        "version": 1,
        "setup_cmd": "./setup.sh",
        "hooks": {
            "guard": "PINT_VERIF",
            "enable": "no hooks: the symbolic numeric type enters through the public non_int_type parameter; stubs are monkeypatches applied from the checking process",
            "baseline_off_cmd": "cd /repo && /venv/bin/python -m pytest -ra -q -p no:cacheprovider --timeout=900 --continue-on-collection-errors",
            "source_commits": [],
            "add_only": True,
        },
        "engines": [
            {
                "name": "sx",
                "path": "pvlib/sx",
                "serves_properties": sorted(CHECKS),
                "kind_free_text": "own symbolic executor: pint's real code runs with non_int_type=Q (concrete Fraction or z3 real term); DFS over SymBool.__bool__ decisions with z3 push/pop; obligations discharged per path; ConcEngine replays models on a real Fraction registry",
            },
        ],
        "checks": checks,
        "not_applicable": na,
        "notes": "Exit codes: 0 held on everything explored; 1 VIOLATION (replayed on the real Fraction-typed code, not listed in known_findings.json); 2 inconclusive or harness error (never reported as success). known_findings.json lists genuine defects (open -> KNOWN-FINDING line, fixed -> suppresses nothing).",
    }
    with open(os.path.join(ROOT, "MANIFEST.json"), "w") as f:
        json.dump(man, f, indent=1)
    print("wrote MANIFEST.json:", len(checks), "checks,", len(na), "not_applicable")


if __name__ == "__main__":
    main()
