"""pv runner: schedules harness cases over worker processes, replays counterexamples on the
real Fraction-typed code, validates explored paths differentially, matches known findings,
writes evidence and decides the exit code (DESIGN.md 3.4).

exit 0  every obligation discharged, nothing inconclusive, no unlisted violation
exit 1  at least one replayed violation that known_findings.json does not list
exit 2  inconclusive / harness error (solver unknown, budget, non-reproducing
        counterexample, vacuous harness, differential mismatch) -- never reported as success
"""

from __future__ import annotations

import fnmatch
import hashlib
import importlib
import json
import multiprocessing as mp
import os
import random
import subprocess
import sys
import time
import traceback
from dataclasses import asdict, dataclass, field
from fractions import Fraction

ROOT = os.path.dirname(os.path.dirname(os.path.abspath(__file__)))


@dataclass
class Case:
    family: str
    sig: str
    module: str
    func: str
    kwargs: dict = field(default_factory=dict)
    opts: dict = field(default_factory=dict)
    kind: str = "sx"  # sx: symbolic exploration; conc: concrete run (enumerated axis)
    validate: int = 3  # number of explored paths validated differentially
    weight: float = 1.0


# ----------------------------------------------------------------------------- worker


def _fr(x):
    return Fraction(x[0], x[1]) if isinstance(x, (list, tuple)) else x


def _signature(case, label):
    return f"{case['family']}|{case['sig']}|{label}"


def replay_concrete(case, model):
    """run the harness on a real Fraction registry with the model's values.
    returns dict(status, failed=[labels], exc)"""
    from pvlib.sx.engine import ConcEngine

    mod = importlib.import_module(case["module"])
    func = getattr(mod, case["func"])
    ce = ConcEngine(model)
    status, exc = ce.run(func, case["kwargs"])
    return {
        "status": status,
        "exc": exc,
        "failed": [f["label"] for f in ce.failed],
        "proved": ce.proved,
        "observed": ce.observed,
        "detail": getattr(ce, "exc_detail", None),
    }


def _known_exclusions(case, known):
    """z3 exclusion expressions of known findings whose signature pattern matches this case"""
    out = []
    for k in known:
        if k.get("status", "open") != "open":
            continue
        for pat in k["signatures"]:
            if fnmatch.fnmatchcase(f"{case['family']}|{case['sig']}|", pat.rsplit("|", 1)[0] + "|"):
                out.append(k)
                break
    return out


def run_case(arg):
    case, tier, seed, known = arg
    t0 = time.perf_counter()
    res = {
        "case": case,
        "stats": {},
        "violations": [],
        "known_hits": [],
        "inconclusive": [],
        "errors": [],
        "validated": 0,
        "samples": [],
        "wall_s": 0.0,
    }
    try:
        func = None
        if case["kind"] != "ch":
            mod = importlib.import_module(case["module"])
            func = getattr(mod, case["func"])
        if case["kind"] == "ch":
            _run_ch_case(case, res)
        elif case["kind"] == "conc":
            _run_conc_case(case, func, res, known)
        else:
            _run_sx_case(case, func, res, tier, seed, known)
    except BaseException as e:  # noqa: BLE001
        res["errors"].append(f"{type(e).__name__}: {e}\n{traceback.format_exc(limit=-8)}")
    res["wall_s"] = time.perf_counter() - t0
    return res


def _run_ch_case(case, res):
    """a CrossHair condition (symbolic strings); kwargs: func, timeout, expect"""
    from pvlib.ch.runner import replay_call, run_condition
    from pvlib.sx.engine import Stats

    kw = case["kwargs"]
    r = run_condition(case["module"], kw["func"], kw.get("timeout", 120), kw.get("expect", "confirmed"))
    st = Stats()
    st.paths = 1
    res["stats"] = st.as_dict()
    res["stats"]["ch_conditions"] = 1
    res["ch"] = {"func": kw["func"], "verdict": r["verdict"], "wall_s": round(r["wall_s"], 1), "detail": r["detail"]}
    expect = kw.get("expect", "confirmed")
    if expect == "refuted":
        # reachability twin: a counterexample MUST exist
        if r["verdict"] == "refuted":
            res["stats"]["discharged"] = 1
            res["samples"].append({"label": "reachability-twin:" + kw["func"], "call": r["call"]})
        else:
            res["errors"].append(f"vacuity: reachability twin {kw['func']} was not refuted ({r['verdict']}: {r['detail']})")
        return
    if r["verdict"] == "confirmed":
        res["stats"]["discharged"] = 1
        res["stats"]["ch_confirmed"] = 1
        res["samples"].append({"label": "crosshair:" + kw["func"], "verdict": "Confirmed over all paths", "wall_s": round(r["wall_s"], 1)})
    elif r["verdict"] == "refuted":
        failed, how = replay_call(case["module"], r["call"])
        if failed:
            res["violations"].append({"label": "crosshair:" + kw["func"], "model": {"call": r["call"]}, "reproduced": True, "detail": how, "obligation": r["detail"]})
        else:
            res["errors"].append(f"non-reproducing CrossHair counterexample {r['call']}: {how}")
    else:
        res["inconclusive"].append({"label": "crosshair:" + kw["func"], "why": r["detail"]})
        res["n_inconclusive"] = 1


def _run_conc_case(case, func, res, known=()):
    from pvlib.sx.engine import ConcEngine, Stats

    ce = ConcEngine({})
    status, exc = ce.run(func, case["kwargs"])
    st = Stats()
    st.paths = 1
    st.discharged = sum(1 for _, ok in ce.proved if ok)
    res["stats"] = st.as_dict()
    res["stats"]["conc_runs"] = 1
    # failed obligations and non-stopping failure reports, whatever way the run ended
    excl = _known_exclusions(case, known)
    for f in ce.failed:
        sig = _signature(case, f["label"])
        hit = _match_known(sig, {}, excl)
        if hit is not None:
            res["known_hits"].append({"signature": sig, "id": hit["id"], "what": hit["what"], "model": {}})
        else:
            res["violations"].append({"label": f["label"], "model": {}, "reproduced": True, "detail": f.get("detail", ""), "obligation": "concrete"})
    if status == "stopped" and ce.failed:
        pass
    elif status == "exception":
        res["violations"].append({"label": f"unexpected-exception:{exc}", "model": {}, "reproduced": True, "detail": getattr(ce, "exc_detail", ""), "obligation": "concrete"})
    elif status != "ok":
        res["errors"].append(f"concrete case ended with {status} {exc}")
    if ce.proved:
        res["samples"].append({"label": ce.proved[0][0], "concrete": True})


def _run_sx_case(case, func, res, tier, seed, known):
    from pvlib.sx.engine import SymEngine

    opts = dict(case.get("opts") or {})
    # a sample of the discharged obligations of every case is re-decided by a second solver
    opts.setdefault("cross_check", 6 if tier == "thorough" else 2)
    if tier == "thorough":
        opts.setdefault("query_timeout_ms", 60000)
        opts["max_paths"] = opts.get("max_paths", 4000) * 4
        opts["max_wall_s"] = opts.get("max_wall_s", 600.0) * 3
    rnd = random.Random(f"{seed}:{case['family']}:{case['sig']}")
    nval = case.get("validate", 3) * (3 if tier == "thorough" else 1)
    picked = set()

    def validate(path_index):
        # reservoir-free: validate the first path and then a seeded ~share, capped
        if len(picked) >= nval:
            return False
        if path_index == 1 or rnd.random() < 0.35:
            picked.add(path_index)
            return True
        return False

    excl = _known_exclusions(case, known)
    rounds = 0
    excluded_exprs = []
    while True:
        rounds += 1
        eng = SymEngine(**opts)
        eng.excluded = list(excluded_exprs)
        eng.explore(func, case["kwargs"], validate=validate if rounds == 1 else None)
        if rounds == 1:
            res["stats"] = eng.stats.as_dict()
            res["samples"] = eng.samples[:3]
            res["inconclusive"] = eng.inconclusive[:20]
            res["n_inconclusive"] = len(eng.inconclusive)
            # differential validation of explored paths
            for rec in eng.path_records:
                rr = replay_concrete(case, rec["model"])
                ok, why = _compare(rec, rr)
                if ok:
                    res["validated"] += 1
                else:
                    res["errors"].append(f"differential mismatch on {case['family']}|{case['sig']}: {why}; model={rec['model']}")
        else:
            for f in eng.stats.FIELDS:
                res["stats"][f] += getattr(eng.stats, f)
            res["inconclusive"] += eng.inconclusive[:5]
            res["n_inconclusive"] += len(eng.inconclusive)
        new_known = False
        for v in eng.violations:
            rr = replay_concrete(case, v["model"])
            label = v["label"]
            if label.startswith("unexpected-exception"):
                reproduced = rr["status"] == "exception" and label.endswith(":" + str(rr["exc"]))
            else:
                reproduced = (label in rr["failed"]) or (rr["status"] == "stopped" and bool(rr["failed"]))
                if reproduced and label not in rr["failed"]:
                    label = rr["failed"][-1]
                elif not reproduced and rr["status"] == "exception":
                    # the concrete run of the real code on the counterexample's input fails in
                    # another way (an exception the harness does not expect): that is a concrete
                    # failing run all the same and is reported under its own label
                    reproduced = True
                    label = f"unexpected-exception:{rr['exc']}"
                    v["detail"] = (v.get("detail") or "") + f" [concrete replay: {rr.get('detail') or rr['exc']}]"
            v["reproduced"] = reproduced
            v["replay_status"] = rr["status"]
            v["replay_exc"] = rr["exc"]
            if not reproduced:
                res["errors"].append(
                    f"non-reproducing counterexample {_signature(case, v['label'])} model={v['model']} replay={rr['status']} {rr['exc']} {rr.get('detail') or ''}"
                )
                continue
            sig = _signature(case, label)
            hit = _match_known(sig, v["model"], excl)
            if hit is not None:
                res["known_hits"].append({"signature": sig, "id": hit["id"], "what": hit["what"], "model": v["model"]})
                ex = hit.get("exclude")
                if ex and ex not in excluded_exprs:
                    excluded_exprs.append(ex)
                    new_known = True
            else:
                v["label"] = label
                res["violations"].append(v)
        if not new_known or rounds >= 4:
            break


def _compare(rec, rr):
    """symbolic path record vs concrete run under a model of the path"""
    if rr["status"] == "vacuous":
        return False, f"concrete run found an assumption false ({rr['exc']})"
    if rec["status"] == "exception":
        if rr["status"] != "exception" or rr["exc"] != rec["exc"]:
            return False, f"symbolic raised {rec['exc']}, concrete {rr['status']} {rr['exc']}"
        return True, ""
    if rr["status"] == "exception":
        return False, f"concrete raised {rr['exc']}: {rr.get('detail')}"
    sp = [(lab, val) for lab, val in rec["proved"] if not lab.startswith(("conc:", "sym:"))]
    cp = [(lab, val) for lab, val in rr["proved"] if not lab.startswith(("conc:", "sym:"))]
    # the concrete run stops at the first failed obligation; compare the common prefix
    for (ls, vs), (lc, vc) in zip(sp, cp):
        if ls != lc:
            return False, f"obligation sequence differs: {ls} vs {lc}"
        if vs is not None and bool(vs) != bool(vc):
            return False, f"obligation {ls}: symbolic model value {vs}, concrete {vc}"
    if rec["status"] == "ok" and len(cp) != len(sp):
        return False, f"different number of obligations: {len(sp)} vs {len(cp)}"
    for (ls, vs), (lc, vc) in zip(rec["observed"], rr["observed"]):
        if ls != lc:
            return False, f"observation sequence differs: {ls} vs {lc}"
        if isinstance(vs, list) and vs is not None:
            try:
                fc = Fraction(vc)
            except (TypeError, ValueError):
                continue
            if isinstance(vc, float):
                continue
            if Fraction(vs[0], vs[1]) != fc:
                return False, f"observation {ls}: symbolic {vs}, concrete {vc}"
        elif isinstance(vs, bool):
            if vs != bool(vc):
                return False, f"observation {ls}: symbolic {vs}, concrete {vc}"
    return True, ""


def _match_known(sig, model, known):
    for k in known:
        if not any(fnmatch.fnmatchcase(sig, pat) for pat in k["signatures"]):
            continue
        when = k.get("when")
        if when:
            env = {n: _fr(v) for n, v in model.items() if not n.startswith("choice:")}
            env.update({"Fraction": Fraction})
            try:
                if not eval(when, {"__builtins__": {}}, env):  # noqa: S307 - committed file
                    continue
            except Exception:  # noqa: BLE001
                continue
        return k
    return None


# ----------------------------------------------------------------------------- main


def load_known():
    p = os.path.join(ROOT, "known_findings.json")
    if not os.path.exists(p):
        return []
    with open(p) as f:
        return json.load(f)["findings"]


def repo_fingerprint():
    def sh(*a):
        try:
            return subprocess.run(a, capture_output=True, text=True, timeout=30).stdout.strip()
        except Exception:  # noqa: BLE001
            return ""

    head = sh("git", "-C", "/repo", "rev-parse", "HEAD")
    dirty = sh("git", "-C", "/repo", "status", "--porcelain", "--", "pint")
    h = hashlib.sha256()
    for root, _dirs, files in os.walk("/repo/pint"):
        if "testsuite" in root or "__pycache__" in root:
            continue
        for fn in sorted(files):
            if fn.endswith((".py", ".txt")):
                with open(os.path.join(root, fn), "rb") as f:
                    h.update(fn.encode())
                    h.update(f.read())
    return {"head": head, "dirty": bool(dirty), "pint_sources_sha256": h.hexdigest()}


def check(prop, tier, seed, jobs=None, only=None):
    t0 = time.perf_counter()
    mod = importlib.import_module(f"pvlib.harness.{prop.lower()}")
    cases = mod.cases(tier, seed)
    if only:
        cases = [c for c in cases if fnmatch.fnmatchcase(f"{c.family}|{c.sig}", only)]
    known = [k for k in load_known() if k["property"] == prop or prop in k.get("also", [])]
    jobs = jobs or min(16, os.cpu_count() or 4)
    args = [(asdict(c), tier, seed, known) for c in cases]
    # heavier cases first
    # heaviest first, one case per task (a chunk of the heaviest cases on one worker would
    # serialise them while the other workers sit idle)
    order = sorted(range(len(args)), key=lambda i: -cases[i].weight)
    results = [None] * len(args)
    if jobs == 1 or len(args) <= 1:
        for i in order:
            results[i] = run_case(args[i])
    else:
        ctx = mp.get_context("fork")
        with ctx.Pool(jobs, maxtasksperchild=None) as pool:
            for i, r in zip(order, pool.imap(run_case, [args[i] for i in order], chunksize=1)):
                results[i] = r
            pool.close()
            pool.join()
    return finish(prop, tier, seed, mod, cases, results, known, time.perf_counter() - t0)


def finish(prop, tier, seed, mod, cases, results, known, wall):
    from pvlib.sx.engine import Stats

    tot = Stats()
    agg_extra = {"conc_runs": 0, "ch_conditions": 0, "ch_confirmed": 0}
    ch_details = []
    violations, known_hits, errors, inconcl = [], [], [], []
    validated = 0
    samples = []
    fam = {}
    for r in results:
        st = r["stats"]
        if st:
            tot.add({f: st.get(f, 0) for f in Stats.FIELDS})
            agg_extra["conc_runs"] += st.get("conc_runs", 0)
            agg_extra["ch_conditions"] += st.get("ch_conditions", 0)
            agg_extra["ch_confirmed"] += st.get("ch_confirmed", 0)
        if r.get("ch"):
            ch_details.append(r["ch"])
        f = fam.setdefault(r["case"]["family"], {"cases": 0, "paths": 0, "discharged": 0, "wall_s": 0.0})
        f["cases"] += 1
        f["paths"] += st.get("paths", 0) if st else 0
        f["discharged"] += st.get("discharged", 0) if st else 0
        f["wall_s"] = round(f["wall_s"] + r["wall_s"], 3)
        validated += r["validated"]
        for v in r["violations"]:
            violations.append((r["case"], v))
        known_hits += r["known_hits"]
        errors += r["errors"]
        if r.get("n_inconclusive", len(r["inconclusive"])):
            inconcl.append({"case": f"{r['case']['family']}|{r['case']['sig']}", "items": r["inconclusive"][:4], "count": r.get("n_inconclusive", len(r["inconclusive"]))})
        if r["samples"] and len(samples) < 8:
            s = dict(r["samples"][0])
            s["case"] = f"{r['case']['family']}|{r['case']['sig']}"
            s["kwargs"] = r["case"]["kwargs"]
            samples.append(s)

    # vacuity guard: the property module may demand minimum counts per family
    min_counts = getattr(mod, "MIN_DISCHARGED", {})
    for family, need in min_counts.items():
        got = fam.get(family, {}).get("discharged", 0)
        if family in fam and got < need:
            errors.append(f"vacuity guard: family {family} discharged {got} obligations, expected at least {need}")

    os.makedirs(os.path.join(ROOT, "replays", prop), exist_ok=True)
    lines = []
    seen_known = {}
    for kh in known_hits:
        seen_known.setdefault(kh["id"], kh)
    for kid, kh in sorted(seen_known.items()):
        lines.append(f"KNOWN-FINDING: property={prop} {kid}: {kh['what']} (e.g. {kh['signature']})")
    vio_out = []
    n_viol_total = len(violations)
    # one replay file / line per distinct signature, capped: a broken tree can fail thousands
    seen_sig = set()
    uniq = []
    for case, v in violations:
        sg = _signature(case, v["label"])
        if sg in seen_sig:
            continue
        seen_sig.add(sg)
        uniq.append((case, v))
    violations = uniq[:40]
    for case, v in violations:
        sig = _signature(case, v["label"])
        payload = {
            "property": prop,
            "signature": sig,
            "case": case,
            "model": v["model"],
            "label": v["label"],
            "obligation": v.get("obligation"),
            "detail": v.get("detail"),
        }
        hid = hashlib.sha1(json.dumps(payload, sort_keys=True, default=str).encode()).hexdigest()[:12]
        path = os.path.join(ROOT, "replays", prop, f"{hid}.json")
        with open(path, "w") as f:
            json.dump(payload, f, indent=1, default=str)
        vio_out.append({"signature": sig, "model": v["model"], "replay": path})
        lines.append(f"VIOLATION property={prop} replay={path}   # {sig} model={_short_model(v['model'])}")

    status = 0
    if errors or inconcl:
        status = 2
    if vio_out:
        status = 1

    meta = getattr(mod, "META", {})
    evidence = {
        "property_id": prop,
        "tier": tier,
        "seed": seed,
        "level": "model_checking",
        "wall_s": round(wall, 3),
        "violations": n_viol_total,
        "coverage": {
            "states": max(tot.paths, 0),
            "transitions": tot.decisions + tot.choices + tot.discharged,
            "transitions_rule": "symbolic branch decisions + enumerated choices + obligations discharged by the solver",
            "traces_validated_against_impl": validated,
            "samples": samples or [{"note": "no obligation sample recorded"}],
            "obligations": tot.discharged + tot.sat + tot.unknown,
            "discharged": tot.discharged,
            "exhaustive": False,
            "explanation": meta.get("explanation", ""),
            "cases": len(cases),
            "families": fam,
            "queries": {"total": tot.queries, "discharged_unsat": tot.discharged, "sat": tot.sat, "unknown": tot.unknown},
            "solver_time_s": round(tot.solver_s, 3),
            "paths": {"explored": tot.paths, "infeasible": tot.infeasible, "concretized": tot.concretized, "budget": tot.budget},
            "realizations": tot.realizations,
            "float_demands_off_allowlist": tot.float_demands,
            "concrete_enumeration_runs": agg_extra["conc_runs"],
            "crosshair_conditions": {"total": agg_extra["ch_conditions"], "confirmed_over_all_paths": agg_extra["ch_confirmed"], "details": ch_details},
            "functions_encoded": meta.get("functions_encoded", []),
            "bounds": meta.get("bounds", {}),
            "enumerated_axes": meta.get("enumerated_axes", []),
            "stubs": meta.get("stubs", []),
            "outside_claim": meta.get("outside_claim", []),
            "known_findings_hit": sorted(seen_known),
            "violations_found": vio_out[:20],
            "inconclusive": inconcl[:20],
            "harness_errors": [e[:1500] for e in errors[:10]],
            "code_under_test": repo_fingerprint(),
            "solver": "z3 " + _z3_version(),
            "second_solver_cross_check": {"solver": "cvc5 (python API, tlimit 4 s per query)", "sampled_unsat_queries": tot.xcheck_agree + tot.xcheck_unknown + tot.xcheck_disagree, "agree_unsat": tot.xcheck_agree, "unknown_or_unsupported": tot.xcheck_unknown, "disagree": tot.xcheck_disagree},
            "exit_status": status,
        },
        "assumptions": meta.get("assumptions", [])
        + [
            "claims are for exact rational arithmetic (non_int_type=Q, a behavioural twin of fractions.Fraction); IEEE floats, Decimal contexts, NaN/inf are outside",
            "z3's unsat answers are trusted; counterexamples are replayed on a real Fraction registry before being reported",
        ],
    }
    os.makedirs(os.path.join(ROOT, "evidence"), exist_ok=True)
    with open(os.path.join(ROOT, "evidence", f"{prop}.json"), "w") as f:
        json.dump(evidence, f, indent=1, default=str)

    for ln in lines:
        print(ln)
    for e in errors[:10]:
        print("HARNESS-ERROR:", e[:1200])
    for ic in inconcl[:10]:
        print("INCONCLUSIVE:", json.dumps(ic, default=str)[:600])
    print(
        f"[{prop} {tier}] cases={len(cases)} paths={tot.paths} decisions={tot.decisions} queries={tot.queries} "
        f"discharged={tot.discharged} sat={tot.sat} unknown={tot.unknown} validated={validated} "
        f"known={len(seen_known)} violations={len(vio_out)} errors={len(errors)} inconclusive={len(inconcl)} "
        f"solver_s={tot.solver_s:.1f} wall_s={wall:.1f} exit={status}"
    )
    return status


def _short_model(m):
    out = {}
    for k, v in m.items():
        if isinstance(v, list):
            fr = Fraction(v[0], v[1])
            out[k] = str(fr)
        else:
            out[k] = v
    return json.dumps(out)[:300]


def _z3_version():
    import z3

    return z3.get_version_string()


def replay_file(path):
    with open(path) as f:
        payload = json.load(f)
    if payload["case"].get("kind") == "ch":
        from pvlib.ch.runner import replay_call

        call = payload["model"]["call"].split(" (which")[0]
        failed, how = replay_call(payload["case"]["module"], call)
        print(json.dumps({"signature": payload["signature"], "call": call, "result": how}, indent=1))
        print("REPRODUCED" if failed else "NOT REPRODUCED")
        return 1 if failed else 0
    rr = replay_concrete(payload["case"], payload["model"])
    print(json.dumps({"signature": payload["signature"], "model": _short_model(payload["model"]), "status": rr["status"], "exc": rr["exc"], "failed": rr["failed"], "proved": rr["proved"][-5:]}, indent=1, default=str))
    if rr.get("detail"):
        print(rr["detail"])
    reproduced = (rr["status"] == "stopped" and rr["failed"]) or rr["status"] == "exception"
    print("REPRODUCED" if reproduced else "NOT REPRODUCED")
    return 1 if reproduced else 0


def main(argv=None):
    import argparse

    ap = argparse.ArgumentParser(prog="pv")
    sub = ap.add_subparsers(dest="cmd", required=True)
    c = sub.add_parser("check")
    c.add_argument("prop")
    c.add_argument("--tier", default=os.environ.get("VERIF_TIER", "quick"))
    c.add_argument("--jobs", type=int, default=None)
    c.add_argument("--only", default=None)
    r = sub.add_parser("replay")
    r.add_argument("path")
    a = ap.parse_args(argv)
    if a.cmd == "check":
        seed = int(os.environ.get("VERIF_SEED", "0") or 0)
        tier = a.tier if a.tier in ("quick", "thorough") else "quick"
        return check(a.prop.upper(), tier, seed, a.jobs, a.only)
    if a.cmd == "replay":
        return replay_file(a.path)


if __name__ == "__main__":
    sys.exit(main())
