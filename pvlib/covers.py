"""Structural selection of units from the default registry, driven by the independent reader
(REF), never by pint.  Gives every unit an ``Info`` (affine map to root units, base-dimension
vector, kind) and builds the cover lists / seeded draws the harnesses use."""

from __future__ import annotations

import random
from dataclasses import dataclass
from fractions import Fraction

from .ref import refdefs


@dataclass(frozen=True)
class Info:
    name: str  # a spelling pint accepts
    canonical: str
    num: Fraction  # root value = num * x + off
    off: Fraction
    roots: tuple  # ((root unit, exponent), ...)
    dims: tuple  # ((base dimension, exponent), ...) without '[]'
    kind: str  # base | mult | offset | delta | log | dimensionless
    inexact: bool

    @property
    def dimkey(self):
        return self.dims


_INFO_CACHE = {}


def infos():
    d = refdefs.default()
    key = id(d)
    if key in _INFO_CACHE:
        return _INFO_CACHE[key]
    out = {}
    for name, ud in d.units.items():
        try:
            v = d.value(name)
        except Exception:  # noqa: BLE001
            continue
        dims = tuple(sorted(d.dim_vector(v).items()))
        off = Fraction(0)
        kind = "base" if ud.is_base else "mult"
        if "offset" in ud.modifiers:
            off = refdefs.number(ud.modifiers["offset"])
            if off != 0:
                kind = "offset"
        if "logbase" in ud.modifiers:
            kind = "log"
        if kind in ("base", "mult") and not dims:
            kind = "dimensionless"
        out[name] = Info(name, name, v.num, off, v.units, dims, kind, v.inexact)
        if kind == "offset":
            dn = "delta_" + name
            out[dn] = Info(dn, dn, v.num, Fraction(0), v.units, dims, "delta", v.inexact)
    _INFO_CACHE.clear()
    _INFO_CACHE[key] = out
    return out


def info(name):
    return infos()[name]


def classes(exact_only=True, kinds=("base", "mult")):
    """same-dimension classes of canonical units"""
    cl = {}
    for i in infos().values():
        if i.kind not in kinds:
            continue
        if exact_only and i.inexact:
            continue
        cl.setdefault(i.dims, []).append(i.name)
    return {k: sorted(v) for k, v in cl.items()}


TEMPERATURE = [
    "kelvin",
    "degree_Celsius",
    "degree_Fahrenheit",
    "degree_Rankine",
    "degree_Reaumur",
    "delta_degree_Celsius",
    "delta_degree_Fahrenheit",
    "delta_degree_Reaumur",
]

# one unit (or more) per definition shape; every name is checked against REF at import
COVER = [
    "meter",  # base
    "second",
    "gram",
    "inch",  # chain through yard
    "mile",
    "angstrom",
    "light_year",
    "hour",
    "week",
    "newton",  # derived, negative exponents in the chain
    "joule",
    "watt",
    "pascal",
    "psi",
    "hertz",
    "becquerel",
    "liter",
    "gallon",
    "acre",
    "knot",
    "pound",
    "ounce",
    "tonne",
    "electron_volt",
    "calorie",
    "horsepower",
    "radian",  # dimensionless with own root unit
    "degree",
    "count",
    "bit",
    "byte",
    "percent",
    "ppm",
    "ohm",
    "farad",
    "tesla",
    "mole",
    "katal",
    "lumen",
    "speed_of_light",  # constant-valued
    "planck_constant",
    "standard_gravity",
]


def cover(kinds=("base", "mult", "dimensionless")):
    inf = infos()
    out = []
    sp = refdefs.default().spellings
    for n in COVER:
        n = sp.get(n, n)
        if n not in inf:
            raise KeyError(f"cover-list unit {n} is not defined by the bundled files (REF)")
        if inf[n].kind in kinds and not inf[n].inexact:
            out.append(n)
    return out


def positive(names):
    """drop units with a non-positive scale (electron_g_factor): ordering clauses are stated
    for positively scaled units only"""
    inf = infos()
    return [n for n in names if inf[n].num > 0]


def same_dim_pairs(seed, n, include_cover=True, kinds=("base", "mult", "dimensionless"), positive_only=False):
    """ordered pairs of distinct same-dimension exact units: structural cover first, then
    seeded draws over all classes"""
    rnd = random.Random(f"pairs:{seed}")
    cl = classes(kinds=kinds)
    inf = infos()
    if positive_only:
        cl = {k: [m for m in v if inf[m].num > 0] for k, v in cl.items()}
    pairs = []
    seen = set()

    def add(a, b):
        if a != b and (a, b) not in seen:
            seen.add((a, b))
            pairs.append((a, b))

    if include_cover:
        for u in cover(kinds):
            members = [m for m in cl.get(inf[u].dims, []) if m != u]
            if members:
                add(u, rnd.choice(members))
    keys = [k for k, v in cl.items() if len(v) >= 2]
    guard = 0
    while len(pairs) < n and guard < 50 * n:
        guard += 1
        k = rnd.choice(keys)
        a, b = rnd.sample(cl[k], 2)
        add(a, b)
    return pairs[:n]


def cross_dim_pairs(seed, n):
    rnd = random.Random(f"xpairs:{seed}")
    cl = classes()
    keys = sorted(cl)
    out = []
    seen = set()
    while len(out) < n:
        k1, k2 = rnd.sample(keys, 2)
        a, b = rnd.choice(cl[k1]), rnd.choice(cl[k2])
        if (a, b) not in seen:
            seen.add((a, b))
            out.append((a, b))
    return out


def all_same_dim_pairs(kinds=("base", "mult", "dimensionless")):
    out = []
    for members in classes(kinds=kinds).values():
        for a in members:
            for b in members:
                if a != b:
                    out.append((a, b))
    return out
