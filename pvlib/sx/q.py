"""Q -- the numeric type that makes pint's own code run symbolically.

A Q is either *concrete* (``c`` is a ``fractions.Fraction``, arithmetic is Fraction
arithmetic, no solver involved) or *symbolic* (``t`` is a z3 real-sorted term).  It is
deliberately NOT a subclass of int/float/Fraction (a subclass is read by C code without
going through a dunder and silently concretises); it is registered with numbers.Real so
pint's ``isinstance(x, Number)`` tests accept it.

Design rules (DESIGN.md 3.1.1):
  * behavioural twin of Fraction on concrete values (construction, arithmetic, hash, str,
    format -- including the ValueErrors Fraction.__format__ raises);
  * comparisons of symbolic values return SymBool; SymBool.__bool__ is the only place
    where the exploration forks;
  * leaks: __float__ on a symbolic value raises TypeError (pint's compat.isnan relies on
    that) and logs the demand; __int__/__hash__ realise finitely-valued terms; everything
    else raises Concretized (a BaseException, so pint's ``except Exception`` cannot eat it);
  * str()/format() of a symbolic value returns a fresh reserved decimal literal
    ``9dddddddd`` and Q("9dddddddd") maps it back (placeholder literals, 3.1.5).
"""

from __future__ import annotations

import math
import numbers
import sys
from decimal import Decimal
from fractions import Fraction

import z3

from . import engine as _eng

__all__ = ["Q", "SymBool", "term", "is_sym", "And", "Or", "Not", "Implies", "Eq"]


def _cur():
    e = _eng.CURRENT
    if e is None:
        raise RuntimeError("symbolic Q used outside an exploration")
    return e


# --------------------------------------------------------------------------- SymBool


class SymBool:
    """A z3 Bool produced by comparing symbolic numbers.  bool() forks the path."""

    __slots__ = ("e",)

    def __init__(self, e):
        self.e = e

    def __bool__(self):
        return _cur().branch(self.e)

    # zero_or_nan does ``eq(obj, 0) + isnan(obj)``
    def __add__(self, other):
        return Or(self, other)

    __radd__ = __add__

    def __and__(self, other):
        return And(self, other)

    __rand__ = __and__

    def __or__(self, other):
        return Or(self, other)

    __ror__ = __or__

    def __invert__(self):
        return SymBool(z3.Not(self.e))

    def __repr__(self):
        return f"SymBool({self.e.sexpr()})"

    # numpy's ``out.all()`` / any() on a scalar result
    def all(self):
        return self

    def any(self):
        return self


def _b(x):
    """python bool / SymBool / z3 BoolRef -> z3 BoolRef"""
    if isinstance(x, SymBool):
        return x.e
    if isinstance(x, z3.BoolRef):
        return x
    if isinstance(x, (bool, int)):
        return z3.BoolVal(bool(x))
    try:
        import numpy as np

        if isinstance(x, np.bool_):
            return z3.BoolVal(bool(x))
    except ImportError:  # pragma: no cover
        pass
    raise TypeError(f"not a boolean: {x!r}")


def _wrapb(e):
    if z3.is_true(e):
        return True
    if z3.is_false(e):
        return False
    return SymBool(e)


def And(*xs):
    bs = [_b(x) for x in xs]
    if all(z3.is_true(b) or z3.is_false(b) for b in bs):
        return all(z3.is_true(b) for b in bs)
    return SymBool(z3.And(*bs))


def Or(*xs):
    bs = [_b(x) for x in xs]
    if all(z3.is_true(b) or z3.is_false(b) for b in bs):
        return any(z3.is_true(b) for b in bs)
    return SymBool(z3.Or(*bs))


def Not(x):
    b = _b(x)
    if z3.is_true(b):
        return False
    if z3.is_false(b):
        return True
    return SymBool(z3.Not(b))


def Implies(a, b):
    return Or(Not(a), b)


def Eq(a, b):
    """equality of two numbers (Q / int / Fraction) as a non-forking boolean"""
    a, b = _coerce(a), _coerce(b)
    if a is NotImplemented or b is NotImplemented:
        raise TypeError("Eq of non-numbers")
    return a.__eq__(b)


def Iff(a, b):
    a, b = _b(a), _b(b)
    return _wrapb(z3.simplify(a == b))


# --------------------------------------------------------------------------- helpers

_ZERO = Fraction(0)
_ONE = Fraction(1)


def _rv(fr: Fraction):
    return z3.RealVal(f"{fr.numerator}/{fr.denominator}")


def _valid_format_spec(spec: str) -> bool:
    """Would Fraction.__format__ accept this spec?  (value independent)"""
    try:
        format(Fraction(3, 7), spec)
        format(Fraction(2), spec)
        return True
    except ValueError:
        return False


class _Placeholders:
    """literal <-> term table.  Literals are globally unique (never reused across paths)
    because pint memoises on strings (ParserHelper.from_string lru_cache)."""

    def __init__(self):
        self.counter = 0
        self.table = {}  # literal -> (term, spec)

    def new(self, t, spec=""):
        self.counter += 1
        if self.counter >= 99_999_999:
            raise RuntimeError("placeholder space exhausted")
        lit = f"9{self.counter:08d}"
        self.table[lit] = (t, spec)
        return lit

    def lookup(self, lit):
        return self.table.get(lit)

    def reset_path(self):
        self.table.clear()


PLACEHOLDERS = _Placeholders()


def is_placeholder(s: str) -> bool:
    return len(s) == 9 and s[0] == "9" and s.isdigit() and s in PLACEHOLDERS.table


# --------------------------------------------------------------------------- Q


_PH_EXP = __import__("re").compile(r"(-?)\s*(9[0-9]{8})[eE]([+-]?[0-9]+)")


class Q:
    __slots__ = ("c", "k", "b", "_t", "inexact")

    def __new__(cls, value=0, denominator=None):
        self = object.__new__(cls)
        self.k = None
        self.b = None
        self._t = None
        self.inexact = False
        if denominator is not None:
            value = _coerce(value) / _coerce(denominator)
        if isinstance(value, Q):
            self.c, self.k, self.b, self._t, self.inexact = value.c, value.k, value.b, value._t, value.inexact
            return self
        if isinstance(value, str):
            s = value.strip()
            ph = PLACEHOLDERS.lookup(s)
            if ph is not None:
                self.c = None
                self.k, self.b = _ONE, ph[0]
                return self
            if s.startswith("-"):
                ph = PLACEHOLDERS.lookup(s[1:].strip())
                if ph is not None:
                    self.c = None
                    self.k, self.b = -_ONE, ph[0]
                    return self
            # a placeholder mantissa with an exponent suffix ("912345678e-05"): the tokenizers glue
            # an exponent to a number token; it denotes that number times the power of ten
            m = _PH_EXP.fullmatch(s)
            if m is not None:
                ph = PLACEHOLDERS.lookup(m.group(2))
                if ph is not None:
                    scale = Fraction(10) ** int(m.group(3))
                    self.c = None
                    self.k, self.b = (-scale if m.group(1) else scale), ph[0]
                    return self
            if len(s) == 9 and s[0] == "9" and s.isdigit():
                # a reserved literal that is not registered on this path: a stale string
                # leaked across paths.  Never silently read it as the number 9e8.
                raise _eng.HarnessError(f"stale placeholder literal {s!r}")
            self.c = Fraction(s)  # raises ValueError like Fraction for 'inf', 'nan', ...
            return self
        if isinstance(value, bool):
            self.c = Fraction(int(value))
            return self
        if isinstance(value, (int, Fraction)):
            self.c = Fraction(value)
            return self
        if isinstance(value, float):
            self.c = Fraction(value)  # exact binary value, like Fraction(float)
            return self
        if isinstance(value, Decimal):
            self.c = Fraction(value)
            return self
        if isinstance(value, z3.ArithRef):
            self.c = None
            self.k, self.b = _ONE, (value if value.is_real() else z3.ToReal(value))
            return self
        if isinstance(value, numbers.Rational):
            self.c = Fraction(value.numerator, value.denominator)
            return self
        try:
            import numpy as np

            if isinstance(value, np.integer):
                self.c = Fraction(int(value))
                return self
            if isinstance(value, np.floating):
                self.c = Fraction(float(value))
                return self
        except ImportError:  # pragma: no cover
            pass
        raise TypeError(f"cannot build Q from {type(value).__name__}: {value!r}")

    # -- structure ---------------------------------------------------------------

    @property
    def sym(self):
        return self.c is None

    @property
    def t(self):
        """full z3 term of a symbolic value: k * b (coefficient times base term).  Keeping
        the rational coefficient outside the term makes results that differ only by the
        order of constant factors syntactically equal, which is what lets the solver decide
        floor-division / modulo covariance"""
        if self._t is None:
            self._t = self.b if self.k == 1 else _rv(self.k) * self.b
        return self._t

    def term(self):
        return self.t if self.c is None else _rv(self.c)

    @classmethod
    def _mk(cls, c=None, t=None, inexact=False):
        self = object.__new__(cls)
        self.c = c
        self.k = _ONE if t is not None else None
        self.b = t
        self._t = None
        self.inexact = inexact
        return self

    @classmethod
    def _mks(cls, k, b, inexact=False):
        if k == 0:
            return cls._mk(_ZERO, inexact=inexact)
        self = object.__new__(cls)
        self.c = None
        self.k = k
        self.b = b
        self._t = None
        self.inexact = inexact
        return self

    def _concrete_or_realized(self):
        """Fraction value if concrete or already realised on this path, else None."""
        if self.c is not None:
            return self.c
        return _cur().known_value(self.t)

    def realize(self) -> Fraction:
        if self.c is not None:
            return self.c
        return _cur().realize(self.t)

    # -- arithmetic ---------------------------------------------------------------

    def __add__(a, b):
        b = _coerce(b)
        if b is NotImplemented:
            return b
        inx = a.inexact or b.inexact
        if a.c is not None and b.c is not None:
            return Q._mk(a.c + b.c, inexact=inx)
        if b.c is not None and b.c == 0:
            return a
        if a.c is not None and a.c == 0:
            return b
        if a.c is None and b.c is None and z3.eq(a.b, b.b):
            return Q._mks(a.k + b.k, a.b, inx)
        return Q._mk(t=a.term() + b.term(), inexact=inx)

    __radd__ = __add__

    def __sub__(a, b):
        b = _coerce(b)
        if b is NotImplemented:
            return b
        inx = a.inexact or b.inexact
        if a.c is not None and b.c is not None:
            return Q._mk(a.c - b.c, inexact=inx)
        if b.c is not None and b.c == 0:
            return a
        if a.c is None and b.c is None and z3.eq(a.b, b.b):
            return Q._mks(a.k - b.k, a.b, inx)
        if a.c is not None and a.c == 0:
            return Q._mks(-b.k, b.b, inx)
        return Q._mk(t=a.term() - b.term(), inexact=inx)

    def __rsub__(a, b):
        b = _coerce(b)
        if b is NotImplemented:
            return b
        return b.__sub__(a)

    def __mul__(a, b):
        b = _coerce(b)
        if b is NotImplemented:
            return b
        inx = a.inexact or b.inexact
        if a.c is not None and b.c is not None:
            return Q._mk(a.c * b.c, inexact=inx)
        for u, v in ((a, b), (b, a)):
            if u.c is not None:
                if u.c == 1 and not u.inexact:
                    return v
                if u.c == 0:
                    return Q._mk(_ZERO)
                return Q._mks(v.k * u.c, v.b, inx)
        return Q._mks(a.k * b.k, a.b * b.b, inx)

    __rmul__ = __mul__

    def __truediv__(a, b):
        b = _coerce(b)
        if b is NotImplemented:
            return b
        inx = a.inexact or b.inexact
        if b.c is not None:
            if b.c == 0:
                raise ZeroDivisionError("Q(%s, 0)" % (a,) if a.c is not None else "Q/0")
            if a.c is not None:
                return Q._mk(a.c / b.c, inexact=inx)
            if b.c == 1 and not b.inexact:
                return a
            return Q._mks(a.k / b.c, a.b, inx)
        # symbolic divisor: Fraction raises on zero, z3's division is total -> fork
        if b.__eq__(0):
            raise ZeroDivisionError("division by a symbolic value that can be zero")
        if a.c is not None:
            if a.c == 0:
                return Q._mk(_ZERO)
            return Q._mks(a.c / b.k, 1 / b.b, inx)
        if z3.eq(a.b, b.b):
            return Q._mk(a.k / b.k, inexact=inx)
        return Q._mks(a.k / b.k, a.b / b.b, inx)

    def __rtruediv__(a, b):
        b = _coerce(b)
        if b is NotImplemented:
            return b
        return b.__truediv__(a)

    def __floordiv__(a, b):
        b = _coerce(b)
        if b is NotImplemented:
            return b
        if a.c is not None and b.c is not None:
            return Q._mk(Fraction(a.c // b.c), inexact=a.inexact or b.inexact)
        q = a.__truediv__(b)
        if q.c is not None:
            return Q._mk(Fraction(math.floor(q.c)))
        return Q._mk(t=z3.ToReal(z3.ToInt(q.t)), inexact=q.inexact)

    def __rfloordiv__(a, b):
        b = _coerce(b)
        if b is NotImplemented:
            return b
        return b.__floordiv__(a)

    def __mod__(a, b):
        b = _coerce(b)
        if b is NotImplemented:
            return b
        if a.c is not None and b.c is not None:
            return Q._mk(a.c % b.c, inexact=a.inexact or b.inexact)
        return a - b * a.__floordiv__(b)

    def __rmod__(a, b):
        b = _coerce(b)
        if b is NotImplemented:
            return b
        return b.__mod__(a)

    def __divmod__(a, b):
        b = _coerce(b)
        if b is NotImplemented:
            return b
        d = a.__floordiv__(b)
        return d, a - b * d

    def __rdivmod__(a, b):
        b = _coerce(b)
        if b is NotImplemented:
            return b
        return b.__divmod__(a)

    def __pow__(a, b, mod=None):
        if mod is not None:
            return NotImplemented
        # Fraction ** float is a float in Python, whatever the float's value: the result is
        # tagged as float-derived (nothing exact may be claimed about it)
        float_exponent = isinstance(b, float) or (isinstance(b, Q) and b.c is not None and b.inexact)
        b = _coerce(b)
        if b is NotImplemented:
            return b
        if b.c is None:
            # symbolic exponent: finitely-valued ones are realised (fork per value)
            bv = _cur().realize(b.t)
            b = Q._mk(bv, inexact=b.inexact)
        e = b.c
        inx = a.inexact or b.inexact or float_exponent
        if e.denominator == 1:
            n = e.numerator
            if a.c is not None:
                if n < 0 and a.c == 0:
                    raise ZeroDivisionError("Q(0) ** negative")
                if float_exponent:
                    # what Python computes for Fraction ** float: a float (exact binary value kept)
                    return Q._mk(Fraction(float(a.c) ** float(n)), inexact=True)
                return Q._mk(a.c**n, inexact=inx)
            if n == 0:
                return Q._mk(_ONE)
            if n == 1:
                return a
            if abs(n) > 12:
                raise _eng.Concretized(f"symbolic ** {n}: exponent too large to encode")
            t = a.b
            p = t
            for _ in range(abs(n) - 1):
                p = p * t
            if n < 0:
                if a.__eq__(0):
                    raise ZeroDivisionError("symbolic zero ** negative")
                p = 1 / p
            return Q._mks(a.k**n, p, inx)
        # non-integer exponent
        if a.c is not None:
            # Fraction ** Fraction(non-integer) -> float in Python; keep its exact binary
            # value but tag it: nothing exact may be claimed about results depending on it
            if a.c < 0:
                raise _eng.Concretized("negative base ** fractional exponent (complex)")
            if a.c == 1:
                return Q._mk(_ONE, inexact=inx)
            # Python computes this in floating point; nothing exact may be claimed
            val = float(a.c) ** float(e)
            return Q._mk(Fraction(val), inexact=True)
        if e == Fraction(1, 2):
            return a.sqrt()
        raise _eng.Concretized(f"symbolic base ** {e}")

    def __rpow__(a, b, mod=None):
        if mod is not None:
            return NotImplemented
        b = _coerce(b)
        if b is NotImplemented:
            return b
        return b.__pow__(a)

    def __neg__(a):
        if a.c is not None:
            return Q._mk(-a.c, inexact=a.inexact)
        return Q._mks(-a.k, a.b, a.inexact)

    def __pos__(a):
        return a

    def __abs__(a):
        if a.c is not None:
            return Q._mk(abs(a.c), inexact=a.inexact)
        return Q._mks(abs(a.k), z3.If(a.b >= 0, a.b, -a.b), a.inexact)

    # -- uninterpreted transcendental pair (numpy object ufuncs dispatch to methods) --

    def sqrt(a):
        if a.c is not None:
            return a ** Fraction(1, 2)
        return _cur().sqrt_of(a)

    def exp(a):
        return _cur().exp_of(a)

    def log(a):
        return _cur().log_of(a)

    def log10(a):
        return _cur().log10_of(a)

    # -- comparisons --------------------------------------------------------------

    def _cmp(a, b, pyop, zop):
        b = _coerce(b)
        if b is NotImplemented:
            return b
        if a.c is not None and b.c is not None:
            return pyop(a.c, b.c)
        return _wrapb(z3.simplify(zop(a.term(), b.term())))

    def __eq__(a, b):
        r = a._cmp(b, lambda x, y: x == y, lambda x, y: x == y)
        return False if r is NotImplemented else r

    def __ne__(a, b):
        r = a._cmp(b, lambda x, y: x != y, lambda x, y: x != y)
        return True if r is NotImplemented else r

    def __lt__(a, b):
        return a._cmp(b, lambda x, y: x < y, lambda x, y: x < y)

    def __le__(a, b):
        return a._cmp(b, lambda x, y: x <= y, lambda x, y: x <= y)

    def __gt__(a, b):
        return a._cmp(b, lambda x, y: x > y, lambda x, y: x > y)

    def __ge__(a, b):
        return a._cmp(b, lambda x, y: x >= y, lambda x, y: x >= y)

    def __bool__(a):
        if a.c is not None:
            return a.c != 0
        return bool(a.__ne__(0))

    def __hash__(a):
        if a.c is not None:
            return hash(a.c)
        return _cur().hash_of(a)

    # -- conversions / leaks ------------------------------------------------------

    def __float__(a):
        if a.c is not None:
            return float(a.c)
        _cur().float_demand()
        raise TypeError("float() of a symbolic Q")

    def __int__(a):
        if a.c is not None:
            return int(a.c)
        v = _cur().realize(a.t)
        return int(v)

    __trunc__ = __int__

    def __floor__(a):
        if a.c is not None:
            return math.floor(a.c)
        return Q._mk(t=z3.ToReal(z3.ToInt(a.t)))

    def __ceil__(a):
        if a.c is not None:
            return math.ceil(a.c)
        return Q._mk(t=-z3.ToReal(z3.ToInt(-a.t)))

    def __round__(a, ndigits=None):
        if a.c is not None:
            r = round(a.c, ndigits)
            return r if ndigits is None else Q._mk(Fraction(r), inexact=a.inexact)
        raise _eng.Concretized("round() of a symbolic Q")

    def __complex__(a):
        if a.c is not None:
            return complex(float(a.c))
        raise _eng.Concretized("complex() of a symbolic Q")

    @property
    def numerator(a):
        if a.c is not None:
            return a.c.numerator
        raise _eng.Concretized("numerator of a symbolic Q")

    @property
    def denominator(a):
        if a.c is not None:
            return a.c.denominator
        raise _eng.Concretized("denominator of a symbolic Q")

    @property
    def real(a):
        return a

    @property
    def imag(a):
        return 0

    def conjugate(a):
        return a

    def is_integer(a):
        if a.c is not None:
            return a.c.denominator == 1
        return _wrapb(z3.simplify(z3.ToReal(z3.ToInt(a.t)) == a.t))

    def as_integer_ratio(a):
        if a.c is not None:
            return a.c.as_integer_ratio()
        raise _eng.Concretized("as_integer_ratio of a symbolic Q")

    # -- text ---------------------------------------------------------------------

    def __str__(a):
        if a.c is not None:
            return str(a.c)
        return a._placeholder("")

    def __repr__(a):
        if a.c is not None:
            return f"Q({a.c})" + ("~" if a.inexact else "")
        return f"Q<{a.t.sexpr()}>"

    def __format__(a, spec):
        if a.c is not None:
            return format(a.c, spec)
        if not _valid_format_spec(spec):
            # same failure a Fraction registry gets (e.g. the 'n' spec on Python 3.12)
            return format(Fraction(3, 7), spec)
        return a._placeholder(spec)

    def _placeholder(a, spec):
        # the sign is not hidden inside the literal: precedence bugs around negative
        # numbers must stay visible to whatever parses the text back
        eng = _cur()
        v = eng.known_value(a.t)
        if v is not None:
            return format(v, spec) if spec else str(v)
        if a.__lt__(0):
            return "-" + PLACEHOLDERS.new(-a.t, spec)
        return PLACEHOLDERS.new(a.t, spec)

    # -- copy / pickle -------------------------------------------------------------

    def __copy__(a):
        return a

    def __deepcopy__(a, memo):
        return a

    def __reduce__(a):
        if a.c is not None:
            return (_unpickle_concrete, (a.c.numerator, a.c.denominator, a.inexact))
        lit = PLACEHOLDERS.new(a.t, "")
        return (_unpickle_placeholder, (lit,))


def _unpickle_concrete(n, d, inexact):
    return Q._mk(Fraction(n, d), inexact=inexact)


def _unpickle_placeholder(lit):
    ph = PLACEHOLDERS.lookup(lit)
    if ph is None:
        raise _eng.HarnessError(f"unpickling unknown placeholder {lit}")
    return Q._mk(t=ph[0])


numbers.Real.register(Q)


def _float_twin(name, reflected):
    """concrete Q combined with a Python float behaves like Fraction: the result is a float"""
    import operator as _op

    orig = getattr(Q, name)
    pyop = {"add": _op.add, "sub": _op.sub, "mul": _op.mul, "truediv": _op.truediv, "floordiv": _op.floordiv, "mod": _op.mod, "pow": _op.pow}[name.strip("_").lstrip("r") if reflected else name.strip("_")]

    def method(a, b, *rest):
        if type(b) is float and a.c is not None and not rest:
            try:
                return pyop(b, float(a.c)) if reflected else pyop(float(a.c), b)
            except OverflowError:
                pass
        return orig(a, b, *rest)

    method.__name__ = name
    return method


def _install_float_twin():
    for nm in ("__add__", "__sub__", "__mul__", "__truediv__", "__floordiv__", "__mod__", "__pow__"):
        setattr(Q, nm, _float_twin(nm, False))
    for nm in ("__radd__", "__rsub__", "__rmul__", "__rtruediv__", "__rfloordiv__", "__rmod__", "__rpow__"):
        if nm in Q.__dict__ and Q.__dict__[nm] is not Q.__dict__.get(nm.replace("__r", "__", 1)):
            setattr(Q, nm, _float_twin(nm, True))
        else:
            # reflected alias of a commutative operation
            setattr(Q, nm, _float_twin(nm, True))


def _coerce(x):
    if isinstance(x, Q):
        return x
    if isinstance(x, bool):
        return Q._mk(Fraction(int(x)))
    if isinstance(x, (int, Fraction)):
        return Q._mk(Fraction(x))
    if isinstance(x, float):
        if x != x or x in (math.inf, -math.inf):
            return NotImplemented
        # (a Fraction combined with a float is a float in Python: float-derived, tagged)
        return Q._mk(Fraction(x), inexact=True)
    if isinstance(x, Decimal):
        return Q._mk(Fraction(x))
    if isinstance(x, z3.ArithRef):
        return Q(x)
    try:
        import numpy as np

        if isinstance(x, np.integer):
            return Q._mk(Fraction(int(x)))
        if isinstance(x, np.floating):
            return Q._mk(Fraction(float(x)))
    except ImportError:  # pragma: no cover
        pass
    return NotImplemented


def term(x):
    """number -> z3 real term"""
    q = _coerce(x)
    if q is NotImplemented:
        raise TypeError(f"not a number: {x!r}")
    return q.term()


def is_sym(x):
    return isinstance(x, Q) and x.c is None


_install_float_twin()
