"""Path explorer: runs a harness (ordinary Python driving the real pint code) repeatedly,
depth-first over the tree of SymBool.__bool__ decisions, and discharges the harness's
``prove`` obligations with z3 on every path.  See DESIGN.md 3.1.2 and Appendix A.

Two engines share one API so that a harness is written once:

  SymEngine   numbers are Q terms, decisions fork, ``prove`` is a solver query
  ConcEngine  numbers are Fractions taken from a model, nothing forks, ``prove`` is a
              plain bool -- used to replay counterexamples against the real code on a
              real Fraction registry and for differential validation of explored paths
"""

from __future__ import annotations

import sys
import time
from fractions import Fraction

import z3

CURRENT = None  # the SymEngine whose path is running (single-threaded per process)


class PathAbort(BaseException):
    """Base of the path-steering exceptions.  BaseException on purpose: pint has
    ``except Exception`` blocks (to_compact, _build_cache, ...) that must not eat them."""


class Infeasible(PathAbort):
    pass


class Concretized(PathAbort):
    pass


class BudgetExceeded(PathAbort):
    pass


class SolverUnknown(PathAbort):
    pass


class HarnessError(PathAbort):
    pass


class Vacuous(PathAbort):
    """concrete replay: an assumption of the harness does not hold for the given model"""


class StopPath(PathAbort):
    """harness asks to end this path early (not an error)"""


def frac_of(v) -> Fraction:
    """z3 numeral -> Fraction"""
    if z3.is_int_value(v):
        return Fraction(v.as_long())
    if z3.is_rational_value(v):
        return Fraction(v.numerator_as_long(), v.denominator_as_long())
    if z3.is_algebraic_value(v):
        a = v.approx(20)
        return Fraction(a.numerator_as_long(), a.denominator_as_long())
    raise ValueError(f"not a numeral: {v}")


class Stats:
    FIELDS = (
        "paths",
        "decisions",
        "forks",
        "queries",
        "discharged",
        "sat",
        "unknown",
        "infeasible",
        "concretized",
        "budget",
        "realizations",
        "float_demands",
        "solver_s",
        "assumes",
        "choices",
        "xcheck_agree",
        "xcheck_unknown",
        "xcheck_disagree",
    )

    def __init__(self):
        for f in self.FIELDS:
            setattr(self, f, 0)

    def as_dict(self):
        return {f: getattr(self, f) for f in self.FIELDS}

    def add(self, other):
        for f in self.FIELDS:
            setattr(self, f, getattr(self, f) + (other[f] if isinstance(other, dict) else getattr(other, f)))


class SymEngine:
    symbolic = True

    def __init__(self, *, query_timeout_ms=10000, max_paths=4000, max_decisions=3000, max_wall_s=600.0, hash_mode="realize", cross_check=0):
        from . import q as _q

        # cross_check = n: the first n discharged (unsat) obligations of the exploration are
        # re-decided by cvc5 from the SMT-LIB text of the query (second solver, other code base)
        self.cross_check = cross_check

        self._q = _q
        self.ntype = _q.Q
        self.solver = z3.Solver()
        self.solver.set("timeout", query_timeout_ms)
        self.query_timeout_ms = query_timeout_ms
        self.max_paths = max_paths
        self.max_decisions = max_decisions
        self.max_wall_s = max_wall_s
        # realize: hash(symbolic) forks on the value (finitely-valued terms only)
        # mixed:   finitely-valued terms are realised, unbounded ones hash to a constant
        # const:   every symbolic value hashes to a constant (sound under the hash contract:
        #          equality is then always decided by __eq__, which forks symbolically)
        self.hash_mode = hash_mode
        self.stats = Stats()
        self.violations = []
        self.inconclusive = []
        self.path_records = []  # per path: dict(model=..., proved=[(label, bool)], exc=...)
        self.samples = []
        self.float_allow = ("isnan",)
        self._exp = z3.Function("sx_exp", z3.RealSort(), z3.RealSort())
        self._log = z3.Function("sx_log", z3.RealSort(), z3.RealSort())
        self.on_path_start = []
        self.excluded = []  # known-finding regions (python exprs over variable names)
        self._reset_path([])

    # ------------------------------------------------------------------ path state

    def _reset_path(self, prefix):
        # the prefix is a cube of decision literals: all of them are asserted when the path
        # starts, so their order of appearance during the run does not matter (pint keys some
        # caches on id(), which makes dict probe order vary between paths).  Positional replay
        # (pos) is only a fast path that saves solver calls while the order does agree.
        self.prefix = prefix
        self.pos = 0
        self.prefix_choices = {d[1][0]: d[2] for d in prefix if d[0] == "C"}
        self.decisions = []  # every decision met on this path: [kind, data, outcome, sibling_info]
        self.fresh = []  # the decisions that were not part of the prefix
        self.vars = {}
        self.choices = {}
        self.model = None
        self.realized = {}
        self.proved = []
        self.observed = []
        self.path_flags = set()
        self.used_stub = False
        self.n_fresh = 0
        self.notes = []
        self.hash_log = []

    # ------------------------------------------------------------------ inputs

    def real(self, name):
        if name in self.vars:
            raise HarnessError(f"variable {name} declared twice")
        v = z3.Real(name)
        self.vars[name] = v
        return self._q.Q._mk(t=v)

    def integer(self, name, lo, hi):
        if name in self.vars:
            raise HarnessError(f"variable {name} declared twice")
        v = z3.Int(name)
        self.vars[name] = v
        self._add(z3.And(v >= lo, v <= hi))
        return self._q.Q._mk(t=z3.ToReal(v))

    def halfint(self, name, lo2, hi2):
        """value k/2 for integer k in [lo2, hi2]"""
        if name in self.vars:
            raise HarnessError(f"variable {name} declared twice")
        v = z3.Int(name)
        self.vars[name] = v
        self._add(z3.And(v >= lo2, v <= hi2))
        return self._q.Q._mk(t=z3.ToReal(v) / 2)

    def boolean(self, name):
        if name in self.vars:
            raise HarnessError(f"variable {name} declared twice")
        v = z3.Bool(name)
        self.vars[name] = v
        return self._q.SymBool(v)

    def num(self, value):
        """a concrete number of the engine's numeric type"""
        return self._q.Q(value)

    def choice(self, name, options):
        """enumerated n-way fork (no solver involved); returns the chosen option"""
        options = list(options)
        n = len(options)
        if n == 0:
            raise HarnessError("choice over nothing")
        if name in self.prefix_choices:
            idx = self.prefix_choices[name]
            if self.pos is not None and self.pos < len(self.prefix) and self.prefix[self.pos][0] == "C" and self.prefix[self.pos][1] == (name, n):
                self.pos += 1
            else:
                self.pos = None
            self.decisions.append(["C", (name, n), idx, None])
        else:
            idx = 0
            ent = ["C", (name, n), 0, list(range(1, n))]
            self.decisions.append(ent)
            self.fresh.append(ent)
            self.stats.choices += 1
        self.choices[name] = idx
        return options[idx]

    def lit(self, x, paren=True):
        """text of a number for embedding in definition / expression strings"""
        if isinstance(x, self._q.Q):
            if x.c is None:
                return str(x)  # placeholder (with explicit sign)
            x = x.c
        return _lit_of_fraction(Fraction(x), paren)

    # ------------------------------------------------------------------ constraints

    def _add(self, e):
        self.solver.add(e)
        self.model = None

    def assume(self, cond):
        e = z3.simplify(self._q._b(cond))
        self.stats.assumes += 1
        if z3.is_true(e):
            return
        if z3.is_false(e):
            raise Infeasible("assumption is false")
        self._add(e)
        if self._check() != z3.sat:
            raise Infeasible("assumptions unsatisfiable on this path")

    def _check(self, *extra):
        t0 = time.perf_counter()
        if extra:
            self.solver.push()
            self.solver.add(*extra)
            r = self.solver.check()
            m = self.solver.model() if r == z3.sat else None
            self.solver.pop()
        else:
            r = self.solver.check()
            m = self.solver.model() if r == z3.sat else None
            if r == z3.sat:
                self.model = m
        self.stats.solver_s += time.perf_counter() - t0
        self.stats.queries += 1
        self._last_model = m
        return r

    def _ensure_model(self):
        if self.model is None:
            r = self._check()
            if r == z3.unsat:
                raise Infeasible("path condition unsatisfiable")
            if r != z3.sat:
                self.stats.unknown += 1
                raise SolverUnknown("path condition: solver returned unknown")
        return self.model

    # ------------------------------------------------------------------ branching

    def branch(self, cond) -> bool:
        e = z3.simplify(cond)
        if z3.is_true(e):
            return True
        if z3.is_false(e):
            return False
        if self.pos is not None and self.pos < len(self.prefix):
            kind, data, outcome = self.prefix[self.pos][:3]
            if kind == "B" and z3.eq(data, e):
                self.decisions.append(["B", e, outcome, None])
                self.pos += 1
                return outcome  # the literal was asserted when the path started
            self.pos = None  # different order on this path: decide the rest with the solver
        if len(self.decisions) >= self.max_decisions:
            self.stats.budget += 1
            raise BudgetExceeded(f"more than {self.max_decisions} decisions on one path")
        m = self._ensure_model()
        v = m.eval(e, model_completion=True)
        if z3.is_true(v):
            side = True
        elif z3.is_false(v):
            side = False
        else:
            # model evaluation was not decisive (e.g. uninterpreted terms): ask
            r = self._check(e)
            if r == z3.unknown:
                self.stats.unknown += 1
                raise SolverUnknown("branch: unknown")
            side = r == z3.sat
        other = z3.Not(e) if side else e
        r = self._check(other)
        if r == z3.unknown:
            self.stats.unknown += 1
            self.path_flags.add("unknown-sibling")
            sib = True  # cannot prune: explore it, the path will be flagged
        else:
            sib = r == z3.sat
        ent = ["B", e, side, sib]
        self.decisions.append(ent)
        self.fresh.append(ent)
        self.stats.decisions += 1
        if sib:
            self.stats.forks += 1
        # the current model satisfies the taken side, so it stays valid
        keep = self.model
        self.solver.add(e if side else z3.Not(e))
        self.model = keep
        return side

    # ------------------------------------------------------------------ realisation

    def known_value(self, t):
        # keyed by AST id; the term is stored too (keeps it alive -- z3 reuses the ids of
        # freed ASTs -- and is compared structurally)
        ent = self.realized.get(t.get_id())
        if ent is not None and z3.eq(ent[0], t):
            return ent[1]
        return None

    def _remember(self, t, val):
        self.realized[t.get_id()] = (t, val)

    def _finitely_valued(self, t) -> bool:
        """syntactic check: every variable in t is a bounded Int / Bool (or realised)"""
        seen = set()
        stack = [t]
        while stack:
            x = stack.pop()
            i = x.get_id()
            if i in seen:
                continue
            seen.add(i)
            if z3.is_const(x) and x.decl().kind() == z3.Z3_OP_UNINTERPRETED:
                if z3.is_real(x) and not z3.is_int(x):
                    if self.known_value(x) is not None:
                        continue
                    return False
            elif z3.is_app(x) and x.decl().kind() == z3.Z3_OP_UNINTERPRETED and x.num_args() > 0:
                return False
            stack.extend(x.children())
        return True

    def realize(self, t) -> Fraction:
        """fork on the value of a finitely-valued term; returns it as a Fraction"""
        st = z3.simplify(t)
        if z3.is_rational_value(st) or z3.is_int_value(st):
            return frac_of(st)
        k = self.known_value(t)
        if k is not None:
            return k
        if not self._finitely_valued(t):
            self.stats.concretized += 1
            raise Concretized("realisation of an unbounded symbolic value: " + t.sexpr()[:160])
        self.stats.realizations += 1
        while True:
            if self.pos is not None and self.pos < len(self.prefix):
                kind, data, outcome = self.prefix[self.pos][:3]
                if kind == "R" and z3.eq(data[0], st):
                    val = data[1]
                    self.decisions.append(["R", data, outcome, None])
                    self.pos += 1
                    if outcome:
                        self._remember(t, val)
                        return val
                    continue
                self.pos = None
            if len(self.decisions) >= self.max_decisions:
                self.stats.budget += 1
                raise BudgetExceeded("too many decisions (realisation)")
            m = self._ensure_model()
            val = frac_of(m.eval(st, model_completion=True))
            eqc = st == z3.RealVal(f"{val.numerator}/{val.denominator}")
            r = self._check(z3.Not(eqc))
            if r == z3.unknown:
                self.stats.unknown += 1
                self.path_flags.add("unknown-sibling")
            sib = r != z3.unsat
            ent = ["R", (st, val), True, sib]
            self.decisions.append(ent)
            self.fresh.append(ent)
            self.stats.decisions += 1
            if sib:
                self.stats.forks += 1
            keep = self.model
            self.solver.add(eqc)
            self.model = keep
            self._remember(t, val)
            return val

    def hash_of(self, q):
        if self.hash_mode == "const":
            self.hash_log.append(q.t)
            return 0x5EED
        if self.hash_mode == "mixed" and not self._finitely_valued(q.t):
            return 0x5EED
        return hash(self.realize(q.t))

    def float_demand(self):
        f = sys._getframe(2)
        names = []
        for _ in range(6):
            if f is None:
                break
            names.append(f.f_code.co_name)
            f = f.f_back
        if not any(n in self.float_allow for n in names):
            self.stats.float_demands += 1
            self.path_flags.add("float-demand:" + "<".join(names[:3]))

    # ------------------------------------------------------------------ stubs

    def sqrt_of(self, q):
        self.used_stub = True
        if q.__lt__(0):
            raise ValueError("math domain error (sqrt of negative symbolic)")
        self.n_fresh += 1
        r = z3.Real(f"sx_sqrt_{self.n_fresh}")
        self._add(z3.And(r >= 0, r * r == q.t))
        return self._q.Q._mk(t=r, inexact=q.inexact)

    def exp_of(self, q):
        self.used_stub = True
        a = q.term()
        y = self._exp(a)
        self._add(z3.And(self._log(y) == a, y > 0))
        return self._q.Q._mk(t=y, inexact=True)

    def log_of(self, q):
        self.used_stub = True
        if q.__le__(0):
            raise ValueError("math domain error (log of non-positive symbolic)")
        b = q.term()
        y = self._log(b)
        self._add(self._exp(y) == b)
        if q.c is not None:
            if q.c == 1:
                self._add(y == 0)
            elif q.c > 1:
                self._add(y > 0)
            else:
                self._add(y < 0)
        return self._q.Q._mk(t=y, inexact=True)

    def log10_of(self, q):
        raise Concretized("log10 of a symbolic value (use the qto math shim)")

    # ------------------------------------------------------------------ obligations

    def prove(self, cond, label, key=None):
        """obligation: cond holds for every input on this path"""
        e = z3.simplify(self._q._b(cond))
        self.proved.append((label, e))
        if z3.is_true(e):
            self.stats.discharged += 1
            return True
        r = self._check(z3.Not(e), *self._exclusions())
        if r == z3.unsat:
            # reachability witness: the path itself must be satisfiable, otherwise the
            # obligation was discharged vacuously
            self._ensure_model()
            self.stats.discharged += 1
            if self.cross_check > 0:
                self.cross_check -= 1
                self._cross_check(z3.Not(e), label)
            if len(self.samples) < 6:
                self.samples.append({"label": label, "obligation": e.sexpr()[:400], "path_decisions": len(self.decisions)})
            return True
        if r == z3.sat:
            self.stats.sat += 1
            self.violations.append(
                {
                    "label": label,
                    "key": key,
                    "model": self._model_dict(self._last_model),
                    "obligation": e.sexpr()[:600],
                }
            )
            raise StopPath("counterexample")
        self.stats.unknown += 1
        self.inconclusive.append({"label": label, "why": "solver unknown", "obligation": e.sexpr()[:300]})
        return False

    def _cross_check(self, negated, label):
        """re-decide an unsat query with cvc5; a 'sat' from cvc5 is a disagreement"""
        try:
            import cvc5
        except ImportError:
            return
        q = z3.Solver()
        q.add(self.solver.assertions())
        q.add(negated, *self._exclusions())
        text = q.to_smt2()
        try:
            slv = cvc5.Solver()
            slv.setOption("tlimit-per", "4000")
            slv.setLogic("ALL")
            ip = cvc5.InputParser(slv)
            ip.setStringInput(cvc5.InputLanguage.SMT_LIB_2_6, text, "q")
            sm = ip.getSymbolManager()
            res = ""
            while True:
                cmd = ip.nextCommand()
                if cmd.isNull():
                    break
                out = str(cmd.invoke(slv, sm)).strip()
                if out:
                    res = out
        except Exception as ex:  # noqa: BLE001 - an encoding cvc5 does not read counts as unknown
            res = "error:" + type(ex).__name__
        if res == "unsat":
            self.stats.xcheck_agree += 1
        elif res == "sat":
            self.stats.xcheck_disagree += 1
            self.inconclusive.append({"label": label, "why": "second solver (cvc5) reports sat where z3 reports unsat", "obligation": negated.sexpr()[:300]})
        else:
            self.stats.xcheck_unknown += 1

    def _exclusions(self):
        out = []
        for ex in self.excluded:
            try:
                out.append(z3.Not(eval(ex, {"And": z3.And, "Or": z3.Or, "Not": z3.Not, "__builtins__": {}}, dict(self.vars))))  # noqa: S307
            except NameError:
                pass
        return out

    def fail(self, label, key=None, detail="", stop=True):
        """the harness reached a state that the property forbids on this whole path.
        stop=False records the violation and lets the path continue (used for defects listed
        in known_findings.json, so that the rest of the path is still checked)"""
        if not stop:
            self.violations.append({"label": label, "key": key, "model": self._model_dict(self._ensure_model()), "obligation": "false", "detail": detail})
            self.stats.sat += 1
            return
        ex = self._exclusions()
        if ex:
            r = self._check(*ex)
            if r == z3.unsat:
                raise StopPath("only the known region reaches this point")
            if r == z3.sat:
                self.violations.append({"label": label, "key": key, "model": self._model_dict(self._last_model), "obligation": "false", "detail": detail})
                self.stats.sat += 1
                raise StopPath("counterexample")
        self.violations.append(
            {"label": label, "key": key, "model": self._model_dict(self._ensure_model()), "obligation": "false", "detail": detail}
        )
        self.stats.sat += 1
        raise StopPath("counterexample")

    def observe(self, label, value):
        """record a value for differential validation against the concrete run"""
        self.observed.append((label, value))

    def note(self, s):
        self.notes.append(s)

    def _model_dict(self, m):
        out = {}
        for name, v in self.vars.items():
            val = m.eval(v, model_completion=True)
            if z3.is_bool(v):
                out[name] = bool(z3.is_true(val))
            else:
                fr = frac_of(val)
                out[name] = [fr.numerator, fr.denominator]
        for name, idx in self.choices.items():
            out["choice:" + name] = idx
        return out

    # ------------------------------------------------------------------ exploration

    def explore(self, func, kwargs=None, validate=None):
        """Run ``func(self, **kwargs)`` over all paths.  Returns a summary dict."""
        global CURRENT
        kwargs = kwargs or {}
        t_start = time.perf_counter()
        stack = [[]]
        summary = {"unexpected": [], "aborted": []}
        unstub = self._install_hash_stub()
        try:
            return self._explore_loop(func, kwargs, validate, stack, summary, t_start)
        finally:
            unstub()

    def _install_hash_stub(self):
        """const/mixed hash modes: containers hash over their key set only.  A coarser but
        valid hash (equal containers have equal key sets), so dict/set semantics and the
        hash shortcut in UnitsContainer.__eq__ are preserved while exponents stay symbolic.
        Without it an int exponent and an equal symbolic exponent would hash differently."""
        if self.hash_mode == "realize":
            return lambda: None
        from pint.util import ParserHelper, UnitsContainer

        def clear_lru():
            # memoised ParserHelpers carry a cached _hash of whichever function was active
            ParserHelper.from_string.__func__.cache_clear()

        clear_lru()

        orig = UnitsContainer.__hash__

        def keys_hash(uc):
            if uc._hash is None:
                uc._hash = hash(frozenset(uc._d))
            return uc._hash

        UnitsContainer.__hash__ = keys_hash
        self.stubs_used = getattr(self, "stubs_used", []) + ["UnitsContainer.__hash__ -> hash of the key set (hash_mode=%s)" % self.hash_mode]

        def undo():
            UnitsContainer.__hash__ = orig
            clear_lru()

        return undo

    def _explore_loop(self, func, kwargs, validate, stack, summary, t_start):
        global CURRENT
        while stack:
            if self.stats.paths >= self.max_paths or time.perf_counter() - t_start > self.max_wall_s:
                self.inconclusive.append({"label": "budget", "why": f"path/wall budget exhausted with {len(stack)} prefixes pending"})
                break
            prefix = stack.pop()
            self._reset_path(prefix)
            self._q.PLACEHOLDERS.reset_path()
            self.solver.push()
            for kind, data, outcome in (d[:3] for d in prefix):
                if kind == "B":
                    self.solver.add(data if outcome else z3.Not(data))
                elif kind == "R":
                    eqc = data[0] == z3.RealVal(f"{data[1].numerator}/{data[1].denominator}")
                    self.solver.add(eqc if outcome else z3.Not(eqc))
            CURRENT = self
            self.stats.paths += 1
            status = "ok"
            exc_name = None
            n_viol_before = len(self.violations)
            try:
                for cb in self.on_path_start:
                    cb()
                func(self, **kwargs)
            except StopPath:
                status = "stopped"
            except Infeasible:
                status = "infeasible"
                self.stats.infeasible += 1
            except Concretized as e:
                status = "concretized"
                self.stats.concretized += 1
                self.inconclusive.append({"label": "concretized", "why": str(e)[:300]})
            except BudgetExceeded as e:
                status = "budget"
                self.inconclusive.append({"label": "budget", "why": str(e)})
            except SolverUnknown as e:
                status = "unknown"
                self.inconclusive.append({"label": "unknown", "why": str(e)})
            except HarnessError:
                CURRENT = None
                self.solver.pop()
                raise
            except Vacuous:
                status = "infeasible"
            except Exception as e:  # noqa: BLE001 - an exception the harness did not expect
                import traceback

                status = "exception"
                exc_name = type(e).__name__
                try:
                    tb = traceback.format_exc(limit=-6)
                except Exception:  # noqa: BLE001 - str(e) itself may raise (pint formats units lazily)
                    tb = "<traceback unavailable: formatting the exception raised>"
                try:
                    md = self._model_dict(self._ensure_model())
                except PathAbort:
                    md = None
                if md is not None:
                    self.violations.append(
                        {
                            "label": f"unexpected-exception:{exc_name}",
                            "key": None,
                            "model": md,
                            "obligation": "no exception",
                            "detail": (_safe_str(e)[:300] + "\n" + tb[-1500:]),
                        }
                    )
                    self.stats.sat += 1
            finally:
                CURRENT = None
            if "unknown-sibling" in self.path_flags:
                self.inconclusive.append({"label": "unknown", "why": "sibling feasibility unknown"})
            for fl in self.path_flags:
                if fl.startswith("float-demand"):
                    self.inconclusive.append({"label": "float-demand", "why": fl})
            # schedule siblings of the decisions made fresh on this path
            base = [d[:3] for d in prefix]
            for i in range(len(self.fresh) - 1, -1, -1):
                kind, data, outcome, sib = self.fresh[i]
                if not sib:
                    continue
                head = base + [d[:3] for d in self.fresh[:i]]
                if kind == "C":
                    for k in reversed(sib):
                        stack.append(head + [["C", data, k]])
                else:
                    stack.append(head + [[kind, data, not outcome]])
            # record the path for differential validation
            rec = None
            if validate is not None and status in ("ok", "exception") and not self.used_stub:
                if validate(self.stats.paths):
                    try:
                        CURRENT = self
                        m = self._ensure_model()
                        rec = {
                            "model": self._model_dict(m),
                            "proved": [(lab, _eval_bool(m, e)) for lab, e in self.proved],
                            "observed": [(lab, _eval_obs(m, v, self._q)) for lab, v in self.observed],
                            "exc": exc_name,
                            "status": status,
                        }
                    except PathAbort:
                        rec = None
                    finally:
                        CURRENT = None
            if rec is not None:
                self.path_records.append(rec)
            for v in self.violations[n_viol_before:]:
                v["path_index"] = self.stats.paths
            self.solver.pop()
        summary["wall_s"] = time.perf_counter() - t_start
        return summary


def _safe_str(e):
    try:
        return str(e)
    except Exception as e2:  # noqa: BLE001
        return f"<{type(e).__name__}: str() raised {type(e2).__name__}>"


def _eval_bool(m, e):
    v = m.eval(e, model_completion=True)
    if z3.is_true(v):
        return True
    if z3.is_false(v):
        return False
    return None


def _eval_obs(m, v, qmod):
    if isinstance(v, qmod.Q):
        if v.c is not None:
            return [v.c.numerator, v.c.denominator]
        try:
            fr = frac_of(m.eval(v.t, model_completion=True))
        except ValueError:
            return None
        return [fr.numerator, fr.denominator]
    if isinstance(v, qmod.SymBool):
        return _eval_bool(m, v.e)
    if isinstance(v, (int, Fraction)):
        fr = Fraction(v)
        return [fr.numerator, fr.denominator]
    return repr(v)


def _lit_of_fraction(fr: Fraction, paren=True) -> str:
    """a text literal pint's tokenizer reads back as exactly this number"""
    if not paren:
        return str(fr.numerator) if fr.denominator == 1 else f"{fr.numerator}/{fr.denominator}"
    if fr.denominator == 1:
        return str(fr.numerator) if fr >= 0 else f"(-{-fr.numerator})"
    d = fr.denominator
    # finite decimal?
    dd = d
    for p in (2, 5):
        while dd % p == 0:
            dd //= p
    if dd == 1 and len(str(d)) < 15:
        from decimal import Decimal, getcontext

        getcontext().prec = 60
        s = format(Decimal(fr.numerator) / Decimal(d), "f")
        return s if fr >= 0 else f"({s})"
    return f"({fr.numerator}/{fr.denominator})"


class ConcEngine:
    """Same API on plain Fractions.  ``model`` maps variable names to [num, den] / bool /
    choice indices, as produced by SymEngine._model_dict."""

    symbolic = False

    def __init__(self, model, ntype=Fraction):
        self.model_in = model
        self.ntype = ntype
        self.proved = []
        self.observed = []
        self.failed = []
        self.notes = []

    def _get(self, name):
        if name not in self.model_in:
            raise Vacuous(f"model has no value for {name}")
        return self.model_in[name]

    def real(self, name):
        n, d = self._get(name)
        return self.ntype(Fraction(n, d)) if self.ntype is not Fraction else Fraction(n, d)

    def integer(self, name, lo, hi):
        n, d = self._get(name)
        assert d == 1
        return int(n)

    def halfint(self, name, lo2, hi2):
        n, d = self._get(name)
        assert d == 1
        v = Fraction(n, 2)
        return int(v) if v.denominator == 1 else v

    def boolean(self, name):
        return bool(self._get(name))

    def num(self, value):
        return self.ntype(value)

    def choice(self, name, options):
        return list(options)[self._get("choice:" + name)]

    def lit(self, x, paren=True):
        return _lit_of_fraction(Fraction(x), paren)

    def assume(self, cond):
        if not cond:
            raise Vacuous("assumption false under the model")

    def prove(self, cond, label, key=None):
        ok = bool(cond)
        self.proved.append((label, ok))
        if not ok:
            self.failed.append({"label": label, "key": key})
            raise StopPath("concrete violation")
        return True

    def fail(self, label, key=None, detail="", stop=True):
        self.failed.append({"label": label, "key": key, "detail": detail})
        if stop:
            self.proved.append((label, False))
            raise StopPath("concrete violation")

    def observe(self, label, value):
        self.observed.append((label, value))

    def note(self, s):
        self.notes.append(s)

    def run(self, func, kwargs=None):
        """returns (status, exception name)"""
        try:
            func(self, **(kwargs or {}))
            return "ok", None
        except StopPath:
            return "stopped", None
        except Vacuous as e:
            return "vacuous", str(e)
        except PathAbort as e:
            return "abort", type(e).__name__
        except Exception as e:  # noqa: BLE001
            import traceback

            try:
                self.exc_detail = traceback.format_exc(limit=-5)
            except Exception:  # noqa: BLE001
                self.exc_detail = "<traceback unavailable>"
            return "exception", type(e).__name__
