"""Environment stubs (DESIGN.md 3.1.7).  Each is part of the claim and is listed in evidence."""

from __future__ import annotations

import contextlib
import math as _math
from fractions import Fraction

import z3

from . import engine as _eng
from .q import Q, SymBool, _wrapb


class MathShim:
    """stands in for the ``math`` module inside pint.facets.plain.qto.

    log10 of a symbolic value v > 0 returns a fresh real L with an ideal contract:
    there is an integer K in [LO, HI) with  K <= L < K+1,  10^K <= v < 10^(K+1),
    and L = K exactly when v = 10^K.  floor/ceil go through ToInt.  isnan/isinf are
    False on Q (rationals).  Everything concrete defers to the real math module."""

    LO, HI = -36, 36

    def __getattr__(self, name):
        return getattr(_math, name)

    def isnan(self, x):
        if isinstance(x, Q):
            return False
        return _math.isnan(x)

    def isinf(self, x):
        if isinstance(x, Q):
            return False
        return _math.isinf(x)

    def floor(self, x):
        if isinstance(x, Q):
            return x.__floor__()
        return _math.floor(x)

    def ceil(self, x):
        if isinstance(x, Q):
            return x.__ceil__()
        return _math.ceil(x)

    def log10(self, x):
        if not isinstance(x, Q):
            return _math.log10(x)
        if x.c is not None:
            # exact for powers of ten (what a correctly rounded log10 returns), float otherwise
            if x.c <= 0:
                raise ValueError("math domain error")
            k = _exact_log10(x.c)
            if k is not None:
                return float(k)
            return _math.log10(x.c)
        eng = _eng.CURRENT
        eng.used_stub = True
        if bool(x <= 0):
            raise ValueError("math domain error")
        eng.n_fresh += 1
        L = z3.Real(f"sx_log10_{eng.n_fresh}")
        K = z3.Int(f"sx_log10k_{eng.n_fresh}")
        v = x.t
        cases = []
        for k in range(self.LO, self.HI):
            lo = Fraction(10) ** k
            hi = lo * 10
            cases.append(
                z3.And(
                    K == k,
                    v >= z3.RealVal(f"{lo.numerator}/{lo.denominator}"),
                    v < z3.RealVal(f"{hi.numerator}/{hi.denominator}"),
                    (L == k) == (v == z3.RealVal(f"{lo.numerator}/{lo.denominator}")),
                )
            )
        eng._add(z3.And(z3.Or(*cases), L >= z3.ToReal(K), L < z3.ToReal(K) + 1))
        if eng._check() != z3.sat:
            raise _eng.Infeasible("log10 argument outside the modelled decades")
        return Q._mk(t=L, inexact=True)


def _exact_log10(fr: Fraction):
    k = 0
    one = Fraction(1)
    x = fr
    if x >= 1:
        while x >= 10 and x.denominator == 1 and x % 10 == 0:
            x /= 10
            k += 1
        return k if x == one else None
    while x < 1:
        x *= 10
        k -= 1
        if k < -400:
            return None
    return k if x == one else None


@contextlib.contextmanager
def qto_math_shim():
    import pint.facets.plain.qto as qto

    orig = qto.math
    qto.math = MathShim()
    try:
        yield
    finally:
        qto.math = orig


class SymUFloat:
    """Affine model of uncertainties.UFloat for symbolic runs (DESIGN.md 3.1.7).

    A value with ``nominal_value`` n and ``std_dev`` s >= 0.  Affine maps a*u + b give
    (a*n + b, |a|*s); sums/differences/products of *independent* values combine the standard
    deviations to first order (the square root is the engine's sqrt stub).  Nothing else of
    the uncertainties package is modelled (no correlations, no formatting)."""

    __slots__ = ("nominal_value", "std_dev")

    def __init__(self, nominal_value, std_dev):
        self.nominal_value = nominal_value
        self.std_dev = std_dev

    n = property(lambda self: self.nominal_value)
    s = property(lambda self: self.std_dev)

    @staticmethod
    def _indep(v):
        eng = _eng.CURRENT
        q = v if isinstance(v, Q) else Q(v)
        if q.c is not None:
            import fractions

            r = _exact_sqrt(q.c)
            if r is not None:
                return Q(r)
        return eng.sqrt_of(q)

    def __add__(self, o):
        if hasattr(o, "_units"):
            return NotImplemented
        if isinstance(o, SymUFloat):
            return SymUFloat(self.n + o.n, self._indep(self.s * self.s + o.s * o.s))
        return SymUFloat(self.n + o, self.s)

    __radd__ = __add__

    def __neg__(self):
        return SymUFloat(-self.n, self.s)

    def __sub__(self, o):
        if hasattr(o, "_units"):
            return NotImplemented
        if isinstance(o, SymUFloat):
            return SymUFloat(self.n - o.n, self._indep(self.s * self.s + o.s * o.s))
        return SymUFloat(self.n - o, self.s)

    def __rsub__(self, o):
        if hasattr(o, "_units"):
            return NotImplemented
        return SymUFloat(o - self.n, self.s)

    def __mul__(self, o):
        if hasattr(o, "_units"):
            return NotImplemented
        if isinstance(o, SymUFloat):
            return SymUFloat(self.n * o.n, self._indep((o.n * self.s) ** 2 + (self.n * o.s) ** 2))
        return SymUFloat(self.n * o, abs(o) * self.s)

    __rmul__ = __mul__

    def __truediv__(self, o):
        if hasattr(o, "_units"):
            return NotImplemented
        if isinstance(o, SymUFloat):
            raise _eng.Concretized("quotient of two uncertain values is outside the affine model")
        return SymUFloat(self.n / o, self.s / abs(o))

    def __pos__(self):
        return self

    def __pow__(self, k):
        # first-order propagation through an integer power: n**k, |k * n**(k-1)| * s
        kk = k.c if hasattr(k, "c") and getattr(k, "c", None) is not None else k
        try:
            ki = int(kk)
        except Exception:  # noqa: BLE001
            ki = None
        if ki is None or ki != kk or ki < 0:
            raise _eng.Concretized("only non-negative integer powers of an uncertain value are inside the affine model")
        if ki == 0:
            return SymUFloat(self.n**0, self.s * 0)
        return SymUFloat(self.n**ki, abs(ki * self.n ** (ki - 1)) * self.s)

    def __abs__(self):
        return SymUFloat(abs(self.n), self.s)

    def __eq__(self, o):
        if isinstance(o, SymUFloat):
            return (self.n == o.n) & (self.s == o.s) if not isinstance(self.n == o.n, bool) or not isinstance(self.s == o.s, bool) else (self.n == o.n and self.s == o.s)
        a, b = self.n == o, self.s == 0
        if isinstance(a, bool) and isinstance(b, bool):
            return a and b
        from .q import And

        return And(a, b)

    __hash__ = None

    def __copy__(self):
        return SymUFloat(self.n, self.s)

    def __deepcopy__(self, memo):
        return SymUFloat(self.n, self.s)

    def __repr__(self):
        return f"SymUFloat({self.n!r}, {self.s!r})"


def _exact_sqrt(fr):
    from fractions import Fraction
    from math import isqrt

    if fr < 0:
        return None
    a, b = isqrt(fr.numerator), isqrt(fr.denominator)
    if a * a == fr.numerator and b * b == fr.denominator:
        return Fraction(a, b)
    return None


@contextlib.contextmanager
def ufloat_stub():
    """replace ufloat by the affine model where pint constructs uncertain values"""
    import pint.compat as compat
    import pint.facets.measurement.objects as mobj
    import pint.pint_eval as pe

    saved = (compat.ufloat, mobj.ufloat, pe._ufloat, pe._BINARY_OPERATOR_MAP["+/-"])
    compat.ufloat = mobj.ufloat = pe._ufloat = SymUFloat
    pe._BINARY_OPERATOR_MAP["+/-"] = SymUFloat
    try:
        yield
    finally:
        compat.ufloat, mobj.ufloat, pe._ufloat, pe._BINARY_OPERATOR_MAP["+/-"] = saved
