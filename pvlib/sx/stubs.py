"""Environment stubs (DESIGN.md 3.1.7).  Each is part of the claim and is listed in evidence."""

from __future__ import annotations

import contextlib
import math as _math
from fractions import Fraction

import z3

from . import engine as _eng
from .q import Q, SymBool, _wrapb


class MathShim:
    """stands in for the ``math`` module inside pint.facets.plain.qto.

    log10 of a symbolic value v > 0 returns a fresh real L with an ideal contract:
    there is an integer K in [LO, HI) with  K <= L < K+1,  10^K <= v < 10^(K+1),
    and L = K exactly when v = 10^K.  floor/ceil go through ToInt.  isnan/isinf are
    False on Q (rationals).  Everything concrete defers to the real math module."""

    LO, HI = -36, 36

    def __getattr__(self, name):
        return getattr(_math, name)

    def isnan(self, x):
        if isinstance(x, Q):
            return False
        return _math.isnan(x)

    def isinf(self, x):
        if isinstance(x, Q):
            return False
        return _math.isinf(x)

    def floor(self, x):
        if isinstance(x, Q):
            return x.__floor__()
        return _math.floor(x)

    def ceil(self, x):
        if isinstance(x, Q):
            return x.__ceil__()
        return _math.ceil(x)

    def log10(self, x):
        if not isinstance(x, Q):
            return _math.log10(x)
        if x.c is not None:
            # exact for powers of ten (what a correctly rounded log10 returns), float otherwise
            if x.c <= 0:
                raise ValueError("math domain error")
            k = _exact_log10(x.c)
            if k is not None:
                return float(k)
            return _math.log10(x.c)
        eng = _eng.CURRENT
        eng.used_stub = True
        if bool(x <= 0):
            raise ValueError("math domain error")
        eng.n_fresh += 1
        L = z3.Real(f"sx_log10_{eng.n_fresh}")
        K = z3.Int(f"sx_log10k_{eng.n_fresh}")
        v = x.t
        cases = []
        for k in range(self.LO, self.HI):
            lo = Fraction(10) ** k
            hi = lo * 10
            cases.append(
                z3.And(
                    K == k,
                    v >= z3.RealVal(f"{lo.numerator}/{lo.denominator}"),
                    v < z3.RealVal(f"{hi.numerator}/{hi.denominator}"),
                    (L == k) == (v == z3.RealVal(f"{lo.numerator}/{lo.denominator}")),
                )
            )
        eng._add(z3.And(z3.Or(*cases), L >= z3.ToReal(K), L < z3.ToReal(K) + 1))
        if eng._check() != z3.sat:
            raise _eng.Infeasible("log10 argument outside the modelled decades")
        return Q._mk(t=L, inexact=True)


def _exact_log10(fr: Fraction):
    k = 0
    one = Fraction(1)
    x = fr
    if x >= 1:
        while x >= 10 and x.denominator == 1 and x % 10 == 0:
            x /= 10
            k += 1
        return k if x == one else None
    while x < 1:
        x *= 10
        k -= 1
        if k < -400:
            return None
    return k if x == one else None


@contextlib.contextmanager
def qto_math_shim():
    import pint.facets.plain.qto as qto

    orig = qto.math
    qto.math = MathShim()
    try:
        yield
    finally:
        qto.math = orig
