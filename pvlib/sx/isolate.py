"""State isolation per explored path (DESIGN.md 3.1.6).

pint memoises heavily (five RegistryCache dicts and their per-context overlays, the lazily
growing unit table, base-unit cache, group/system member caches, Context.checked
normalisation ...).  A symbolic value cached on one path must not be seen by the next, and
the sequence of decisions on a path must depend only on earlier decisions of that path.

``Snapshot(ureg)`` walks the registry object graph once (pint-defined objects only, frozen
definition dataclasses are leaves), remembers every mutable container it finds together
with a shallow copy of its content, plus every scalar attribute of the mutable pint objects.
``restore()`` puts the *same* container objects back to the remembered content, so aliasing
between e.g. a ContextCacheOverlay and the base cache is preserved.
"""

from __future__ import annotations

import dataclasses
import weakref
from collections import ChainMap, defaultdict, deque


_LEAF_TYPES = (str, bytes, int, float, bool, type(None), tuple, frozenset, type)


def _is_pint_obj(o):
    m = getattr(type(o), "__module__", "") or ""
    return m.startswith("pint") and not isinstance(o, type)


def _frozen(o):
    return dataclasses.is_dataclass(o) and getattr(type(o), "__dataclass_params__").frozen


class Snapshot:
    def __init__(self, root, max_objects=200000):
        self.root = root
        self.containers = []  # (obj, kind, copy)
        self.attrs = []  # (obj, {name: value}) for mutable pint objects
        self._seen = set()
        todo = deque([root])
        n = 0
        while todo:
            o = todo.popleft()
            if id(o) in self._seen:
                continue
            self._seen.add(id(o))
            n += 1
            if n > max_objects:
                raise RuntimeError("snapshot walk exploded")
            if isinstance(o, _LEAF_TYPES):
                continue
            if isinstance(o, ChainMap):
                self.containers.append((o.maps, "list", list(o.maps)))
                for m in o.maps:
                    todo.append(m)
                self._walk_attrs(o, todo)
                continue
            if isinstance(o, weakref.WeakValueDictionary):
                self.containers.append((o, "dict", dict(o)))
                continue
            if isinstance(o, dict):
                self.containers.append((o, "dict", dict(o)))
                for v in o.values():
                    if not isinstance(v, _LEAF_TYPES):
                        todo.append(v)
                continue
            if isinstance(o, list):
                self.containers.append((o, "list", list(o)))
                for v in o:
                    if not isinstance(v, _LEAF_TYPES):
                        todo.append(v)
                continue
            if isinstance(o, set):
                self.containers.append((o, "set", set(o)))
                continue
            if _is_pint_obj(o):
                if _frozen(o):
                    continue
                tn = type(o).__name__
                if tn in ("UnitsContainer", "ParserHelper") or tn.endswith("Quantity") or tn.endswith("Unit"):
                    continue
                self._walk_attrs(o, todo)

    def _walk_attrs(self, o, todo):
        d = getattr(o, "__dict__", None)
        if d is None:
            return
        self.attrs.append((o, dict(d)))
        for v in d.values():
            if not isinstance(v, _LEAF_TYPES) and not callable(v):
                todo.append(v)
            elif isinstance(v, (dict, list, set)):
                todo.append(v)

    def restore(self):
        for o, saved in self.attrs:
            d = o.__dict__
            if d.keys() != saved.keys() or any(d[k] is not saved[k] for k in saved):
                d.clear()
                d.update(saved)
        for o, kind, copy in self.containers:
            if kind == "dict":
                # identity comparison in insertion order: never calls __eq__/__hash__ of
                # keys (a polluted key may hold a symbolic exponent)
                if len(o) != len(copy) or any(
                    (ka is not kb) or (va is not vb)
                    for (ka, va), (kb, vb) in zip(list(o.items()), copy.items())
                ):
                    o.clear()
                    o.update(copy)
            elif kind == "list":
                if len(o) != len(copy) or any(a is not b for a, b in zip(o, copy)):
                    o[:] = copy
            else:
                if len(o) != len(copy) or any(x not in copy for x in o):
                    o.clear()
                    o.update(copy)

    def dirty(self):
        """names of what differs from the snapshot (diagnostics)"""
        out = []
        for o, saved in self.attrs:
            d = o.__dict__
            for k in set(d) | set(saved):
                if d.get(k, "<missing>") is not saved.get(k, "<missing>"):
                    out.append(f"{type(o).__name__}.{k}")
        for o, kind, copy in self.containers:
            if kind == "dict" and (len(o) != len(copy)):
                out.append(f"dict#{id(o):x} {len(copy)}->{len(o)}")
        return out
