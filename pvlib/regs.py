"""Registries for harnesses: the default registry (built once per process and numeric type,
restored to its pristine state at every use) and generated registries (rebuilt per path)."""

from __future__ import annotations

import logging
from fractions import Fraction

import pint

from .sx.isolate import Snapshot

assert pint.__file__.startswith("/repo/"), f"pint is not the code under test: {pint.__file__}"

logging.getLogger("pint").setLevel(logging.CRITICAL)
logging.getLogger("pint.util").setLevel(logging.CRITICAL)

_DEFAULT = {}


def _clear_process_caches():
    from pint.util import ParserHelper

    ParserHelper.from_string.__func__.cache_clear() if hasattr(ParserHelper.from_string, "__func__") else None


def default(eng, **opts):
    """the bundled registry at the engine's numeric type, restored to pristine state"""
    # one instance per hash function in force (see SymEngine._install_hash_stub): cached
    # container hashes must never be mixed between the two
    key = (eng.ntype, tuple(sorted(opts.items())), getattr(eng, "hash_mode", "realize") != "realize")
    ent = _DEFAULT.get(key)
    if ent is None:
        ureg = pint.UnitRegistry(non_int_type=eng.ntype, **opts)
        ent = (ureg, Snapshot(ureg))
        _DEFAULT[key] = ent
    ureg, snap = ent
    snap.restore()
    return ureg


def build(eng, lines, **opts):
    """a fresh registry from definition text (list of lines or one string)"""
    if isinstance(lines, str):
        lines = lines.splitlines()
    opts.setdefault("on_redefinition", "raise")
    return pint.UnitRegistry(list(lines), non_int_type=eng.ntype, **opts)


def fraction_default(**opts):
    class _E:
        ntype = Fraction

    return default(_E, **opts)


def float_default(**opts):
    class _E:
        ntype = float

    return default(_E, **opts)
