"""Layout recognisers for pint's unit formats, written from the format descriptions
(docs/user/formatting.rst and the docstrings), not from pint's code.

``recognise(fmt, text)`` returns a list of terms ``(display_name, position, exponent_text)``
with position 'num' or 'den' and exponent_text None when no exponent is shown, plus a dict
of structural facts (e.g. whether several denominator terms were parenthesised)."""

from __future__ import annotations

import re

SUP = str.maketrans("⁰¹²³⁴⁵⁶⁷⁸⁹⁻", "0123456789-")


class LayoutError(ValueError):
    pass


def _term(t, power_sep):
    t = t.strip()
    if power_sep in t:
        name, exp = t.split(power_sep, 1)
        return name.strip(), exp.strip()
    return t, None


def rec_default(text):
    """D:  a * b ** 2 / c / d ** 3     (numerator '1' when empty)"""
    parts = text.split(" / ")
    terms = []
    num = parts[0]
    if num != "1":
        for t in num.split(" * "):
            terms.append(_term(t, " ** ")[:1] + ("num",) + _term(t, " ** ")[1:])
    for d in parts[1:]:
        if " * " in d:
            raise LayoutError("product inside a denominator term of the default format")
        n, e = _term(d, " ** ")
        terms.append((n, "den", e))
    return terms, {}


_C_SPLIT = re.compile(r"(?<!\*)\*(?!\*)")


def rec_compact(text):
    """C:  a*b**2/c/d**3"""
    parts = text.split("/")
    terms = []
    if parts[0] != "1":
        for t in _C_SPLIT.split(parts[0]):
            n, e = _term(t, "**")
            terms.append((n, "num", e))
    for d in parts[1:]:
        if _C_SPLIT.search(d):
            raise LayoutError("product inside a denominator term of the compact format")
        n, e = _term(d, "**")
        terms.append((n, "den", e))
    return terms, {}


_P_TERM = re.compile(r"^(.*?)([⁰¹²³⁴⁵⁶⁷⁸⁹⁻⋅]*)$")


def rec_pretty(text):
    """P:  a·b²/c/d³"""
    parts = text.split("/")
    terms = []

    def one(t, pos):
        m = _P_TERM.match(t)
        name, sup = m.group(1), m.group(2)
        return (name, pos, sup.translate(SUP).replace("⋅", ".") if sup else None)

    if parts[0] != "1":
        for t in parts[0].split("·"):
            terms.append(one(t, "num"))
    for d in parts[1:]:
        if "·" in d:
            raise LayoutError("product inside a denominator term of the pretty format")
        terms.append(one(d, "den"))
    return terms, {}


_H_TERM = re.compile(r"^(.*?)(?:<sup>(.*?)</sup>)?$")


def rec_html(text):
    """H:  a b<sup>2</sup>/(c d<sup>3</sup>)   -- one denominator group, parenthesised when > 1 term"""
    parts = re.split(r"(?<!<)/", text)
    if len(parts) > 2:
        raise LayoutError("more than one division in the HTML format")
    num = parts[0]
    den = parts[1] if len(parts) == 2 else ""
    terms = []
    facts = {"den_parenthesised": False}

    def one(t, pos):
        m = _H_TERM.match(t)
        return (m.group(1), pos, m.group(2))

    if num != "1":
        for t in num.split(" "):
            terms.append(one(t, "num"))
    if den:
        if den.startswith("(") and den.endswith(")"):
            facts["den_parenthesised"] = True
            den = den[1:-1]
        dts = den.split(" ")
        if len(dts) > 1 and not facts["den_parenthesised"]:
            raise LayoutError("several denominator terms without parentheses in the HTML format")
        for t in dts:
            terms.append(one(t, "den"))
    return terms, facts


_L_TERM = re.compile(r"^\\mathrm\{(.*?)\}(?:\^\{(.*?)\})?$")


def _latex_product(s, pos):
    out = []
    for t in s.split(r" \cdot "):
        m = _L_TERM.match(t.strip())
        if not m:
            raise LayoutError(f"not a LaTeX unit term: {t!r}")
        if re.search(r"(?<!\\)[_%&#$]", m.group(1)):
            raise LayoutError(f"LaTeX special character not escaped in {t!r}")
        name = m.group(1).replace("\\_", "_").replace("\\%", "%")
        out.append((name, pos, m.group(2)))
    return out


def rec_latex(text):
    r"""L:  \frac{\mathrm{a} \cdot \mathrm{b}^{2}}{\mathrm{c}}   or a bare numerator product;
    several denominator terms are wrapped in \left( \right)"""
    facts = {"den_parenthesised": False}
    if text.startswith(r"\frac{"):
        # split the two top-level brace groups
        depth = 0
        groups = []
        cur = ""
        for ch in text[len(r"\frac") :]:
            if ch == "{":
                depth += 1
                if depth == 1:
                    cur = ""
                    continue
            if ch == "}":
                depth -= 1
                if depth == 0:
                    groups.append(cur)
                    continue
            cur += ch
        if len(groups) != 2 or depth != 0:
            raise LayoutError("malformed \\frac")
        num, den = groups
        terms = [] if num == "1" else _latex_product(num, "num")
        if den.startswith(r"\left(") and den.endswith(r"\right)"):
            facts["den_parenthesised"] = True
            den = den[len(r"\left(") : -len(r"\right)")]
        dts = _latex_product(den, "den")
        if len(dts) > 1 and not facts["den_parenthesised"]:
            raise LayoutError("several denominator terms without parentheses in the LaTeX format")
        return terms + dts, facts
    return _latex_product(text, "num"), facts


_SI = re.compile(r"\\(per)(?![A-Za-z_])|\\(squared|cubed)(?![A-Za-z_])|\\tothe\{(.*?)\}|\\([A-Za-z_]+|%)")


def rec_siunitx(text, prefixes):
    r"""Lx:  \si[]{\kilo\meter\squared\per\second\tothe{3}}"""
    if not (text.startswith(r"\si[]{") and text.endswith("}")):
        raise LayoutError("not an \\si[]{...} expression")
    body = text[len(r"\si[]{") : -1]
    terms = []
    pos = "num"
    pending_per = False
    cur = None
    pre = ""
    i = 0
    for m in _SI.finditer(body):
        if m.start() != i:
            raise LayoutError(f"unrecognised siunitx text at {i}: {body[i:m.start()]!r}")
        i = m.end()
        if m.group(1):
            pending_per = True
        elif m.group(2):
            if cur is None:
                raise LayoutError("power without a unit")
            terms[-1] = (terms[-1][0], terms[-1][1], {"squared": "2", "cubed": "3"}[m.group(2)])
        elif m.group(3) is not None:
            terms[-1] = (terms[-1][0], terms[-1][1], m.group(3))
        else:
            w = m.group(4)
            if w == "%":
                w = "percent"  # the short siunitx form writes \\% for \\percent
            if w in prefixes and cur != "prefix":
                pre = w
                cur = "prefix"
                continue
            terms.append((pre + w, "den" if pending_per else "num", None))
            pre = ""
            pending_per = False
            cur = "unit"
    if i != len(body):
        raise LayoutError("trailing siunitx text")
    return terms, {}


def recognise(fmt, text, prefixes=()):
    f = fmt.replace("~", "")
    if f in ("", "D"):
        return rec_default(text)
    if f == "C":
        return rec_compact(text)
    if f == "P":
        return rec_pretty(text)
    if f == "H":
        return rec_html(text)
    if f == "L":
        return rec_latex(text)
    if f == "Lx":
        return rec_siunitx(text, prefixes)
    raise KeyError(fmt)
