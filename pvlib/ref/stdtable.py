"""Independent table of internationally standardised values (DESIGN.md C20).

Written from the primary sources -- SI Brochure 9th ed. (2019); the 1959 international yard and
pound agreement (yard = 0.9144 m, pound = 0.45359237 kg); NIST SP 811 / Handbook 44 (US
customary, avoirdupois, troy, apothecary; gallon = 231 in^3, bushel = 2150.42 in^3); UK Weights
and Measures Act 1985 (imperial gallon = 4.54609 L); CGPM/CIPM conventional values (g_n,
atm, K_J-90, R_K-90); CODATA 2022 -- never generated from pint.

Entry: (name, value, vector, symbol).  ``value`` is the SI value of one unit as an exact
decimal/rational string (evaluated with Fraction), ``vector`` its SI dimension over
m, kg, s, A, K, mol, cd, rad, bit, count; ``symbol`` the standard symbol or None.
PI is the 50-digit decimal the check uses where the standard value involves pi: such
entries test the structure (factor = rational * pi) and that pint's pi is pi to 50 digits.
"""

from fractions import Fraction as F

PI = "3.1415926535897932384626433832795028841971693993751"

LB = F("0.45359237")
YD = F("0.9144")
FT = YD / 3
IN = YD / 36
GR = F("0.00006479891")  # grain in kg
G0 = F("9.80665")
GAL = 231 * IN**3
IMPGAL = F("0.00454609")
BU = F("2150.42") * IN**3
SFT = F(1200, 3937)

L = {"m": 1}
A2 = {"m": 2}
V3 = {"m": 3}
MASS = {"kg": 1}
T = {"s": 1}
FORCE = {"kg": 1, "m": 1, "s": -2}
ENERGY = {"kg": 1, "m": 2, "s": -2}
POWER = {"kg": 1, "m": 2, "s": -3}
PRESS = {"kg": 1, "m": -1, "s": -2}
NONE = {}


def _p(x):
    return F(x) if not isinstance(x, F) else x


PREFIXES = {
    "quecto": ("1e-30", "q"), "ronto": ("1e-27", "r"), "yocto": ("1e-24", "y"), "zepto": ("1e-21", "z"),
    "atto": ("1e-18", "a"), "femto": ("1e-15", "f"), "pico": ("1e-12", "p"), "nano": ("1e-9", "n"),
    "micro": ("1e-6", "µ"), "milli": ("1e-3", "m"), "centi": ("1e-2", "c"), "deci": ("1e-1", "d"),
    "deca": ("1e1", "da"), "hecto": ("1e2", "h"), "kilo": ("1e3", "k"), "mega": ("1e6", "M"),
    "giga": ("1e9", "G"), "tera": ("1e12", "T"), "peta": ("1e15", "P"), "exa": ("1e18", "E"),
    "zetta": ("1e21", "Z"), "yotta": ("1e24", "Y"), "ronna": ("1e27", "R"), "quetta": ("1e30", "Q"),
    "kibi": (str(2**10), "Ki"), "mebi": (str(2**20), "Mi"), "gibi": (str(2**30), "Gi"), "tebi": (str(2**40), "Ti"),
    "pebi": (str(2**50), "Pi"), "exbi": (str(2**60), "Ei"), "zebi": (str(2**70), "Zi"), "yobi": (str(2**80), "Yi"),
}  # fmt: skip

TABLE = [
    # --- SI base and derived units (SI Brochure tables 2, 4)
    ("meter", 1, L, "m"),
    ("second", 1, T, "s"),
    ("kilogram", 1, MASS, "kg"),
    ("gram", "1e-3", MASS, "g"),
    ("ampere", 1, {"A": 1}, "A"),
    ("kelvin", 1, {"K": 1}, "K"),
    ("mole", 1, {"mol": 1}, "mol"),
    ("candela", 1, {"cd": 1}, "cd"),
    ("radian", 1, {"rad": 1}, "rad"),
    ("steradian", 1, {"rad": 2}, "sr"),
    ("hertz", 1, {"s": -1}, "Hz"),
    ("newton", 1, FORCE, "N"),
    ("pascal", 1, PRESS, "Pa"),
    ("joule", 1, ENERGY, "J"),
    ("watt", 1, POWER, "W"),
    ("coulomb", 1, {"A": 1, "s": 1}, "C"),
    ("volt", 1, {"kg": 1, "m": 2, "s": -3, "A": -1}, "V"),
    ("farad", 1, {"kg": -1, "m": -2, "s": 4, "A": 2}, "F"),
    ("ohm", 1, {"kg": 1, "m": 2, "s": -3, "A": -2}, "Ω"),
    ("siemens", 1, {"kg": -1, "m": -2, "s": 3, "A": 2}, "S"),
    ("weber", 1, {"kg": 1, "m": 2, "s": -2, "A": -1}, "Wb"),
    ("tesla", 1, {"kg": 1, "s": -2, "A": -1}, "T"),
    ("henry", 1, {"kg": 1, "m": 2, "s": -2, "A": -2}, "H"),
    ("lumen", 1, {"cd": 1, "rad": 2}, "lm"),
    ("lux", 1, {"cd": 1, "rad": 2, "m": -2}, "lx"),
    ("becquerel", 1, {"s": -1, "count": 1}, "Bq"),
    ("gray", 1, {"m": 2, "s": -2}, "Gy"),
    ("sievert", 1, {"m": 2, "s": -2}, "Sv"),
    ("katal", 1, {"mol": 1, "s": -1}, "kat"),
    # --- non-SI units accepted for use with the SI (table 8) and time
    ("minute", 60, T, "min"),
    ("hour", 3600, T, "h"),
    ("day", 86400, T, "d"),
    ("week", 604800, T, None),
    ("fortnight", 1209600, T, None),
    ("julian_year", 31557600, T, None),
    ("year", 31557600, T, None),
    ("gregorian_year", "31556952", T, None),
    ("common_year", 31536000, T, None),
    ("leap_year", 31622400, T, None),
    ("century", 3155760000, T, None),
    ("shake", "1e-8", T, None),
    ("astronomical_unit", 149597870700, L, "au"),
    ("hectare", 10000, A2, "ha"),
    ("are", 100, A2, None),
    ("liter", "1e-3", V3, "l"),
    ("tonne", 1000, MASS, "t"),
    ("metric_ton", 1000, MASS, "t"),
    ("electron_volt", "1.602176634e-19", ENERGY, "eV"),
    ("bar", 100000, PRESS, None),
    ("angstrom", "1e-10", L, "Å"),
    ("micron", "1e-6", L, None),
    ("fermi", "1e-15", L, None),
    ("barn", "1e-28", A2, "b"),
    ("nautical_mile", 1852, L, "nmi"),
    ("knot", F(1852, 3600), {"m": 1, "s": -1}, "kt"),
    ("light_year", 299792458 * 31557600, L, "ly"),
    ("carat", "2e-4", MASS, "ct"),
    ("stere", 1, V3, None),
    ("kilometer_per_hour", F(1000, 3600), {"m": 1, "s": -1}, "kph"),
    # --- angle (pi to 50 digits)
    ("degree", F(PI) / 180, {"rad": 1}, "deg"),
    ("arcminute", F(PI) / 180 / 60, {"rad": 1}, "arcmin"),
    ("arcsecond", F(PI) / 180 / 3600, {"rad": 1}, "arcsec"),
    ("turn", 2 * F(PI), {"rad": 1}, None),
    ("grade", F(PI) / 200, {"rad": 1}, "grad"),
    ("pi", F(PI), NONE, None),
    # --- dimensionless
    ("percent", "0.01", NONE, "%"),
    ("permille", "0.001", NONE, "‰"),
    ("ppm", "1e-6", NONE, None),
    # --- information
    ("bit", 1, {"bit": 1}, None),
    ("byte", 8, {"bit": 1}, "B"),
    ("baud", 1, {"bit": 1, "s": -1}, "Bd"),
    # --- 2019 SI defining constants and conventional values
    ("speed_of_light", 299792458, {"m": 1, "s": -1}, "c"),
    ("planck_constant", "6.62607015e-34", {"kg": 1, "m": 2, "s": -1}, None),
    ("elementary_charge", "1.602176634e-19", {"A": 1, "s": 1}, "e"),
    ("boltzmann_constant", "1.380649e-23", {"kg": 1, "m": 2, "s": -2, "K": -1}, "k"),
    ("avogadro_constant", "6.02214076e23", {"mol": -1}, "N_A"),
    ("avogadro_number", "6.02214076e23", NONE, None),
    ("molar_gas_constant", F("1.380649e-23") * F("6.02214076e23"), {"kg": 1, "m": 2, "s": -2, "K": -1, "mol": -1}, "R"),
    ("faraday_constant", F("1.602176634e-19") * F("6.02214076e23"), {"A": 1, "s": 1, "mol": -1}, None),
    ("standard_gravity", "9.80665", {"m": 1, "s": -2}, "g_0"),
    ("standard_atmosphere", 101325, PRESS, "atm"),
    ("conventional_josephson_constant", "4.835979e14", {"kg": -1, "m": -2, "s": 2, "A": 1}, "K_J90"),
    ("conventional_von_klitzing_constant", "25812.807", {"kg": 1, "m": 2, "s": -3, "A": -2}, "R_K90"),
    ("josephson_constant", 2 * F("1.602176634e-19") / F("6.62607015e-34"), {"kg": -1, "m": -2, "s": 2, "A": 1}, "K_J"),
    ("von_klitzing_constant", F("6.62607015e-34") / F("1.602176634e-19") ** 2, {"kg": 1, "m": 2, "s": -3, "A": -2}, "R_K"),
    ("conductance_quantum", 2 * F("1.602176634e-19") ** 2 / F("6.62607015e-34"), {"kg": -1, "m": -2, "s": 3, "A": 2}, "G_0"),
    ("magnetic_flux_quantum", F("6.62607015e-34") / (2 * F("1.602176634e-19")), {"kg": 1, "m": 2, "s": -2, "A": -1}, "Φ_0"),
    ("dirac_constant", F("6.62607015e-34") / (2 * F(PI)), {"kg": 1, "m": 2, "s": -1}, "ħ"),
    ("second_radiation_constant", F("6.62607015e-34") * 299792458 / F("1.380649e-23"), {"m": 1, "K": 1}, "c_2"),
    # --- CODATA 2022 measured constants (to the digits given by CODATA)
    ("newtonian_constant_of_gravitation", "6.67430e-11", {"m": 3, "kg": -1, "s": -2}, None),
    ("rydberg_constant", "10973731.568157", {"m": -1}, "R_∞"),
    ("electron_mass", "9.1093837139e-31", MASS, "m_e"),
    ("proton_mass", "1.67262192595e-27", MASS, "m_p"),
    ("neutron_mass", "1.67492750056e-27", MASS, "m_n"),
    ("atomic_mass_constant", "1.66053906892e-27", MASS, "m_u"),
    ("dalton", "1.66053906892e-27", MASS, "Da"),
    ("unified_atomic_mass_unit", "1.66053906892e-27", MASS, "u"),
    ("electron_g_factor", "-2.00231930436092", NONE, "g_e"),
    # --- international yard and pound (1959) and their multiples
    ("yard", YD, L, "yd"),
    ("foot", FT, L, "ft"),
    ("inch", IN, L, "in"),
    ("mile", 1760 * YD, L, "mi"),
    ("thou", IN / 1000, L, "th"),
    ("hand", 4 * IN, L, None),
    ("square_inch", IN**2, A2, None),
    ("square_foot", FT**2, A2, None),
    ("square_yard", YD**2, A2, None),
    ("square_mile", (1760 * YD) ** 2, A2, None),
    ("cubic_inch", IN**3, V3, None),
    ("cubic_foot", FT**3, V3, None),
    ("cubic_yard", YD**3, V3, None),
    ("mile_per_hour", 1760 * YD / 3600, {"m": 1, "s": -1}, "mph"),
    ("foot_per_second", FT, {"m": 1, "s": -1}, "fps"),
    ("pica", IN / 6, L, None),
    ("point", IN / 72, L, None),
    # US survey measure (NIST SP 811: survey foot = 1200/3937 m)
    ("survey_foot", SFT, L, "sft"),
    ("survey_mile", 5280 * SFT, L, None),
    ("rod", F("16.5") * SFT, L, "rd"),
    ("chain", 66 * SFT, L, None),
    ("link", F("0.66") * SFT, L, "li"),
    ("furlong", 660 * SFT, L, "fur"),
    ("acre", 43560 * SFT**2, A2, None),
    # --- avoirdupois, troy, apothecary (grain = 64.79891 mg exactly)
    ("pound", LB, MASS, "lb"),
    ("grain", GR, MASS, "gr"),
    ("ounce", LB / 16, MASS, "oz"),
    ("dram", LB / 256, MASS, "dr"),
    ("stone", 14 * LB, MASS, None),
    ("quarter", 28 * LB, MASS, None),
    ("hundredweight", 100 * LB, MASS, "cwt"),
    ("short_hundredweight", 100 * LB, MASS, None),
    ("long_hundredweight", 112 * LB, MASS, None),
    ("UK_hundredweight", 112 * LB, MASS, None),
    ("ton", 2000 * LB, MASS, None),
    ("short_ton", 2000 * LB, MASS, None),
    ("long_ton", 2240 * LB, MASS, None),
    ("UK_ton", 2240 * LB, MASS, None),
    ("pennyweight", 24 * GR, MASS, "dwt"),
    ("troy_ounce", 480 * GR, MASS, None),
    ("troy_pound", 5760 * GR, MASS, None),
    ("scruple", 20 * GR, MASS, None),
    ("apothecary_dram", 60 * GR, MASS, None),
    ("apothecary_ounce", 480 * GR, MASS, None),
    ("apothecary_pound", 5760 * GR, MASS, None),
    ("slug", LB * G0 / FT, MASS, None),
    # --- US liquid and dry measure
    ("gallon", GAL, V3, "gal"),
    ("quart", GAL / 4, V3, "qt"),
    ("pint", GAL / 8, V3, "pt"),
    ("cup", GAL / 16, V3, None),
    ("gill", GAL / 32, V3, "gi"),
    ("fluid_ounce", GAL / 128, V3, "floz"),
    ("tablespoon", GAL / 256, V3, "tbsp"),
    ("teaspoon", GAL / 768, V3, "tsp"),
    ("fluid_dram", GAL / 1024, V3, None),
    ("minim", GAL / 61440, V3, None),
    ("oil_barrel", 42 * GAL, V3, None),
    ("barrel", F("31.5") * GAL, V3, "bbl"),
    ("hogshead", 63 * GAL, V3, None),
    ("fifth", GAL / 5, V3, None),
    ("bushel", BU, V3, "bu"),
    ("peck", BU / 4, V3, "pk"),
    ("dry_gallon", BU / 8, V3, None),
    ("dry_quart", BU / 32, V3, None),
    ("dry_pint", BU / 64, V3, None),
    ("board_foot", FT * FT * IN, V3, None),
    # --- imperial measure
    ("imperial_gallon", IMPGAL, V3, None),
    ("imperial_quart", IMPGAL / 4, V3, None),
    ("imperial_pint", IMPGAL / 8, V3, None),
    ("imperial_gill", IMPGAL / 32, V3, None),
    ("imperial_fluid_ounce", IMPGAL / 160, V3, None),
    ("imperial_fluid_drachm", IMPGAL / 1280, V3, None),
    ("imperial_minim", IMPGAL / 76800, V3, None),
    ("imperial_peck", 2 * IMPGAL, V3, None),
    ("imperial_bushel", 8 * IMPGAL, V3, None),
    # --- force, pressure, energy, power
    ("dyne", "1e-5", FORCE, "dyn"),
    ("force_kilogram", G0, FORCE, "kgf"),
    ("force_gram", G0 / 1000, FORCE, "gf"),
    ("force_pound", LB * G0, FORCE, "lbf"),
    ("force_ounce", LB * G0 / 16, FORCE, "ozf"),
    ("poundal", LB * FT, FORCE, "pdl"),
    ("kip", 1000 * LB * G0, FORCE, None),
    ("barye", "0.1", PRESS, "Ba"),
    ("technical_atmosphere", G0 * 10000, PRESS, "at"),
    ("torr", F(101325, 760), PRESS, None),
    ("pound_force_per_square_inch", LB * G0 / IN**2, PRESS, "psi"),
    ("millimeter_Hg", F("13595.1") * G0 / 1000, PRESS, "mmHg"),
    ("inch_Hg", F("13595.1") * G0 * IN, PRESS, "inHg"),
    ("centimeter_H2O", 1000 * G0 / 100, PRESS, "cmH2O"),
    ("erg", "1e-7", ENERGY, None),
    ("calorie", "4.184", ENERGY, "cal"),
    ("thermochemical_calorie", "4.184", ENERGY, None),
    ("international_calorie", "4.1868", ENERGY, "cal_it"),
    ("fifteen_degree_calorie", "4.1855", ENERGY, "cal_15"),
    ("british_thermal_unit", "1055.056", ENERGY, "Btu"),
    ("international_british_thermal_unit", F("4186.8") * LB * F(5, 9), ENERGY, "Btu_it"),
    ("thermochemical_british_thermal_unit", F("4184") * LB * F(5, 9), ENERGY, "Btu_th"),
    ("watt_hour", 3600, ENERGY, "Wh"),
    ("ton_TNT", "4.184e9", ENERGY, None),
    ("tonne_of_oil_equivalent", "4.1868e10", ENERGY, "toe"),
    ("foot_pound", FT * LB * G0, ENERGY, None),
    ("horsepower", 550 * FT * LB * G0, POWER, "hp"),
    ("metric_horsepower", 75 * G0, POWER, None),
    ("electrical_horsepower", 746, POWER, None),
    # --- CGS mechanical and radiation units
    ("galileo", "0.01", {"m": 1, "s": -2}, "Gal"),
    ("poise", "0.1", {"kg": 1, "m": -1, "s": -1}, "P"),
    ("stokes", "1e-4", {"m": 2, "s": -1}, "St"),
    ("reciprocal_centimeter", 100, {"m": -1}, None),
    ("stilb", 10000, {"cd": 1, "m": -2}, None),
    ("nit", 1, {"cd": 1, "m": -2}, None),
    ("curie", "3.7e10", {"s": -1, "count": 1}, "Ci"),
    ("rutherford", "1e6", {"s": -1, "count": 1}, "Rd"),
    ("rads", "0.01", {"m": 2, "s": -2}, None),
    ("rem", "0.01", {"m": 2, "s": -2}, None),
    ("roentgen", "2.58e-4", {"A": 1, "s": 1, "kg": -1}, None),
    ("biot", 10, {"A": 1}, "Bi"),
    ("abampere", 10, {"A": 1}, "abA"),
    # magnetomotive force: the SI unit is the ampere (the "turn" is a count); 1 gilbert = 10/(4 pi) A
    ("ampere_turn", 1, {"A": 1}, None),
    ("gilbert", F(10) / (4 * F(PI)), {"A": 1}, None),
    ("abcoulomb", 10, {"A": 1, "s": 1}, "abC"),
    ("abvolt", "1e-8", {"kg": 1, "m": 2, "s": -3, "A": -1}, "abV"),
    ("abohm", "1e-9", {"kg": 1, "m": 2, "s": -3, "A": -2}, None),
    ("abfarad", "1e9", {"kg": -1, "m": -2, "s": 4, "A": 2}, "abF"),
    ("abhenry", "1e-9", {"kg": 1, "m": 2, "s": -2, "A": -2}, "abH"),
    ("ampere_hour", 3600, {"A": 1, "s": 1}, "Ah"),
    ("molar", 1000, {"mol": 1, "m": -3}, "M"),
    ("tex", "1e-6", {"kg": 1, "m": -1}, None),
    ("denier", F("1e-6") / 9, {"kg": 1, "m": -1}, "den"),
]

# temperature scales: kelvin value of x degrees is  scale * x + offset
TEMPERATURES = [
    ("degree_Celsius", 1, "273.15", "°C"),
    ("degree_Fahrenheit", F(5, 9), F("459.67") * F(5, 9), "°F"),
    ("degree_Rankine", F(5, 9), 0, "°R"),
    ("degree_Reaumur", F(5, 4), "273.15", "°Re"),
    ("kelvin", 1, 0, "K"),
]


def entries():
    for name, value, vec, sym in TABLE:
        yield name, _p(value), dict(vec), sym


def temperatures():
    for name, s, o, sym in TEMPERATURES:
        yield name, _p(s), _p(o), sym


def prefixes():
    for name, (v, sym) in PREFIXES.items():
        yield name, F(v), sym
