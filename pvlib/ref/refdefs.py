"""Independent reader of pint definition text (DESIGN.md 3.3).  Imports nothing from pint.

It reads unit / prefix / dimension / alias lines, ``@import``, ``@group`` (members and
``using``), ``@system`` (rules) and ``@context`` (header, relations as text) and yields, for
every unit, an exact factor over the base units, the base-unit vector, the base-dimension
vector and the non-multiplicative parameters (offset; logbase/logfactor).

Values are ``Val(num, units, inexact)``: an exact Fraction times a vector over *root* units
(those defined directly on a dimension).  A non-integer power of a non-perfect power makes a
value *inexact* (its float approximation is carried, and it is excluded from exactness
claims by the users of this module).
"""

from __future__ import annotations

import os
import re
from dataclasses import dataclass, field
from fractions import Fraction

PINT_DIR = "/repo/pint"


# ----------------------------------------------------------------------------- values


@dataclass(frozen=True)
class Val:
    num: Fraction
    units: tuple = ()  # sorted tuple of (root unit, exponent Fraction), no zero entries
    inexact: bool = False

    def udict(self):
        return dict(self.units)

    @staticmethod
    def mk(num, ud=None, inexact=False):
        ud = {k: Fraction(v) for k, v in (ud or {}).items() if v != 0}
        # the number may also be a symbolic value of the caller's numeric type (duck-typed)
        if isinstance(num, (int, str, Fraction)):
            num = Fraction(num)
        return Val(num, tuple(sorted(ud.items())), inexact)

    def __mul__(self, o):
        d = self.udict()
        for k, v in o.units:
            d[k] = d.get(k, 0) + v
        return Val.mk(self.num * o.num, d, self.inexact or o.inexact)

    def __truediv__(self, o):
        d = self.udict()
        for k, v in o.units:
            d[k] = d.get(k, 0) - v
        return Val.mk(self.num / o.num, d, self.inexact or o.inexact)

    def __pow__(self, e: Fraction):
        d = {k: v * e for k, v in self.units}
        if e.denominator == 1:
            return Val.mk(self.num ** int(e), d, self.inexact)
        # rational power: pint (Python) evaluates it in floating point, so the result is
        # inexact even for perfect powers; only 1 ** e stays exact
        if isinstance(self.num, Fraction):
            if self.num == 1:
                return Val.mk(1, d, self.inexact)
            return Val.mk(Fraction(float(self.num) ** float(e)), d, True)
        return Val.mk(self.num**e, d, True)


def _iroot(n: int, k: int):
    if n < 0:
        return None
    if n < 2:
        return n
    lo, hi = 0, 1 << (n.bit_length() // k + 1)
    while lo < hi:
        mid = (lo + hi + 1) // 2
        if mid**k <= n:
            lo = mid
        else:
            hi = mid - 1
    return lo if lo**k == n else None


def _exact_root(n: Fraction, e: Fraction):
    k = e.denominator
    a, b = _iroot(n.numerator, k), _iroot(n.denominator, k)
    if a is None or b is None:
        return None
    return Fraction(a, b) ** e.numerator


# ----------------------------------------------------------------------------- lexer / parser of right-hand sides

_TOK = re.compile(
    r"""\s*(?:
      (?P<num>(?:\d+\.?\d*|\.\d+)(?:[eE][+-]?\d+)?)
    | (?P<dim>\[[^\]]*\])
    | (?P<name>[^\W\d][\w]*|[°µμΩℎħ∞ÅαεσζΦπ][\w°]*)
    | (?P<op>\*\*|\^|\*|/|\(|\)|\+|-)
    )""",
    re.X,
)


def tokenize(s: str):
    pos = 0
    out = []
    s = s.strip()
    while pos < len(s):
        m = _TOK.match(s, pos)
        if not m or m.end() == pos:
            raise SyntaxError(f"cannot tokenize {s!r} at {pos}")
        pos = m.end()
        for kind in ("num", "dim", "name", "op"):
            if m.group(kind) is not None:
                out.append((kind, m.group(kind)))
                break
    return out


class _Parser:
    """expr := term (('*'|'/'|<juxtaposition>) term)* ;  term := unary ;  unary := ('+'|'-') unary | power ;
    power := atom (('**'|'^') unary)?   -- '**' binds tighter than unary minus on its left, and is right-assoc."""

    def __init__(self, toks, resolve):
        self.toks = toks
        self.i = 0
        self.resolve = resolve

    def peek(self):
        return self.toks[self.i] if self.i < len(self.toks) else (None, None)

    def next(self):
        t = self.peek()
        self.i += 1
        return t

    def parse(self):
        v = self.addexpr()
        if self.i != len(self.toks):
            raise SyntaxError(f"trailing tokens {self.toks[self.i:]}")
        return v

    def addexpr(self):
        v = self.expr()
        while True:
            k, t = self.peek()
            if k == "op" and t in "+-":
                self.next()
                w = self.expr()
                if v.units != w.units:
                    raise SyntaxError("adding values of different units")
                n = v.num + w.num if t == "+" else v.num - w.num
                v = Val.mk(n, v.udict(), v.inexact or w.inexact)
            else:
                return v

    def expr(self):
        v = self.unary()
        while True:
            k, t = self.peek()
            if k == "op" and t == "*":
                self.next()
                v = v * self.unary()
            elif k == "op" and t == "/":
                self.next()
                v = v / self.unary()
            elif k in ("num", "name", "dim") or (k == "op" and t == "("):
                v = v * self.unary()  # juxtaposition
            else:
                return v

    def unary(self):
        k, t = self.peek()
        if k == "op" and t in "+-":
            self.next()
            v = self.unary()
            return Val.mk(-v.num, v.udict(), v.inexact) if t == "-" else v
        return self.power()

    def power(self):
        base = self.atom()
        k, t = self.peek()
        if k == "op" and t in ("**", "^"):
            self.next()
            e = self.unary()
            if e.units:
                raise SyntaxError("exponent with units")
            return base**e.num
        return base

    def atom(self):
        k, t = self.next()
        if k == "num":
            return Val.mk(Fraction(t))
        if k == "op" and t == "(":
            v = self.addexpr()
            k2, t2 = self.next()
            if t2 != ")":
                raise SyntaxError("expected )")
            return v
        if k in ("name", "dim"):
            return self.resolve(t)
        raise SyntaxError(f"unexpected token {t!r}")


# ----------------------------------------------------------------------------- definitions


@dataclass
class UnitDef:
    name: str
    rhs: str
    symbol: str | None
    aliases: tuple
    modifiers: dict
    group: str | None = None
    is_base: bool = False
    dim: str | None = None  # for base units: '[length]' or '[]'


@dataclass
class Defs:
    prefixes: dict = field(default_factory=dict)  # spelling -> (canonical name, Fraction, symbol)
    prefix_defs: dict = field(default_factory=dict)  # canonical -> (value, symbol, aliases)
    units: dict = field(default_factory=dict)  # canonical name -> UnitDef
    spellings: dict = field(default_factory=dict)  # spelling -> canonical name
    dims: dict = field(default_factory=dict)  # '[area]' -> rhs text
    groups: dict = field(default_factory=dict)  # name -> dict(units=[...], using=[...])
    systems: dict = field(default_factory=dict)  # name -> dict(using=[...], rules=[(new, old|None)])
    contexts: dict = field(default_factory=dict)  # name -> dict(aliases, defaults, relations=[(src,dst,bidir,eq)], redefs=[...])
    defaults: dict = field(default_factory=dict)
    _vals: dict = field(default_factory=dict)
    _dimvals: dict = field(default_factory=dict)

    # -- name resolution per the documented rule ----------------------------------

    def resolve_name(self, s: str):
        """-> (prefix canonical or '', unit canonical) or None"""
        if s in self.spellings:
            return "", self.spellings[s]
        cands = []
        for suffix in ("", "s"):
            if suffix and not s.endswith(suffix):
                continue
            stem = s[: len(s) - len(suffix)] if suffix else s
            for p, (pname, _pv, _ps) in self.prefixes.items():
                if stem.startswith(p):
                    u = stem[len(p) :]
                    if suffix and len(u) == 1:
                        continue
                    if u in self.spellings:
                        cands.append((pname, self.spellings[u]))
            if suffix and len(stem) > 1 and stem in self.spellings:
                cands.append(("", self.spellings[stem]))
        if not cands:
            return None
        return cands[0]

    # -- values ---------------------------------------------------------------------

    def value(self, canonical: str) -> Val:
        if canonical in self._vals:
            v = self._vals[canonical]
            if v is None:
                raise ValueError(f"cyclic definition through {canonical}")
            return v
        self._vals[canonical] = None
        ud = self.units[canonical]
        if ud.is_base:
            v = Val.mk(1, {canonical: 1})
        else:
            v = _Parser(tokenize(ud.rhs), self._resolve_val).parse()
        self._vals[canonical] = v
        return v

    def _resolve_val(self, tok: str) -> Val:
        if tok.startswith("["):
            raise SyntaxError(f"dimension {tok} in a unit expression")
        r = self.resolve_name(tok)
        if r is None:
            raise KeyError(tok)
        p, u = r
        v = self.value(u)
        if p:
            v = Val.mk(v.num * self.prefix_defs[p][0], v.udict(), v.inexact)
        return v

    def value_of_spelling(self, s: str) -> Val:
        return self._resolve_val(s)

    def value_of_expr(self, expr: str) -> Val:
        return _Parser(tokenize(expr), self._resolve_val).parse()

    # -- dimensions -------------------------------------------------------------------

    def base_dim_of(self, root_unit: str) -> str:
        return self.units[root_unit].dim

    def dim_vector(self, v: Val) -> dict:
        d = {}
        for u, e in v.units:
            dim = self.base_dim_of(u)
            if dim == "[]":
                continue
            d[dim] = d.get(dim, 0) + e
        return {k: x for k, x in d.items() if x != 0}

    def dim_of_name(self, dim: str) -> dict:
        """vector of a (possibly derived) dimension name over base dimensions"""
        if dim in self._dimvals:
            return self._dimvals[dim]
        if dim not in self.dims:
            v = {dim: Fraction(1)} if dim != "[]" else {}
        else:
            val = _Parser(tokenize(self.dims[dim]), self._resolve_dim).parse()
            v = {k: e for k, e in val.units}
        self._dimvals[dim] = v
        return v

    def _resolve_dim(self, tok):
        if not tok.startswith("["):
            raise SyntaxError(f"unit {tok} in a dimension expression")
        return Val.mk(1, self.dim_of_name(tok))

    def dim_of_expr(self, expr: str) -> dict:
        val = _Parser(tokenize(expr), self._resolve_dim).parse()
        return {k: e for k, e in val.units}

    # -- groups / systems ---------------------------------------------------------------

    def group_members(self, name: str, _seen=None) -> set:
        _seen = _seen or set()
        if name in _seen:
            return set()
        _seen.add(name)
        g = self.groups[name]
        out = set(g["units"])
        for u in g["using"]:
            out |= self.group_members(u, _seen)
        return out

    def system_members(self, name: str) -> set:
        using = self.systems[name]["using"]
        if not using:
            # a system declared without 'using' takes the root group: every unit
            return set(self.units)
        out = set()
        for g in using:
            out |= self.group_members(g)
        return out


_COMMENT = re.compile(r"\s*#.*$")


def _strip(line: str) -> str:
    return _COMMENT.sub("", line).strip()


def read(path=None, text=None, _defs=None, _group=None) -> Defs:
    defs = _defs or Defs()
    if text is None:
        path = path or os.path.join(PINT_DIR, "default_en.txt")
        with open(path, encoding="utf-8") as f:
            text = f.read()
    lines = text.splitlines()
    i = 0
    while i < len(lines):
        line = _strip(lines[i])
        i += 1
        if not line:
            continue
        if line.startswith("@import"):
            sub = line.split(None, 1)[1].strip()
            base = os.path.dirname(path) if path else PINT_DIR
            read(os.path.join(base, sub), _defs=defs)
            continue
        if line.startswith("@"):
            # block
            block = []
            while i < len(lines):
                l2 = _strip(lines[i])
                i += 1
                if l2 == "@end":
                    break
                if l2:
                    block.append(l2)
            _block(defs, line, block)
            continue
        _plain_line(defs, line, None)
    if _defs is None:
        # the default group collects every unit not in another group
        dg = defs.defaults.get("group")
        if dg:
            grouped = set()
            for g in defs.groups.values():
                grouped |= set(g["units"])
            rest = [u for u in defs.units if u not in grouped]
            defs.groups.setdefault(dg, {"units": [], "using": []})["units"] += rest
    return defs


def _block(defs: Defs, header: str, block):
    if header.startswith("@defaults"):
        for l in block:
            k, v = (x.strip() for x in l.split("=", 1))
            defs.defaults[k] = v
    elif header.startswith("@group"):
        m = re.match(r"@group\s+(\w+)(?:\s+using\s+(.*))?$", header)
        name = m.group(1)
        using = [x.strip() for x in (m.group(2) or "").split(",") if x.strip()]
        g = defs.groups.setdefault(name, {"units": [], "using": []})
        g["using"] += using
        for l in block:
            if "=" in l:
                cname = _plain_line(defs, l, name)
                g["units"].append(cname)
            else:
                g["units"].append(l.strip())
    elif header.startswith("@system"):
        m = re.match(r"@system\s+(\w+)(?:\s+using\s+(.*))?$", header)
        name = m.group(1)
        using = [x.strip() for x in (m.group(2) or "").split(",") if x.strip()]
        rules = []
        for l in block:
            if ":" in l:
                new, old = (x.strip() for x in l.split(":", 1))
                rules.append((new, old))
            else:
                rules.append((l.strip(), None))
        defs.systems[name] = {"using": using, "rules": rules}
    elif header.startswith("@context"):
        m = re.match(r"@context\s*(?:\((.*?)\))?\s*([^=]+?)\s*(?:=(.*))?$", header)
        params, name, aliases = m.group(1), m.group(2).strip(), m.group(3)
        dfl = {}
        if params:
            for kv in params.split(","):
                k, v = kv.split("=")
                dfl[k.strip()] = v.strip()
        rel, redefs = [], []
        for l in block:
            mm = re.match(r"(.+?)\s*(<->|->)\s*(.+?)\s*:\s*(.+)$", l)
            if mm:
                rel.append((mm.group(1).strip(), mm.group(3).strip(), mm.group(2) == "<->", mm.group(4).strip()))
            elif "=" in l:
                redefs.append(l)
        defs.contexts[name] = {
            "aliases": [a.strip() for a in (aliases or "").split("=") if a.strip()],
            "defaults": dfl,
            "relations": rel,
            "redefs": redefs,
        }


def _plain_line(defs: Defs, line: str, group):
    parts = [p.strip() for p in line.split("=")]
    head = parts[0]
    if head.startswith("@alias"):
        target = head.split(None, 1)[1].strip()
        canon = defs.spellings[target]
        for a in parts[1:]:
            defs.spellings[a] = canon
        return canon
    if head.startswith("["):
        defs.dims[head] = parts[1]
        return head
    if head.endswith("-"):
        pname = head[:-1]
        value = _Parser(tokenize(parts[1]), lambda t: (_ for _ in ()).throw(KeyError(t))).parse().num
        rest = [p for p in parts[2:]]
        symbol = None
        aliases = []
        if rest:
            if rest[0] != "_":
                symbol = rest[0].rstrip("-")
            aliases = [a.rstrip("-") for a in rest[1:]]
        defs.prefix_defs[pname] = (value, symbol, tuple(aliases))
        for sp in [pname] + ([symbol] if symbol else []) + aliases:
            defs.prefixes[sp] = (pname, value, symbol)
        return pname
    # unit
    name = head
    rhs_mod = parts[1]
    rhs, *mods = [x.strip() for x in rhs_mod.split(";")]
    modifiers = {}
    for m in mods:
        k, v = (x.strip() for x in m.split(":", 1))
        modifiers[k] = v
    symbol = None
    aliases = []
    rest = parts[2:]
    if rest:
        if rest[0] != "_":
            symbol = rest[0]
        aliases = rest[1:]
    is_base = rhs.startswith("[")
    ud = UnitDef(name, rhs, symbol, tuple(aliases), modifiers, group, is_base, rhs if is_base else None)
    defs.units[name] = ud
    for sp in [name] + ([symbol] if symbol else []) + aliases:
        defs.spellings[sp] = name
    return name


def number(expr: str) -> Fraction:
    """value of a unit-free arithmetic expression (modifiers such as offsets)"""
    v = _Parser(tokenize(expr), lambda t: (_ for _ in ()).throw(KeyError(t))).parse()
    return v.num


_CACHE = {}


def default() -> Defs:
    """reader result for the bundled files, re-read whenever their content changes"""
    key = []
    for fn in ("default_en.txt", "constants_en.txt"):
        st = os.stat(os.path.join(PINT_DIR, fn))
        key.append((st.st_mtime_ns, st.st_size))
    key = tuple(key)
    if key not in _CACHE:
        _CACHE.clear()
        _CACHE[key] = read()
    return _CACHE[key]
