"""Generated registry with contexts + a reference model of context semantics (C11, C12, C13).

The registry text has every numeric literal symbolic (placeholder literals).  The reference
model is ~100 lines: a stack of (context, parameters); rules and redefinitions are looked up
'most recently enabled wins'; cross-dimension conversion follows a shortest chain of rules
(BFS over the union of active rules).  It shares no code with pint."""

from __future__ import annotations

from collections import deque

from pint.errors import DimensionalityError, UndefinedUnitError

from . import regs
from .sx.q import And, Eq, Not, Or

DIMS = {"m": "L", "u": "L", "w": "L", "kku": "L", "nu": "L", "s": "T", "g": "M"}


class World:
    """symbolic parameters of the template"""

    def __init__(self, eng):
        self.eng = eng
        r = eng.real
        self.su, self.su3, self.su4 = r("su"), r("su3"), r("su4")
        self.k1, self.k2, self.k3, self.k4, self.k5 = r("k1"), r("k2"), r("k3"), r("k4"), r("k5")
        self.n1 = r("n1")  # declared default of c1's parameter
        self.sn = r("sn")  # scale of a unit defined later
        for v in (self.su, self.su3, self.su4, self.k1, self.k2, self.k3, self.k4, self.k5, self.n1, self.sn):
            eng.assume(v > 0)
        # distinct coefficients identify which rule was used
        eng.assume(Not(Eq(self.k1 * self.n1, self.k2)))
        eng.assume(Not(Eq(self.su3, self.su4)))
        eng.assume(Not(Eq(self.su, self.su3)))
        eng.assume(Not(Eq(self.su, self.su4)))

    def text(self, with_system=True):
        L = self.eng.lit
        lines = [
            "m = [length]",
            "s = [time]",
            "g = [mass]",
            "kk- = 1000 = K-",
            f"u = {L(self.su)} * m = U_ = uu",
            "w = 3 * u",
            f"@context(n={L(self.n1, paren=False)}) c1 = C1",
            f"    [length] -> [time]: value * {L(self.k1)} * n * s / m",
            "@end",
            "@context c2",
            f"    [length] -> [time]: value * {L(self.k2)} * s / m",
            f"    [time] -> [mass]: value * {L(self.k3)} * g / s",
            "@end",
            "@context c3",
            f"    u = {L(self.su3)} * m",
            "@end",
            "@context c4",
            f"    [length] -> [mass]: value * {L(self.k4)} * g / m",
            f"    u = {L(self.su4)} * m",
            "@end",
            "@context bad",
            f"    u = {L(self.su3)} * m",
            "    w = 2 * s",
            "@end",
        ]
        if with_system:
            lines += ["@system sysA using grpA", "    m", "    s", "    g", "@end", "@defaults", "    group = grpA", "    system = sysA", "@end"]
        return lines

    def build(self, **opts):
        ureg = regs.build(self.eng, self.text(), **opts)
        return ureg

    def shared_context(self):
        """a Context object built programmatically, to be shared between registries"""
        from pint import Context

        k5 = self.k5
        c = Context("c5")

        def l2t(ureg, x, **kw):
            return x * k5 * ureg.Quantity(1, "s/m")

        c.add_transformation("[length]", "[time]", l2t)
        return c


RULES = {
    # ctx: list of (src, dst, coefficient(world, params))
    "c1": [("L", "T", lambda W, p: W.k1 * p["n"])],
    "c2": [("L", "T", lambda W, p: W.k2), ("T", "M", lambda W, p: W.k3)],
    "c3": [],
    "c4": [("L", "M", lambda W, p: W.k4)],
    "c5": [("L", "T", lambda W, p: W.k5)],
}
REDEFS = {"c3": lambda W: W.su3, "c4": lambda W: W.su4}


class Model:
    def __init__(self, W):
        self.W = W
        self.stack = []  # entries: (ctx, params)
        self.late_units = {}  # unit -> scale (defined after construction)
        self.under_overlay = {}  # unit -> True if defined while a redefining context was active

    # -- stack operations ------------------------------------------------------
    def params_for(self, ctx, n):
        """explicit keyword > innermost enclosing active context > declared default"""
        p = dict(self.stack[-1][1]) if self.stack else {}
        if n is not None:
            p["n"] = n
        if ctx == "c1" and "n" not in p:
            p["n"] = self.W.n1
        return p

    def enable(self, ctx, n=None):
        self.stack.append((ctx, self.params_for(ctx, n)))

    def disable(self, k=None):
        if k is None:
            self.stack = []
        else:
            del self.stack[max(0, len(self.stack) - k) :]

    # -- queries ---------------------------------------------------------------
    def scale_u(self):
        for ctx, _p in reversed(self.stack):
            if ctx in REDEFS:
                return REDEFS[ctx](self.W)
        return self.W.su

    def factor(self, unit):
        """value of one unit in the base unit of its dimension"""
        if unit in ("m", "s", "g"):
            return 1
        if unit == "u":
            return self.scale_u()
        if unit == "w":
            return 3 * self.scale_u()
        if unit == "kku":
            return 1000 * self.scale_u()
        if unit in self.late_units:
            return self.late_units[unit]
        raise KeyError(unit)

    def edges(self):
        """(src, dst) -> coefficient of the most recently enabled context having the rule"""
        e = {}
        for ctx, p in self.stack:  # later entries overwrite earlier ones
            for src, dst, coef in RULES[ctx]:
                e[(src, dst)] = coef(self.W, p)
        return e

    def shortest_chains(self, a, b):
        e = self.edges()
        if a == b:
            return [[]]
        best = None
        out = []
        dq = deque([(a, [])])
        seen_depth = {a: 0}
        while dq:
            node, path = dq.popleft()
            if best is not None and len(path) >= best:
                continue
            for (s, d), _c in e.items():
                if s != node:
                    continue
                np_ = path + [(s, d)]
                if d == b:
                    best = len(np_)
                    out.append(np_)
                elif d not in seen_depth or seen_depth[d] >= len(np_):
                    seen_depth[d] = len(np_)
                    dq.append((d, np_))
        return [p for p in out if len(p) == best] if out else []

    def convert(self, x, src, dst):
        """-> None (DimensionalityError) | list of candidate results (one per shortest chain)"""
        a, b = DIMS[src], DIMS[dst]
        base = x * self.factor(src)
        if a == b:
            return [base / self.factor(dst)]
        chains = self.shortest_chains(a, b)
        if not chains:
            return None
        e = self.edges()
        res = []
        for ch in chains:
            v = base
            for edge in ch:
                v = v * e[edge]
            res.append(v / self.factor(dst))
        return res

    def reachable(self, a):
        e = self.edges()
        seen = {a}
        todo = [a]
        while todo:
            n = todo.pop()
            for s, d in e:
                if s == n and d not in seen:
                    seen.add(d)
                    todo.append(d)
        return seen


BASE_UNITS_BY_DIM = {"L": {"m", "u", "w"}, "T": {"s"}, "M": {"g"}}


def probe(eng, ureg, model, x, tag, full=True):
    """compare every observable answer of the registry with the model"""
    P = eng.prove

    def conv(src, dst, label):
        want = model.convert(x, src, dst)
        try:
            r = ureg.Quantity(x, src).to(dst)
        except DimensionalityError:
            P(want is None, f"{tag}:{label}:error-only-when-unreachable")
            return
        P(want is not None, f"{tag}:{label}:converted-only-when-reachable")
        if want is not None:
            P(Or(*[Eq(r.magnitude, w) for w in want]), f"{tag}:{label}:value")

    conv("m", "s", "m->s")
    conv("m", "g", "m->g")
    conv("w", "m", "w->m")
    conv("s", "g", "s->g")
    if full:
        conv("kku", "m", "kku->m")
        conv("w", "s", "w->s")
        f, _ = ureg.get_root_units("w")
        P(Eq(f, model.factor("w")), f"{tag}:get_root_units(w)")
        f, bu = ureg.get_base_units("w")
        P(Eq(f, model.factor("w")), f"{tag}:get_base_units(w)")
        r = ureg.Quantity(x, "w").to_base_units()
        P(Eq(r.magnitude, x * model.factor("w")), f"{tag}:to_base_units(w)")
        for late in model.late_units:
            try:
                ureg.parse_units(late)
            except UndefinedUnitError:
                if model.under_overlay.get(late):
                    # known defect (see known_findings.json K2): reported under its own label
                    eng.fail(f"{tag}:unit-defined-under-context-overlay-is-lost")
                raise
            conv(late, "m", f"{late}->m")
        reach = model.reachable("L")
        want_names = set()
        for d in reach:
            want_names |= BASE_UNITS_BY_DIM[d]
        got = {str(uu) for uu in ureg.get_compatible_units("m")}
        got.discard("kku")
        # whether units defined after construction are listed is C13's subject
        for late in model.late_units:
            got.discard(late)
        P(got == want_names, f"{tag}:compatible_units(m)")
        q = ureg.Quantity(x, "m")
        P(q.is_compatible_with("s") == ("T" in reach), f"{tag}:is_compatible_with(s)")
        P(q.is_compatible_with("g") == ("M" in reach), f"{tag}:is_compatible_with(g)")
        # the same questions asked of units and of the registry
        um = ureg.Unit("m")
        P(um.is_compatible_with("s") == ("T" in reach), f"{tag}:Unit.is_compatible_with(s)")
        P(um.is_compatible_with(ureg.Unit("g")) == ("M" in reach), f"{tag}:Unit.is_compatible_with(Unit g)")
        P(ureg.is_compatible_with("m", "s") == ("T" in reach), f"{tag}:registry.is_compatible_with(m,s)")
        gotu = {str(uu) for uu in um.compatible_units()} - {"kku"} - set(model.late_units)
        P(gotu == want_names, f"{tag}:Unit.compatible_units")
        gotq = {str(uu) for uu in q.compatible_units()} - {"kku"} - set(model.late_units)
        P(gotq == want_names, f"{tag}:Quantity.compatible_units")
