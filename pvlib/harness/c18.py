"""C18 -- copy, pickle and tuple serialisation preserve objects; registries stay isolated."""

from __future__ import annotations

import copy
import itertools
import pickle
import random
from fractions import Fraction

import pint
from pint import errors as perr
from pint.util import ParserHelper, UnitsContainer

from .. import covers, regs
from ..runner import Case
from ..sx.q import And, Eq, Not

PROPERTY = "C18"
M = "pvlib.harness.c18"

META = {
    "explanation": "copy / deepcopy / pickle (protocols 0-5) / to_tuple-from_tuple of quantities, units, unit containers and parser helpers with symbolic magnitudes (a symbolic number pickles by placeholder id) and "
    "solver-chosen exponents: the result is proved equal for all magnitudes, attached to the application registry (a fresh one per path, so prefixed units are not yet registered there) and usable; "
    "operators between objects of two registries must raise ValueError; a deep-copied registry and its source are modified with symbolic definitions and proved not to influence each other; "
    "the lazy application registry converts like an explicit one. Exception classes: concrete round trips (no numeric content for a solver).",
    "functions_encoded": [
        "pint/facets/plain/quantity.py::__reduce__, __copy__, __deepcopy__, to_tuple, from_tuple, compare (registry check)",
        "pint/facets/plain/unit.py::__reduce__, __copy__, __deepcopy__",
        "pint/__init__.py::_unpickle, _unpickle_quantity, _unpickle_unit, set_application_registry",
        "pint/util.py::UnitsContainer.__getstate__/__setstate__, ParserHelper.__getstate__/__setstate__, SharedRegistryObject._check",
        "pint/facets/plain/registry.py::__deepcopy__; pint/registry.py::LazyRegistry, ApplicationRegistry",
        "pint/errors.py::*.__reduce__",
    ],
    "bounds": {"magnitude": "all rationals (symbolic)", "exponents": "non-zero integers in [-2,2] (realised)", "units": "cover list, prefixed spellings", "protocols": "0-5"},
    "enumerated_axes": [{"axis": "object kind x protocol x unit list", "exhaustive": False}],
    "outside_claim": ["Measurement pickling (needs the real uncertainties package; C19 works with a stub)", "ndarray magnitudes", "numeric magnitude types other than the exact rational one"],
}


def _fresh_app(eng):
    ureg = pint.UnitRegistry(non_int_type=eng.ntype)
    return ureg


def h_roundtrip(eng, names, how, frac=False):
    src = regs.default(eng)
    app = _fresh_app(eng)
    old = pint.get_application_registry().get()
    pint.set_application_registry(app)
    try:
        x = eng.real("x")
        exps = [eng.integer(f"e{i}", -2, 2) for i in range(len(names))]
        for e in exps:
            eng.assume(Not(Eq(e, 0)))
        vals = [e.realize() if hasattr(e, "realize") else Fraction(e) for e in exps]
        if frac:
            # fractional exponents are numbers of the registry's numeric type
            vals = [v / 2 if i == 0 else v for i, v in enumerate(vals)]
        uc = src.UnitsContainer({n: (int(v) if v.denominator == 1 else eng.num(v)) for n, v in zip(names, vals)})
        q = src.Quantity(x, uc)
        u = src.Unit(uc)
        ph = ParserHelper(x, dict(uc), non_int_type=eng.ntype)
        if how == "copy":
            q2, u2, c2, p2 = copy.copy(q), copy.copy(u), copy.copy(uc), copy.copy(ph)
        elif how == "deepcopy":
            q2, u2, c2, p2 = copy.deepcopy(q), copy.deepcopy(u), copy.deepcopy(uc), copy.deepcopy(ph)
        elif how == "tuple":
            q2 = src.Quantity.from_tuple(q.to_tuple())
            u2, c2, p2 = copy.copy(u), UnitsContainer(dict(q.to_tuple()[1]), non_int_type=eng.ntype), copy.copy(ph)
        else:
            proto = int(how.split(":")[1])
            q2, u2, c2, p2 = (pickle.loads(pickle.dumps(o, proto)) for o in (q, u, uc, ph))
        pickled = how.startswith("pickle")
        home = app if pickled else src
        # equal to the original
        eng.prove(dict(q2._units) == dict(q._units), f"{how}:quantity-units")
        # exponents keep their numeric type, and the containers the registry's numeric type
        eng.prove(all(type(q2._units[k]) is type(q._units[k]) for k in q._units), f"{how}:quantity-exponent-types")
        eng.prove(all(type(u2._units[k]) is type(u._units[k]) for k in u._units), f"{how}:unit-exponent-types")
        eng.prove(q2._units._non_int_type is q._units._non_int_type and u2._units._non_int_type is u._units._non_int_type, f"{how}:numeric-type-of-containers")
        eng.prove(Eq(q2.magnitude, x), f"{how}:quantity-magnitude")
        eng.prove(dict(u2._units) == dict(u._units), f"{how}:unit")
        eng.prove(c2 == uc and hash(c2) == hash(uc), f"{how}:container")
        eng.prove(And(Eq(p2.scale, x), dict(p2) == dict(ph)), f"{how}:parserhelper")
        eng.prove(q2 is not q and (how == "tuple" or q2._units is not q._units or how == "copy"), f"{how}:new-object")
        # attached to the right registry, and usable there (prefixed units get registered)
        eng.prove(q2._REGISTRY is home and u2._REGISTRY is home, f"{how}:registry")
        want = q.to_root_units()
        got = q2.to_root_units()
        eng.prove(And(Eq(got.magnitude, want.magnitude), dict(got._units) == dict(want._units)), f"{how}:usable-same-root-value")
        if pickled:
            eng.prove(q2 == home.Quantity(x, uc), f"{how}:equal-in-application-registry")
            try:
                q2 + q
            except ValueError:
                eng.prove(True, f"{how}:does-not-mix-with-source-registry")
            else:
                eng.fail(f"{how}:mixes-with-source-registry")
        else:
            eng.prove(q2 == q, f"{how}:equal")
        # the original is untouched
        eng.prove(And(Eq(q.magnitude, x), dict(q._units) == dict(uc)), f"{how}:original-untouched")
    finally:
        pint.set_application_registry(old)


def h_two_registries(eng, u, v):
    """objects of different registries never combine silently"""
    import operator

    r1 = regs.default(eng)
    r2 = _fresh_app(eng)
    x, y = eng.real("x"), eng.real("y")
    a, b = r1.Quantity(x, u), r2.Quantity(y, v)
    for name, op in (("add", operator.add), ("sub", operator.sub), ("mul", operator.mul), ("truediv", operator.truediv), ("lt", operator.lt), ("ge", operator.ge), ("floordiv", operator.floordiv), ("mod", operator.mod)):
        try:
            op(a, b)
        except ValueError:
            eng.prove(True, f"{name}:raises-ValueError")
            continue
        eng.fail(f"{name}:combined-silently")
    for name, op in (("unit-mul", lambda: r1.Unit(u) * r2.Unit(v)), ("unit-div", lambda: r1.Unit(u) / r2.Unit(v)), ("q-times-unit", lambda: a * r2.Unit(v)), ("unit-lt", lambda: r1.Unit(u) < r2.Unit(u))):
        try:
            op()
        except ValueError:
            eng.prove(True, f"{name}:raises-ValueError")
            continue
        eng.fail(f"{name}:combined-silently")
    try:
        a.to(r2.Unit(v))
    except ValueError:
        eng.prove(True, "to-foreign-unit:raises-ValueError")
    except Exception as ex:  # noqa: BLE001
        eng.note(f"to foreign unit raised {type(ex).__name__}")


def _mutable_ids(root):
    """ids of every mutable container reachable from a registry (dicts, lists, sets, deques and
    the attribute dicts of plain objects); classes, modules, functions, loggers, locks and numbers
    are not followed"""
    import collections
    import logging
    import types

    out, seen, todo = {}, set(), [(root, "registry")]
    skip = (type, types.ModuleType, types.FunctionType, types.BuiltinFunctionType, types.MethodType, logging.Logger, str, bytes, int, float, complex, bool, type(None))
    while todo:
        obj, path = todo.pop()
        if id(obj) in seen or isinstance(obj, skip) or type(obj).__module__.startswith(("z3", "pvlib", "fractions", "decimal", "_thread", "threading", "re")):
            continue
        seen.add(id(obj))
        if isinstance(obj, (dict, collections.ChainMap)):
            out[id(obj)] = path
            maps = obj.maps if isinstance(obj, collections.ChainMap) else [obj]
            for mp in maps:
                if mp is not obj:
                    todo.append((mp, path + ".maps"))
                    continue
                for k, v in list(mp.items()):
                    todo.append((k, path + f"<key {k!r:.20}>"))
                    todo.append((v, path + f"[{k!r:.20}]"))
        elif isinstance(obj, (list, set, collections.deque)):
            out[id(obj)] = path
            for i, v in enumerate(list(obj)):
                todo.append((v, path + f"[{i}]"))
        elif isinstance(obj, (tuple, frozenset)):
            for i, v in enumerate(obj):
                todo.append((v, path + f"({i})"))
        elif hasattr(obj, "__dict__"):
            out[id(obj)] = path
            for k, v in list(vars(obj).items()):
                todo.append((v, path + "." + k))
        elif hasattr(type(obj), "__slots__"):
            for k in getattr(type(obj), "__slots__", ()):
                if hasattr(obj, k):
                    todo.append((getattr(obj, k), path + "." + k))
    return out


def h_deepcopy_registry(eng):
    s1, s2, k = eng.real("s1"), eng.real("s2"), eng.real("k")
    for v in (s1, s2, k):
        eng.assume(v > 0)
    eng.assume(Not(Eq(s1, s2)))
    L = eng.lit
    lines = ["m = [length]", "s = [time]", "kk- = 1000", f"u = {L(s1)} * m", "@context c", f"    [length] -> [time]: value * {L(k)} * s / m", "@end"]
    src = pint.UnitRegistry(lines, non_int_type=eng.ntype)
    x = eng.real("x")
    src.Quantity(x, "kku").to("m")  # populate caches and the lazy prefixed unit
    cp = copy.deepcopy(src)
    eng.prove(cp is not src and cp._units is not src._units and cp._cache is not src._cache, "copy-shares-no-tables")
    # ... nor any other mutable object, however deep (definitions are frozen and may be shared)
    ma, mb = _mutable_ids(src), _mutable_ids(cp)
    shared = sorted(ma[i] for i in set(ma) & set(mb))
    shared = [pth for pth in shared if not _frozen_path(pth)]
    if shared:
        eng.fail("copy-shares-a-mutable-object", detail="; ".join(shared[:6]))
    eng.prove(not shared, "copy-shares-no-mutable-object")
    eng.prove(Eq(cp.Quantity(x, "kku").to("m").magnitude, 1000 * s1 * x), "copy-answers-like-source")
    # evolve the copy
    cp.define(f"w = {L(s2)} * m")
    cp.enable_contexts("c")
    eng.prove(Eq(cp.Quantity(x, "w").to("m").magnitude, s2 * x), "copy-has-new-unit")
    eng.prove("w" not in src, "source-lacks-copys-unit")
    try:
        src.Quantity(x, "m").to("s")
    except pint.DimensionalityError:
        eng.prove(True, "source-context-not-enabled")
    else:
        eng.fail("context-leaked-to-source")
    # a unit whose name differs from an existing one in letter case only, defined in the copy
    cp.define(f"U = {L(s2 * 5)} * m")
    eng.prove(str(src.parse_units("U", case_sensitive=False)) == "u" and str(src.parse_units("u", case_sensitive=False)) == "u", "source-case-insensitive-lookup-unaffected-by-copy")
    eng.prove("U" not in src, "source-lacks-copys-case-variant")
    # evolve the source
    src.define(f"S = {L(s2 * 7)} * s")
    eng.prove(str(cp.parse_units("S", case_sensitive=False)) == "s" and "S" not in cp, "copy-case-insensitive-lookup-unaffected-by-source")
    src.define(f"v = {L(s2 * 3)} * m")
    eng.prove("v" not in cp, "copy-lacks-sources-unit")
    eng.prove(Eq(cp.Quantity(x, "m").to("s").magnitude, k * x), "copy-context-still-active")
    # objects of the two do not mix
    try:
        src.Quantity(x, "m") + cp.Quantity(x, "m")
    except ValueError:
        eng.prove(True, "copy-objects-do-not-mix")
    else:
        eng.fail("copy-objects-mix")
    # ... in any combination of units and quantities, in both orders, also through a second copy
    import operator

    cp2 = copy.deepcopy(cp)
    for tag, r1, r2 in (("src-copy", src, cp), ("copy-src", cp, src), ("src-copy2", src, cp2), ("copy2-src", cp2, src), ("copy-copy2", cp, cp2), ("copy2-copy", cp2, cp)):
        operands = {
            "unit*unit": lambda: r1.Unit("m") * r2.Unit("s"),
            "unit/unit": lambda: r1.Unit("m") / r2.Unit("s"),
            "unit*quantity": lambda: r1.Unit("m") * r2.Quantity(x, "s"),
            "quantity*unit": lambda: r1.Quantity(x, "m") * r2.Unit("s"),
            "quantity/unit": lambda: r1.Quantity(x, "m") / r2.Unit("s"),
            "unit/quantity": lambda: r1.Unit("m") / r2.Quantity(1, "s"),
            "unit<unit": lambda: r1.Unit("m") < r2.Unit("u"),
            "quantity-quantity": lambda: r1.Quantity(x, "m") - r2.Quantity(x, "m"),
        }
        for oname, fn in operands.items():
            try:
                fn()
            except ValueError:
                eng.prove(True, f"no-mixing:{tag}:{oname}")
            else:
                eng.fail(f"mixed-silently:{tag}:{oname}", stop=False)


def _frozen_path(pth):
    """objects that are immutable by construction although they have an attribute dict
    (frozen dataclasses of definitions and converters)"""
    return False


def h_lazy(eng):
    """the lazily built default registry behaves like an explicitly built one"""
    from pint.registry import ApplicationRegistry, LazyRegistry

    lazy = LazyRegistry(kwargs=dict(non_int_type=eng.ntype))
    app = ApplicationRegistry(lazy)
    ref = regs.default(eng)
    x = eng.real("x")
    for u, v in (("inch", "centimeter"), ("mile", "meter"), ("degC", "kelvin")):
        a = app.Quantity(x, u).to(v)
        b = ref.Quantity(x, u).to(v)
        eng.prove(Eq(a.magnitude, b.magnitude), f"lazy:{u}->{v}")
    eng.prove("kilometer" in app and "nosuchunit" not in app, "lazy:contains")
    eng.prove(type(lazy).__name__ == "UnitRegistry", "lazy:became-a-registry")
    # the first thing done to a lazy registry may be an assignment of an option: it takes effect
    # exactly as on an explicitly built registry
    import pint

    def observe(reg):
        q = reg.Quantity(x, "inch")
        b = q.to_base_units()
        return (str(b.units), format(reg.Unit("meter/second")), reg.default_system, reg.default_format, reg.autoconvert_offset_to_baseunit, str(reg.get_base_units("mile")[1]))

    for attr, value in (("default_system", "cgs"), ("default_system", "imperial"), ("default_format", "~P"), ("default_format", "C"), ("autoconvert_offset_to_baseunit", True), ("force_ndarray_like", False)):
        lz = LazyRegistry(kwargs=dict(non_int_type=eng.ntype))
        setattr(lz, attr, value)  # first touch
        explicit = pint.UnitRegistry(non_int_type=eng.ntype)
        setattr(explicit, attr, value)
        eng.prove(observe(lz) == observe(explicit), f"lazy:first-touch-assignment:{attr}={value}")
        eng.prove(getattr(lz, attr) == value, f"lazy:first-touch-assignment-reads-back:{attr}={value}")
        eng.prove(Eq(lz.Quantity(x, "inch").to_base_units().magnitude, explicit.Quantity(x, "inch").to_base_units().magnitude), f"lazy:first-touch-assignment:value:{attr}={value}")
        # through the application-registry proxy as well
        lz2 = LazyRegistry(kwargs=dict(non_int_type=eng.ntype))
        app2 = ApplicationRegistry(lz2)
        setattr(app2, attr, value)
        eng.prove(observe(app2) == observe(explicit), f"lazy:first-touch-assignment-through-proxy:{attr}={value}")


def h_exceptions(eng):
    """exception types survive pickling with type, fields and message"""
    ureg = regs.default(eng)
    uc = UnitsContainer({"meter": 1})
    samples = [
        perr.DimensionalityError("meter", "second", "[length]", "[time]", " extra"),
        perr.DimensionalityError(uc, "second"),
        perr.UndefinedUnitError("foo"),
        perr.UndefinedUnitError(("foo", "bar")),
        perr.OffsetUnitCalculusError("degC", "kelvin"),
        perr.OffsetUnitCalculusError("degC"),
        perr.LogarithmicUnitCalculusError("dB", "m"),
        perr.LogarithmicUnitCalculusError("dB"),
        perr.DefinitionSyntaxError("bad line"),
        perr.RedefinitionError("meter", str),
        perr.DefinitionError("meter", str, "no good"),
        perr.UnitStrippedWarning("stripped"),
        perr.UndefinedBehavior("hm"),
    ]
    # falsy second arguments are values like any other; also what the library itself raises
    for cls in (perr.OffsetUnitCalculusError, perr.LogarithmicUnitCalculusError):
        for u2 in ("", 0, UnitsContainer({}), None, uc, 0.0, ()):
            samples.append(cls(uc, u2))
            samples.append(cls("degC", u2))
    for cls in (perr.DimensionalityError,):
        for a in ("", 0, UnitsContainer({}), None):
            samples.append(cls("meter", a, a, a, a if isinstance(a, str) else ""))
    for fn in (lambda: ureg.Quantity(1, "degC") * 2, lambda: ureg.Quantity(1, "degC") * ureg.Quantity(1, "meter"), lambda: ureg.Quantity(1, "degC") ** 2, lambda: ureg.Quantity(1, "dBm") * ureg.Quantity(1, "meter"),
               lambda: ureg.Quantity(1, "dBm") * 2, lambda: ureg.Quantity(1, "meter").to("second"), lambda: ureg.Quantity(1, "meter").to("dimensionless"), lambda: ureg.Quantity(1, "meter").to("percent"), lambda: ureg.Quantity(1, "").to("second"), lambda: ureg.Quantity(1, "meter") + 1, lambda: ureg.parse_units("nosuchunit")):  # fmt: skip
        try:
            fn()
        except perr.PintError as ex:
            samples.append(ex)
    import copy

    for ex in samples:
        name = type(ex).__name__
        for cname, cp in (("copy", copy.copy), ("deepcopy", copy.deepcopy)):
            got = cp(ex)
            typed = lambda e_: {k: (type(v).__name__, repr(v)) for k, v in vars(e_).items()}  # noqa: E731 - (== between a container and a string is lenient)
            eng.prove(type(got) is type(ex) and str(got) == str(ex) and vars(got) == vars(ex) and typed(got) == typed(ex), f"{name}:{cname}:type-message-fields")
        for proto in range(0, pickle.HIGHEST_PROTOCOL + 1):
            got = pickle.loads(pickle.dumps(ex, proto))
            name = type(ex).__name__
            eng.prove(type(got) is type(ex), f"{name}:type:p{proto}")
            eng.prove(str(got) == str(ex), f"{name}:message:p{proto}")
            fields = {k: v for k, v in vars(ex).items()}
            eng.prove({k: v for k, v in vars(got).items()} == fields, f"{name}:fields:p{proto}")
            eng.prove({k: (type(v).__name__, repr(v)) for k, v in vars(got).items()} == {k: (type(v).__name__, repr(v)) for k, v in fields.items()}, f"{name}:field-types:p{proto}")


def h_measurement_roundtrip(eng):
    """Measurement objects (float registry, real uncertainties package): copy, deepcopy and
    pickle keep value, error and units and re-attach to the application registry"""
    import math

    src = regs.float_default()
    app = pint.UnitRegistry()
    old = pint.get_application_registry().get()
    pint.set_application_registry(app)
    try:
        for v, e, unit in ((4.0, 0.25, "second ** 2"), (-1234.5, 2.5, "kilometer / hour"), (2.5e-7, 5e-9, "newton"), (0.0, 4e-05, "meter")):
            m = src.Measurement(v, e, unit)
            hows = [("copy", copy.copy), ("deepcopy", copy.deepcopy)] + [(f"pickle:{p}", (lambda p: lambda o: pickle.loads(pickle.dumps(o, p)))(p)) for p in range(0, pickle.HIGHEST_PROTOCOL + 1)]
            for how, fn in hows:
                try:
                    m2 = fn(m)
                except Exception as ex:  # noqa: BLE001
                    eng.fail(f"measurement:{how}:raises", detail=f"{type(ex).__name__}: {ex}", stop=False)
                    continue
                home = app if how.startswith("pickle") else src
                eng.prove(type(m2).__name__ == "Measurement", f"measurement:{how}:type")
                eng.prove(math.isclose(m2.value.magnitude, v, rel_tol=0, abs_tol=0) and math.isclose(m2.error.magnitude, e, rel_tol=0, abs_tol=0), f"measurement:{how}:value-and-error")
                eng.prove(dict(m2._units) == dict(m._units), f"measurement:{how}:units")
                eng.prove(m2._REGISTRY is home, f"measurement:{how}:registry")
                eng.prove(m2 is not m, f"measurement:{how}:new-object")
            eng.prove(m.value.magnitude == v and m.error.magnitude == e, "measurement:original-untouched")
    finally:
        pint.set_application_registry(old)


_CHILD_UNPICKLE = r"""
import pickle, sys, json
import pint
blobs = pickle.load(open(sys.argv[1], "rb"))
ureg = pint.get_application_registry()
out = {}
for label, (spec, blob) in blobs.items():
    obj = pickle.loads(blob)
    kind, mag, units = spec
    fresh = ureg.Unit(units) if kind == "unit" else (ureg.Quantity(mag, units) if kind == "quantity" else pint.util.UnitsContainer(units))
    table = {fresh: "found"}
    setof = {fresh}
    out[label] = [bool(obj == fresh), bool(fresh == obj), hash(obj) == hash(fresh), table.get(obj) == "found", obj in setof,
                  str(getattr(obj, "units", obj)) == str(getattr(fresh, "units", fresh))]
print(json.dumps(out, sort_keys=True))
"""


def h_pickle_across_processes(eng):
    """a pickle is read by another interpreter (another string hash seed): the objects equal, hash
    like and are found under the identical objects built there -- also when they had been hashed
    (used as keys, compared, converted) before they were pickled"""
    import json
    import os
    import shutil
    import subprocess
    import sys
    import tempfile

    src = regs.float_default()
    blobs = {}
    specs = [("unit", None, "kilometer / hour"), ("unit", None, "newton * meter ** 2"), ("quantity", 2.5, "millisecond"), ("quantity", 3, "meter / second ** 2"), ("container", None, {"meter": 1, "second": -2})]
    for kind, mag, units in specs:
        obj = src.Unit(units) if kind == "unit" else (src.Quantity(mag, units) if kind == "quantity" else pint.util.UnitsContainer(units))
        for used in ("fresh", "hashed"):
            if used == "hashed":
                hash(obj)
                {obj: 1}
                if kind == "quantity":
                    obj.to_base_units()
                    hash(obj._units)
                elif kind == "unit":
                    hash(obj._units)
                    obj == src.Unit(units)
            for proto in (0, 2, pickle.HIGHEST_PROTOCOL):
                blobs[f"{kind}:{units}:{used}:p{proto}"] = ((kind, mag, units), pickle.dumps(obj, proto))
    tmp = tempfile.mkdtemp(prefix="pv_c18x_")
    try:
        fn = os.path.join(tmp, "blobs.pkl")
        with open(fn, "wb") as f:
            pickle.dump(blobs, f)
        for seed in (21, 22):
            env = dict(os.environ, PYTHONPATH="/repo", PYTHONHASHSEED=str(seed))
            r = subprocess.run([sys.executable, "-c", _CHILD_UNPICKLE, fn], capture_output=True, text=True, env=env, cwd=tmp, timeout=300)
            if r.returncode != 0:
                eng.fail(f"pickle-across-processes:seed{seed}:reader-failed", detail=r.stderr[-300:], stop=False)
                continue
            res = json.loads(r.stdout.strip().splitlines()[-1])
            for label, flags in sorted(res.items()):
                for name, ok in zip(("eq", "eq-reflected", "hash", "dict-lookup", "set-membership", "same-text"), flags):
                    eng.prove(ok, f"pickle-across-processes:seed{seed}:{label}:{name}")
    finally:
        shutil.rmtree(tmp, ignore_errors=True)


def h_roundtrip_then_algebra(eng):
    """a round-tripped unit or quantity takes part in unit algebra like the original: dividing by
    a unit with a non-integer exponent keeps that exponent"""
    ureg = regs.float_default()
    hows = [("copy", copy.copy), ("deepcopy", copy.deepcopy)] + [(f"pickle:{p}", (lambda p: lambda o: pickle.loads(pickle.dumps(o, p)))(p)) for p in range(0, pickle.HIGHEST_PROTOCOL + 1)]
    old = pint.get_application_registry().get()
    pint.set_application_registry(ureg)
    try:
        root = ureg.Unit("hertz") ** 0.5
        for how, fn in hows:
            for label, obj in (("unit", ureg.Unit("volt")), ("quantity", ureg.Quantity(2.5, "volt")), ("container", ureg.UnitsContainer({"volt": 1}))):
                rt = fn(obj)
                want = (obj / root) if label != "container" else (obj / root._units)
                got = (rt / root) if label != "container" else (rt / root._units)
                wu = want._units if hasattr(want, "_units") else want
                gu = got._units if hasattr(got, "_units") else got
                eng.prove(dict(gu) == dict(wu) == {"volt": 1, "hertz": -0.5}, f"roundtrip-then-divide:{how}:{label}")
                gm = rt * root if label != "container" else rt * root._units
                gmu = gm._units if hasattr(gm, "_units") else gm
                eng.prove(dict(gmu) == {"volt": 1, "hertz": 0.5}, f"roundtrip-then-multiply:{how}:{label}")
                cont = rt._units if hasattr(rt, "_units") else rt
                eng.prove(cont._non_int_type is float, f"roundtrip:{how}:{label}:numeric-type-of-the-container")
    finally:
        pint.set_application_registry(old)


def h_deepcopy_groups_systems(eng):
    """the groups and systems of a deep-copied registry are the copy's own: they belong to it,
    edits to them are seen by the copy (and only by the copy), new ones can be made"""
    src = pint.UnitRegistry()
    cp = copy.deepcopy(src)
    P = eng.prove
    P(all(g._REGISTRY is cp for g in cp._groups.values()), "deepcopy:groups-belong-to-the-copy")
    P(all(s._REGISTRY is cp for s in cp._systems.values()), "deepcopy:systems-belong-to-the-copy")
    P(all(g._REGISTRY is src for g in src._groups.values()) and all(s._REGISTRY is src for s in src._systems.values()), "deepcopy:source-keeps-its-own")
    cp.define("smoot = 1.7 * meter")
    cp.get_group("ImperialVolume").add_units("smoot")
    P("smoot" in cp.get_system("imperial").members, "deepcopy:group-edit-reaches-the-copy's-system")
    P("smoot" not in src.get_system("imperial").members and "smoot" not in src, "deepcopy:group-edit-does-not-reach-the-source")
    try:
        g = cp.get_group("newgrp")
        g.add_units("smoot")
        P("newgrp" in cp._groups and "newgrp" not in src._groups and "smoot" in g.members, "deepcopy:new-group-in-the-copy")
    except KeyError:
        eng.fail("deepcopy:new-group-in-the-copy-raises-KeyError", stop=False)
    cp.default_system = "imperial"
    P(str(cp.Quantity(1.0, "meter").to_base_units().units) == "yard" and str(src.Quantity(1.0, "meter").to_base_units().units) == "meter", "deepcopy:default-system-independent")
    src.get_group("USCSLengthInternational").remove_units("inch")
    P("inch" in cp.get_group("USCSLengthInternational").members and "inch" not in src.get_group("USCSLengthInternational").members, "deepcopy:source-edit-does-not-reach-the-copy")


def h_lazy_first_touch_queries(eng):
    """first touch of a lazy registry by `in`, iteration, len-like questions"""
    from pint.registry import LazyRegistry

    for label, fn, want in (("in", lambda: "meter" in LazyRegistry(), True), ("not-in", lambda: "nosuchunit" in LazyRegistry(), False), ("iter", lambda: "meter" in set(LazyRegistry()), True)):
        try:
            eng.prove(fn() == want, f"lazy:first-touch:{label}")
        except Exception as ex:  # noqa: BLE001
            eng.fail(f"lazy:first-touch:{label}:raises-{type(ex).__name__}", stop=False)


def h_deepcopy_measurements(eng):
    """a deep-copied registry makes its own measurements: they follow the copy's definitions and
    do not mix with the source's objects"""
    import math

    src = pint.UnitRegistry()
    src.define("cubit = 0.45 * meter")
    cp = copy.deepcopy(src)
    cp.define("span = 0.26 * meter")
    import logging

    logging.getLogger("pint").setLevel(logging.CRITICAL)
    cp._on_redefinition = "ignore"
    cp.define("cubit = 0.52 * meter")
    cp._build_cache()
    for label, m in (("Measurement()", cp.Measurement(10.0, 1.0, "cubit")), ("plus_minus", cp.Quantity(10.0, "cubit").plus_minus(1.0))):
        eng.prove(m._REGISTRY is cp, f"deepcopy-measurement:{label}:belongs-to-the-copy")
        eng.prove(math.isclose(m.to("meter").value.magnitude, 5.2, rel_tol=1e-12), f"deepcopy-measurement:{label}:converts-with-the-copy's-definitions")
        for oname, fn in (("add", lambda: m + src.Quantity(1.0, "meter")), ("lt", lambda: m < src.Quantity(1.0, "meter")), ("mul", lambda: m * src.Measurement(1.0, 0.1, "meter")), ("sub", lambda: src.Measurement(1.0, 0.1, "meter") - m)):
            try:
                fn()
            except ValueError:
                eng.prove(True, f"deepcopy-measurement:{label}:{oname}:mixing-with-the-source-raises")
            else:
                eng.fail(f"deepcopy-measurement:{label}:{oname}:mixed-silently-with-the-source", stop=False)
        try:
            r = m + cp.Quantity(1.0, "span")
            eng.prove(math.isclose(r.to("meter").value.magnitude, 5.46, rel_tol=1e-12), f"deepcopy-measurement:{label}:combines-with-the-copy's-quantities")
        except ValueError:
            eng.fail(f"deepcopy-measurement:{label}:refuses-the-copy's-own-quantities", stop=False)
    m0 = src.Measurement(10.0, 1.0, "cubit")
    eng.prove(m0._REGISTRY is src and math.isclose(m0.to("meter").value.magnitude, 4.5, rel_tol=1e-12), "deepcopy-measurement:source-unaffected")


MIN_DISCHARGED = {"H18.a": 1500, "H18.b": 30, "H18.c": 8}


def cases(tier, seed):
    big = tier == "thorough"
    rnd = random.Random(f"c18:{seed}")
    out = []
    cov = covers.cover(kinds=("base", "mult", "dimensionless"))
    lists = [["meter"], ["kilometer", "second"], ["millinewton"], ["inch", "kilohertz"]] + [rnd.sample(cov, rnd.choice([1, 2])) for _ in range(6 if big else 1)]
    hows = ["copy", "deepcopy", "tuple"] + [f"pickle:{p}" for p in range(0, pickle.HIGHEST_PROTOCOL + 1)]
    for names in lists:
        for how in hows:
            out.append(Case("H18.a", f"{how}:{'*'.join(names)}", M, "h_roundtrip", {"names": names, "how": how}, opts={"max_paths": 300}, validate=1, weight=float(4 ** len(names)) * 20))
            if len(names) <= 2:
                out.append(Case("H18.a", f"{how}:{'*'.join(names)}:frac", M, "h_roundtrip", {"names": names, "how": how, "frac": True}, opts={"max_paths": 300}, validate=1, weight=float(4 ** len(names)) * 20))
    for u, v in [("meter", "meter"), ("second", "hour"), ("newton", "gram")]:
        out.append(Case("H18.b", f"{u},{v}", M, "h_two_registries", {"u": u, "v": v}, validate=0, weight=30.0))
    out.append(Case("H18.c", "deepcopy-registry", M, "h_deepcopy_registry", {}, opts={"hash_mode": "mixed"}, validate=1, weight=10.0))
    out.append(Case("H18.d", "lazy-registry", M, "h_lazy", {}, validate=0, weight=30.0))
    out.append(Case("H18.e", "exceptions", M, "h_exceptions", {}, kind="conc"))
    out.append(Case("H18.e", "measurement", M, "h_measurement_roundtrip", {}, kind="conc"))
    out.append(Case("H18.e", "pickle-across-processes", M, "h_pickle_across_processes", {}, kind="conc"))
    out.append(Case("H18.c", "deepcopy-measurements", M, "h_deepcopy_measurements", {}, kind="conc"))
    out.append(Case("H18.c", "deepcopy-groups-systems", M, "h_deepcopy_groups_systems", {}, kind="conc"))
    out.append(Case("H18.a", "roundtrip-then-algebra", M, "h_roundtrip_then_algebra", {}, kind="conc"))
    out.append(Case("H18.d", "lazy-first-touch-queries", M, "h_lazy_first_touch_queries", {}, kind="conc"))
    out.append(Case("H18.obs", "observed", "pvlib.harness.observed", "h_c18", {}, kind="conc"))
    return out
