"""C16 -- NumPy functions on quantity arrays respect units.

Arrays are dtype=object arrays of symbolic numbers (length 3, rank 1; rank 2 for a few), so
NumPy's own element loops call the symbolic arithmetic and comparisons (sort, clip, maximum,
where ... fork on the symbolic order).  The allow-list below is the set of functions that
accept object dtype through pint on the unchanged tree: a function that stops working is an
error, not a silent drop.  Everything NumPy computes in C on floats is outside."""

from __future__ import annotations

import random
from fractions import Fraction

import numpy as np
from pint.errors import DimensionalityError, OffsetUnitCalculusError

from .. import covers, regs
from ..runner import Case
from ..sx.q import And, Eq, Iff, Not

PROPERTY = "C16"
M = "pvlib.harness.c16"

META = {
    "explanation": "NumPy functions / ufuncs / ndarray methods applied through pint's __array_ufunc__ / __array_function__ to object-dtype arrays of symbolic numbers: the result with inputs in units (u, v) is "
    "proved equal, element by element and for all element values, to the result with the same inputs re-expressed in (u', v'); the output unit is compared with the table of mathematically implied units; "
    "incompatible inputs must raise DimensionalityError; input arrays must be unchanged.",
    "functions_encoded": [
        "pint/facets/numpy/numpy_func.py::convert_arg, convert_to_consistent_units, unwrap_and_wrap_consistent_units, get_op_output_unit, implement_func, implement_mul_func, _where, _isin, _pad, _prod, _trapz, _copyto, numpy_wrap",
        "pint/facets/numpy/quantity.py::__array_ufunc__, __array_function__, _numpy_method_wrap, __getattr__, clip, searchsorted",
    ],
    "bounds": {"arrays": "object dtype, length 3 (rank 2: 2x2 for dot/matmul/transpose), elements all rationals (symbolic)", "functions": "the allow-list FUNCS (about 60 entries)"},
    "enumerated_axes": [{"axis": "function x unit setting", "exhaustive": False}],
    "stubs": [],
    "outside_claim": ["sqrt / std (irrational unit factors make covariance inexact)", "all float-dtype computation inside NumPy (trigonometry, exp/log, isclose, interp, gradient, einsum, around ...)", "force_ndarray / force_ndarray_like", "ranks above 2", "keyword forms other than axis / initial / where shown below"],
}

U = {"L": ("meter", "inch"), "L2": ("kilometer", "foot"), "T": ("second", "hour")}


def _arr(eng, tag, n=3):
    return np.array([eng.real(f"{tag}{i}") for i in range(n)], dtype=object)


def _root(q):
    r = q.to_root_units()
    return r.magnitude, r.dimensionality


def _same(eng, r1, r2, label):
    if isinstance(r1, (tuple, list)) and not hasattr(r1, "_units"):
        eng.prove(isinstance(r2, (tuple, list)) and len(r1) == len(r2), label + ":container-shape")
        for i, (a, b) in enumerate(zip(r1, r2)):
            _same(eng, a, b, f"{label}[{i}]")
        return
    q1, q2 = hasattr(r1, "_units"), hasattr(r2, "_units")
    eng.prove(q1 == q2, label + ":both-quantities-or-both-bare")
    if q1 and q2:
        m1, d1 = _root(r1)
        m2, d2 = _root(r2)
        eng.prove(dict(d1) == dict(d2), label + ":dimensionality")
        a1, a2 = np.asarray(m1, dtype=object).ravel(), np.asarray(m2, dtype=object).ravel()
        eng.prove(len(a1) == len(a2), label + ":shape")
        for i, (x, y) in enumerate(zip(a1, a2)):
            eng.prove(Eq(x, y), f"{label}:value[{i}]")
    elif not q1 and not q2:
        a1, a2 = np.asarray(r1, dtype=object).ravel(), np.asarray(r2, dtype=object).ravel()
        eng.prove(len(a1) == len(a2), label + ":shape")
        for i, (x, y) in enumerate(zip(a1, a2)):
            try:
                eng.prove(Iff(x, y), f"{label}:bare[{i}]")
            except TypeError:
                eng.prove(Eq(x, y), f"{label}:bare[{i}]")


# name -> (arity, callable(A, B), output-unit rule)
#   rule: 'a' unit of A, 'ab' product, 'a/b' quotient, 'a2' square, 'sqrt' half, 'a^n' power n, 'bare'
FUNCS = {
    "add": (2, lambda A, B: np.add(A, B), "a"),
    "subtract": (2, lambda A, B: np.subtract(A, B), "a"),
    "multiply": (2, lambda A, B: np.multiply(A, B), "ab"),
    "negative": (1, lambda A, B: np.negative(A), "a"),
    "positive": (1, lambda A, B: np.positive(A), "a"),
    "absolute": (1, lambda A, B: np.absolute(A), "a"),
    "square": (1, lambda A, B: np.square(A), "a2"),
    "maximum": (2, lambda A, B: np.maximum(A, B), "a"),
    "minimum": (2, lambda A, B: np.minimum(A, B), "a"),
    "equal": (2, lambda A, B: np.equal(A, B), "bare"),
    "not_equal": (2, lambda A, B: np.not_equal(A, B), "bare"),
    "less": (2, lambda A, B: np.less(A, B), "bare"),
    "less_equal": (2, lambda A, B: np.less_equal(A, B), "bare"),
    "greater": (2, lambda A, B: np.greater(A, B), "bare"),
    "greater_equal": (2, lambda A, B: np.greater_equal(A, B), "bare"),
    "sum": (1, lambda A, B: np.sum(A), "a"),
    "sum-initial": (2, lambda A, B: np.sum(A, initial=B[0]), "a"),
    "cumsum": (1, lambda A, B: np.cumsum(A), "a"),
    "nansum": (1, lambda A, B: np.nansum(A), "a"),
    "mean": (1, lambda A, B: np.mean(A), "a"),
    "average": (1, lambda A, B: np.average(A), "a"),
    "median": (1, lambda A, B: np.median(A), "a"),
    "var": (1, lambda A, B: np.var(A), "a2"),
    "prod": (1, lambda A, B: np.prod(A), "a^n"),
    "cumprod-dimensionless": (0, None, None),
    "max": (1, lambda A, B: np.max(A), "a"),
    "min": (1, lambda A, B: np.min(A), "a"),
    "amax": (1, lambda A, B: np.amax(A), "a"),
    "ptp": (1, lambda A, B: np.ptp(A), "a"),
    "argmax": (1, lambda A, B: np.argmax(A), "bare"),
    "argmin": (1, lambda A, B: np.argmin(A), "bare"),
    "argsort": (1, lambda A, B: np.argsort(A), "bare"),
    "sort": (1, lambda A, B: np.sort(A), "a"),
    "diff": (1, lambda A, B: np.diff(A), "a"),
    "ediff1d": (1, lambda A, B: np.ediff1d(A), "a"),
    "clip": (2, lambda A, B: np.clip(A, B[0], B[0] + abs(B[1])), "a"),
    "method-clip": (2, lambda A, B: A.clip(B[0], B[0] + abs(B[1])), "a"),
    "where": (2, lambda A, B: np.where(A > B, A, B), "a"),
    "concatenate": (2, lambda A, B: np.concatenate([A, B]), "a"),
    "hstack": (2, lambda A, B: np.hstack([A, B]), "a"),
    "vstack": (2, lambda A, B: np.vstack([A, B]), "a"),
    "stack": (2, lambda A, B: np.stack([A, B]), "a"),
    "append": (2, lambda A, B: np.append(A, B), "a"),
    "dot": (2, lambda A, B: np.dot(A, B), "ab"),
    "cross": (2, lambda A, B: np.cross(A, B), "ab"),
    "matmul": (2, lambda A, B: np.matmul(A, B), "ab"),
    "trapezoid": (2, lambda A, B: np.trapezoid(A, B), "ab"),
    "isin": (2, lambda A, B: np.isin(A, B), "bare"),
    "searchsorted": (2, lambda A, B: np.searchsorted(np.sort(A), B[0]), "bare"),
    "count_nonzero": (1, lambda A, B: np.count_nonzero(A), "bare"),
    "nonzero": (1, lambda A, B: np.nonzero(A), "bare"),
    "any": (1, lambda A, B: np.any(A), "bare"),
    "all": (1, lambda A, B: np.all(A), "bare"),
    "roll": (1, lambda A, B: np.roll(A, 1), "a"),
    "flip": (1, lambda A, B: np.flip(A), "a"),
    "ravel": (1, lambda A, B: np.ravel(A), "a"),
    "transpose": (1, lambda A, B: np.transpose(A), "a"),
    "tile": (1, lambda A, B: np.tile(A, 2), "a"),
    "delete": (1, lambda A, B: np.delete(A, 1), "a"),
    "pad": (2, lambda A, B: np.pad(A, 1, constant_values=B[0]), "a"),
    "full_like": (2, lambda A, B: np.full_like(A, B[0]), "b"),
    "linspace": (2, lambda A, B: np.linspace(A[0], B[0], 3), "a"),
    "method-sum": (1, lambda A, B: A.sum(), "a"),
    "method-mean": (1, lambda A, B: A.mean(), "a"),
    "method-cumsum": (1, lambda A, B: A.cumsum(), "a"),
    "method-max": (1, lambda A, B: A.max(), "a"),
    "method-dot": (2, lambda A, B: A.dot(B), "ab"),
    "method-prod": (1, lambda A, B: A.prod(), "a^n"),
    "method-var": (1, lambda A, B: A.var(), "a2"),
    "getitem": (1, lambda A, B: A[1], "a"),
    "iter": (1, lambda A, B: list(A)[2], "a"),
}
del FUNCS["cumprod-dimensionless"]

SAME_DIM_REQUIRED = {"add", "subtract", "maximum", "minimum", "equal", "not_equal", "less", "less_equal", "greater", "greater_equal", "sum-initial", "clip", "method-clip", "where", "concatenate", "hstack", "vstack", "stack", "append", "isin", "searchsorted", "pad", "linspace"}


def _expected_unit(ureg, rule, ua, ub, n):
    A, B = ureg.Unit(ua), ureg.Unit(ub)
    return {"a": A, "b": B, "ab": A * B, "a/b": A / B, "a2": A**2, "sqrt": A**0.5, "a^n": A**n, "bare": None}[rule]


def h_func(eng, name, ua, ua2, ub, ub2):
    ureg = regs.default(eng)
    arity, f, rule = FUNCS[name]
    a, b = _arr(eng, "a"), _arr(eng, "b")
    if name in ("sqrt", "std"):
        for x in a:
            eng.assume(x >= 0)
    A, B = ureg.Quantity(a.copy(), ua), ureg.Quantity(b.copy(), ub)
    A2, B2 = A.to(ua2), B.to(ub2)
    keepA, keepB = list(A.magnitude), list(B.magnitude)
    r1 = f(A, B)
    r2 = f(A2, B2)
    _same(eng, r1, r2, name)
    # output unit = the mathematically implied unit
    want = _expected_unit(ureg, rule, ua, ub, 3)
    if want is None:
        first = r1[0] if isinstance(r1, tuple) else r1
        eng.prove(not hasattr(first, "_units"), f"{name}:result-is-bare")
    else:
        eng.prove(hasattr(r1, "_units"), f"{name}:result-is-quantity")
        if hasattr(r1, "_units"):
            eng.prove(dict(r1.dimensionality) == dict((1 * want).dimensionality), f"{name}:implied-dimensionality")
            if rule in ("a", "a2", "a^n"):
                eng.prove(r1.units == want, f"{name}:implied-unit")
    # only explicitly in-place operations modify their inputs
    for i in range(3):
        eng.prove(And(Eq(A.magnitude[i], keepA[i]), Eq(B.magnitude[i], keepB[i])), f"{name}:inputs-unchanged[{i}]")
    eng.prove(str(A.units) == ua and str(B.units) == ub, f"{name}:input-units-unchanged")


def h_incompatible(eng, name, ua, ub):
    ureg = regs.default(eng)
    arity, f, rule = FUNCS[name]
    A, B = ureg.Quantity(_arr(eng, "a"), ua), ureg.Quantity(_arr(eng, "b"), ub)
    try:
        f(A, B)
    except DimensionalityError:
        eng.prove(True, f"{name}:incompatible-raises")
        return
    eng.fail(f"{name}:incompatible-accepted")


def h_offset_refused(eng, name):
    """offset units are refused where the operation would be ambiguous"""
    ureg = regs.default(eng)
    arity, f, rule = FUNCS[name]
    A, B = ureg.Quantity(_arr(eng, "a"), "degC"), ureg.Quantity(_arr(eng, "b"), "degC")
    try:
        f(A, B)
    except (OffsetUnitCalculusError, DimensionalityError):
        eng.prove(True, f"{name}:offset-refused")
        return
    eng.fail(f"{name}:offset-accepted")


def h_inplace(eng, ua, ub):
    """explicitly in-place operations modify exactly their target"""
    ureg = regs.default(eng)
    a, b = _arr(eng, "a"), _arr(eng, "b")
    A, B = ureg.Quantity(a.copy(), ua), ureg.Quantity(b.copy(), ub)
    inf = covers.infos()
    fa, fb = inf[ua].num, inf[ub].num
    keepB = list(B.magnitude)
    mag = A.magnitude
    A += B
    eng.prove(A.magnitude is mag, "iadd-same-buffer")
    for i in range(3):
        eng.prove(Eq(A.magnitude[i], a[i] + b[i] * fb / fa), f"iadd-value[{i}]")
        eng.prove(Eq(B.magnitude[i], keepB[i]), f"iadd-other-unchanged[{i}]")
    C = ureg.Quantity(a.copy(), ua)
    C[1] = B[0]
    eng.prove(Eq(C.magnitude[1], b[0] * fb / fa), "setitem-converts")
    eng.prove(Eq(C.magnitude[0], a[0]), "setitem-leaves-others")
    try:
        C[0] = ureg.Quantity(b[0], "gram")
    except DimensionalityError:
        eng.prove(True, "setitem-incompatible-raises")
    else:
        eng.fail("setitem-incompatible-accepted")
    D = ureg.Quantity(a.copy(), ua)
    np.copyto(D, B)
    for i in range(3):
        eng.prove(Eq(D.magnitude[i], b[i] * fb / fa), f"copyto-converts[{i}]")


MIN_DISCHARGED = {"H16.a": 1500, "H16.c": 20}


def cases(tier, seed):
    big = tier == "thorough"
    rnd = random.Random(f"c16:{seed}")
    out = []
    opts = {"max_paths": 3000, "query_timeout_ms": 20000}
    settings = [("meter", "inch", "meter", "foot"), ("kilometer", "meter", "inch", "mile")]
    if big:
        settings += [("second", "hour", "second", "minute"), ("newton", "dyne", "newton", "force_pound")]
    for name, (arity, f, rule) in FUNCS.items():
        for ua, ua2, ub, ub2 in settings if big else settings[:1] + ([settings[1]] if rnd.random() < 0.4 else []):
            if name not in SAME_DIM_REQUIRED and arity == 2 and rule in ("ab",):
                ub, ub2 = "second", "hour"
            out.append(Case("H16.a", f"{name}:{ua},{ub}->{ua2},{ub2}", M, "h_func", {"name": name, "ua": ua, "ua2": ua2, "ub": ub, "ub2": ub2}, opts=opts, validate=1, weight=4.0))
    for name in sorted(SAME_DIM_REQUIRED - {"isin", "searchsorted"}):
        out.append(Case("H16.c", f"incompatible:{name}", M, "h_incompatible", {"name": name, "ua": "meter", "ub": "second"}, opts=opts, validate=1))
    for name in ("add", "multiply", "dot", "prod", "square", "sum-initial"):
        out.append(Case("H16.c", f"offset:{name}", M, "h_offset_refused", {"name": name}, opts=opts, validate=0))
    out.append(Case("H16.d", "inplace:meter,inch", M, "h_inplace", {"ua": "meter", "ub": "inch"}, opts=opts, validate=1))
    out.append(Case("H16.d", "inplace:hour,second", M, "h_inplace", {"ua": "hour", "ub": "second"}, opts=opts, validate=1))
    return out
