"""C16 -- NumPy functions on quantity arrays respect units.

Arrays are dtype=object arrays of symbolic numbers (length 3, rank 1; rank 2 for a few), so
NumPy's own element loops call the symbolic arithmetic and comparisons (sort, clip, maximum,
where ... fork on the symbolic order).  The allow-list below is the set of functions that
accept object dtype through pint on the unchanged tree: a function that stops working is an
error, not a silent drop.  Everything NumPy computes in C on floats is outside."""

from __future__ import annotations

import operator
import random
from fractions import Fraction

import numpy as np
from pint.errors import DimensionalityError, OffsetUnitCalculusError

from .. import covers, regs
from ..runner import Case
from ..sx.q import And, Eq, Iff, Not

PROPERTY = "C16"
M = "pvlib.harness.c16"

META = {
    "explanation": "NumPy functions / ufuncs / ndarray methods applied through pint's __array_ufunc__ / __array_function__ to object-dtype arrays of symbolic numbers: the result with inputs in units (u, v) is "
    "proved equal, element by element and for all element values, to the result with the same inputs re-expressed in (u', v'); the output unit is compared with the table of mathematically implied units; "
    "incompatible inputs must raise DimensionalityError; input arrays must be unchanged.",
    "functions_encoded": [
        "pint/facets/numpy/numpy_func.py::convert_arg, convert_to_consistent_units, unwrap_and_wrap_consistent_units, get_op_output_unit, implement_func, implement_mul_func, _where, _isin, _pad, _prod, _trapz, _copyto, numpy_wrap",
        "pint/facets/numpy/quantity.py::__array_ufunc__, __array_function__, _numpy_method_wrap, __getattr__, clip, searchsorted",
    ],
    "bounds": {"arrays": "object dtype, length 3 (rank 2: 2x2 for dot/matmul/transpose), elements all rationals (symbolic)", "functions": "the allow-list FUNCS (about 60 entries)"},
    "enumerated_axes": [{"axis": "function x unit setting", "exhaustive": False}],
    "stubs": [],
    "outside_claim": ["sqrt / std (irrational unit factors make covariance inexact)", "all float-dtype computation inside NumPy (trigonometry, exp/log, isclose, interp, gradient, einsum, around ...)", "force_ndarray / force_ndarray_like", "ranks above 2", "keyword forms other than axis / initial / where shown below"],
}

U = {"L": ("meter", "inch"), "L2": ("kilometer", "foot"), "T": ("second", "hour")}


def _arr(eng, tag, n=3):
    return np.array([eng.real(f"{tag}{i}") for i in range(n)], dtype=object)


def _root(q):
    r = q.to_root_units()
    return r.magnitude, r.dimensionality


def _same(eng, r1, r2, label):
    if isinstance(r1, (tuple, list)) and not hasattr(r1, "_units"):
        eng.prove(isinstance(r2, (tuple, list)) and len(r1) == len(r2), label + ":container-shape")
        for i, (a, b) in enumerate(zip(r1, r2)):
            _same(eng, a, b, f"{label}[{i}]")
        return
    q1, q2 = hasattr(r1, "_units"), hasattr(r2, "_units")
    eng.prove(q1 == q2, label + ":both-quantities-or-both-bare")
    if q1 and q2:
        m1, d1 = _root(r1)
        m2, d2 = _root(r2)
        eng.prove(dict(d1) == dict(d2), label + ":dimensionality")
        a1, a2 = np.asarray(m1, dtype=object).ravel(), np.asarray(m2, dtype=object).ravel()
        eng.prove(len(a1) == len(a2), label + ":shape")
        for i, (x, y) in enumerate(zip(a1, a2)):
            eng.prove(Eq(x, y), f"{label}:value[{i}]")
    elif not q1 and not q2:
        a1, a2 = np.asarray(r1, dtype=object).ravel(), np.asarray(r2, dtype=object).ravel()
        eng.prove(len(a1) == len(a2), label + ":shape")
        for i, (x, y) in enumerate(zip(a1, a2)):
            try:
                eng.prove(Iff(x, y), f"{label}:bare[{i}]")
            except TypeError:
                eng.prove(Eq(x, y), f"{label}:bare[{i}]")


# name -> (arity, callable(A, B), output-unit rule)
#   rule: 'a' unit of A, 'ab' product, 'a/b' quotient, 'a2' square, 'sqrt' half, 'a^n' power n, 'bare'
FUNCS = {
    "add": (2, lambda A, B: np.add(A, B), "a"),
    "subtract": (2, lambda A, B: np.subtract(A, B), "a"),
    "multiply": (2, lambda A, B: np.multiply(A, B), "ab"),
    "negative": (1, lambda A, B: np.negative(A), "a"),
    "positive": (1, lambda A, B: np.positive(A), "a"),
    "absolute": (1, lambda A, B: np.absolute(A), "a"),
    "square": (1, lambda A, B: np.square(A), "a2"),
    "maximum": (2, lambda A, B: np.maximum(A, B), "a"),
    "minimum": (2, lambda A, B: np.minimum(A, B), "a"),
    "equal": (2, lambda A, B: np.equal(A, B), "bare"),
    "not_equal": (2, lambda A, B: np.not_equal(A, B), "bare"),
    "less": (2, lambda A, B: np.less(A, B), "bare"),
    "less_equal": (2, lambda A, B: np.less_equal(A, B), "bare"),
    "greater": (2, lambda A, B: np.greater(A, B), "bare"),
    "greater_equal": (2, lambda A, B: np.greater_equal(A, B), "bare"),
    "sum": (1, lambda A, B: np.sum(A), "a"),
    "sum-initial": (2, lambda A, B: np.sum(A, initial=B[0]), "a"),
    "cumsum": (1, lambda A, B: np.cumsum(A), "a"),
    "nansum": (1, lambda A, B: np.nansum(A), "a"),
    "mean": (1, lambda A, B: np.mean(A), "a"),
    "average": (1, lambda A, B: np.average(A), "a"),
    "median": (1, lambda A, B: np.median(A), "a"),
    "var": (1, lambda A, B: np.var(A), "a2"),
    "prod": (1, lambda A, B: np.prod(A), "a^n"),
    "cumprod-dimensionless": (0, None, None),
    "max": (1, lambda A, B: np.max(A), "a"),
    "min": (1, lambda A, B: np.min(A), "a"),
    "amax": (1, lambda A, B: np.amax(A), "a"),
    "ptp": (1, lambda A, B: np.ptp(A), "a"),
    "argmax": (1, lambda A, B: np.argmax(A), "bare"),
    "argmin": (1, lambda A, B: np.argmin(A), "bare"),
    "argsort": (1, lambda A, B: np.argsort(A), "bare"),
    "sort": (1, lambda A, B: np.sort(A), "a"),
    "diff": (1, lambda A, B: np.diff(A), "a"),
    "ediff1d": (1, lambda A, B: np.ediff1d(A), "a"),
    "clip": (2, lambda A, B: np.clip(A, B[0], B[0] + abs(B[1])), "a"),
    "method-clip": (2, lambda A, B: A.clip(B[0], B[0] + abs(B[1])), "a"),
    "where": (2, lambda A, B: np.where(A > B, A, B), "a"),
    "concatenate": (2, lambda A, B: np.concatenate([A, B]), "a"),
    "hstack": (2, lambda A, B: np.hstack([A, B]), "a"),
    "vstack": (2, lambda A, B: np.vstack([A, B]), "a"),
    "stack": (2, lambda A, B: np.stack([A, B]), "a"),
    "append": (2, lambda A, B: np.append(A, B), "a"),
    "dot": (2, lambda A, B: np.dot(A, B), "ab"),
    "cross": (2, lambda A, B: np.cross(A, B), "ab"),
    "matmul": (2, lambda A, B: np.matmul(A, B), "ab"),
    "trapezoid": (2, lambda A, B: np.trapezoid(A, B), "ab"),
    "isin": (2, lambda A, B: np.isin(A, B), "bare"),
    "searchsorted": (2, lambda A, B: np.searchsorted(np.sort(A), B[0]), "bare"),
    "count_nonzero": (1, lambda A, B: np.count_nonzero(A), "bare"),
    "nonzero": (1, lambda A, B: np.nonzero(A), "bare"),
    "any": (1, lambda A, B: np.any(A), "bare"),
    "all": (1, lambda A, B: np.all(A), "bare"),
    "roll": (1, lambda A, B: np.roll(A, 1), "a"),
    "flip": (1, lambda A, B: np.flip(A), "a"),
    "ravel": (1, lambda A, B: np.ravel(A), "a"),
    "transpose": (1, lambda A, B: np.transpose(A), "a"),
    "tile": (1, lambda A, B: np.tile(A, 2), "a"),
    "delete": (1, lambda A, B: np.delete(A, 1), "a"),
    "pad": (2, lambda A, B: np.pad(A, 1, constant_values=B[0]), "a"),
    "full_like": (2, lambda A, B: np.full_like(A, B[0]), "b"),
    "linspace": (2, lambda A, B: np.linspace(A[0], B[0], 3), "a"),
    "method-sum": (1, lambda A, B: A.sum(), "a"),
    "method-mean": (1, lambda A, B: A.mean(), "a"),
    "method-cumsum": (1, lambda A, B: A.cumsum(), "a"),
    "method-max": (1, lambda A, B: A.max(), "a"),
    "method-dot": (2, lambda A, B: A.dot(B), "ab"),
    "method-prod": (1, lambda A, B: A.prod(), "a^n"),
    "method-var": (1, lambda A, B: A.var(), "a2"),
    "mod": (2, lambda A, B: np.mod(A, B), "a"),
    "remainder": (2, lambda A, B: np.remainder(A, B), "a"),
    "fmod-operator": (2, lambda A, B: A % B, "a"),
    "floor_divide": (2, lambda A, B: np.floor_divide(A, B), "a/b"),
    "floordiv-operator": (2, lambda A, B: A // B, "a/b"),
    "clip-max-only": (2, lambda A, B: np.clip(A, None, B[0]), "a"),
    "clip-min-only": (2, lambda A, B: np.clip(A, B[0], None), "a"),
    "clip-keywords": (2, lambda A, B: np.clip(A, a_max=B[0], a_min=None), "a"),
    "method-clip-max-only": (2, lambda A, B: A.clip(None, B[0]), "a"),
    "method-clip-min-keyword": (2, lambda A, B: A.clip(min=B[0]), "a"),
    "insert": (2, lambda A, B: np.insert(A, 1, B[0]), "a"),
    "resize": (1, lambda A, B: np.resize(A, 4), "a"),
    "copy": (1, lambda A, B: np.copy(A), "a"),
    "squeeze": (1, lambda A, B: np.squeeze(A), "a"),
    "expand_dims": (1, lambda A, B: np.expand_dims(A, 0), "a"),
    "atleast_2d": (1, lambda A, B: np.atleast_2d(A), "a"),
    "broadcast_to": (1, lambda A, B: np.broadcast_to(A, (2, 3)), "a"),
    "moveaxis": (1, lambda A, B: np.moveaxis(np.atleast_2d(A), 0, 1), "a"),
    "compress": (1, lambda A, B: np.compress([True, False, True], A), "a"),
    "method-take": (1, lambda A, B: A.take([2, 0]), "a"),
    "method-ptp-free": (1, lambda A, B: A.max() - A.min(), "a"),
    "method-argsort": (1, lambda A, B: A.argsort(), "bare"),
    "method-searchsorted": (2, lambda A, B: np.sort(A).searchsorted(B[0]), "bare"),
    "method-tolist": (1, lambda A, B: A.tolist()[1], "a"),
    "method-put": (2, lambda A, B: (lambda C: (C.put(0, B[0]), C)[1])(A.__class__(A.magnitude.copy(), A.units)), "a"),
    "method-put-array": (2, lambda A, B: (lambda C: (C.put([0, 2], B[:2]), C)[1])(A.__class__(A.magnitude.copy(), A.units)), "a"),
    "method-fill": (2, lambda A, B: (lambda C: (C.fill(B[0]), C)[1])(A.__class__(A.magnitude.copy(), A.units)), "b"),
    "setitem-slice": (2, lambda A, B: (lambda C: (C.__setitem__(slice(0, 2), B[:2]), C)[1])(A.__class__(A.magnitude.copy(), A.units)), "a"),
    "method-flat": (1, lambda A, B: list(A.flat)[2], "a"),
    "method-T": (1, lambda A, B: A.T, "a"),
    "method-flatten": (1, lambda A, B: A.flatten(), "a"),
    "method-reshape": (1, lambda A, B: A.reshape((3, 1)), "a"),
    "method-min": (1, lambda A, B: A.min(), "a"),
    "method-argmax": (1, lambda A, B: A.argmax(), "bare"),
    "method-nonzero": (1, lambda A, B: A.nonzero(), "bare"),
    "method-compress": (1, lambda A, B: A.compress([True, False, True]), "a"),
    "method-repeat": (1, lambda A, B: A.repeat(2), "a"),
    "len": (1, lambda A, B: len(A), "bare"),
    "ndim-shape": (1, lambda A, B: (A.ndim, A.shape), "bare"),
    "getitem": (1, lambda A, B: A[1], "a"),
    "iter": (1, lambda A, B: list(A)[2], "a"),
}
del FUNCS["cumprod-dimensionless"]

SAME_DIM_REQUIRED = {"method-put", "method-put-array", "setitem-slice", "mod", "remainder", "fmod-operator", "floor_divide", "floordiv-operator", "clip-max-only", "clip-min-only", "clip-keywords", "method-clip-max-only", "method-clip-min-keyword", "insert", "method-searchsorted", "add", "subtract", "maximum", "minimum", "equal", "not_equal", "less", "less_equal", "greater", "greater_equal", "sum-initial", "clip", "method-clip", "where", "concatenate", "hstack", "vstack", "stack", "append", "isin", "searchsorted", "pad", "linspace"}


DIVISORS_NONZERO = {"mod", "remainder", "fmod-operator", "floor_divide", "floordiv-operator"}


def _expected_unit(ureg, rule, ua, ub, n):
    A, B = ureg.Unit(ua), ureg.Unit(ub)
    return {"a": A, "b": B, "ab": A * B, "a/b": A / B, "a2": A**2, "sqrt": A**0.5, "a^n": A**n, "bare": None}[rule]


# known findings K10 / K11: these NumPy routes ignore the unit of their second operand (pint's own
# test-suite pins that behaviour).  A concrete witness decides whether the defect is present; if
# it is, it is reported under its own label and the symbolic clauses -- which presuppose a
# function of the physical values -- are not attempted for that function.
K10 = {"mod": (np.mod, lambda a, b: a % b), "remainder": (np.remainder, lambda a, b: a % b), "floor_divide": (np.floor_divide, lambda a, b: a // b)}


def _k10_present(eng, ureg, name, bare=False):
    npf, op = K10[name]
    n = eng.num
    if bare:
        A = ureg.Quantity(np.array([n(50), n(170), n(250)], dtype=object), "percent")
        B = np.array([n(1), n(1), n(2)], dtype=object)
    else:
        A = ureg.Quantity(np.array([n(5), n(7), n(9)], dtype=object), "meter")
        B = ureg.Quantity(np.array([n(12), n(24), n(36)], dtype=object), "inch")
    try:
        got, want = npf(A, B), op(A, B)
        same = all(bool(x == y) for x, y in zip(np.asarray(got.to_root_units().magnitude, dtype=object).ravel(), np.asarray(want.to_root_units().magnitude, dtype=object).ravel()))
    except DimensionalityError:
        same = False
    if not same:
        eng.fail(f"{name}:second-operand-not-converted", stop=False)
    return not same


def h_func(eng, name, ua, ua2, ub, ub2):
    ureg = regs.default(eng)
    arity, f, rule = FUNCS[name]
    if name in K10 and _k10_present(eng, ureg, name):
        return
    a, b = _arr(eng, "a"), _arr(eng, "b")
    if name in ("sqrt", "std"):
        for x in a:
            eng.assume(x >= 0)
    if name in DIVISORS_NONZERO:
        for x in b:
            eng.assume(Not(Eq(x, 0)))
    A, B = ureg.Quantity(a.copy(), ua), ureg.Quantity(b.copy(), ub)
    A2, B2 = A.to(ua2), B.to(ub2)
    keepA, keepB = list(A.magnitude), list(B.magnitude)
    r1 = f(A, B)
    r2 = f(A2, B2)
    _same(eng, r1, r2, name)
    # output unit = the mathematically implied unit
    want = _expected_unit(ureg, rule, ua, ub, 3)
    if want is None:
        first = r1[0] if isinstance(r1, tuple) else r1
        eng.prove(not hasattr(first, "_units"), f"{name}:result-is-bare")
    else:
        eng.prove(hasattr(r1, "_units"), f"{name}:result-is-quantity")
        if hasattr(r1, "_units"):
            eng.prove(dict(r1.dimensionality) == dict((1 * want).dimensionality), f"{name}:implied-dimensionality")
            if rule in ("a", "a2", "a^n"):
                eng.prove(r1.units == want, f"{name}:implied-unit")
    # only explicitly in-place operations modify their inputs
    for i in range(3):
        eng.prove(And(Eq(A.magnitude[i], keepA[i]), Eq(B.magnitude[i], keepB[i])), f"{name}:inputs-unchanged[{i}]")
    eng.prove(str(A.units) == ua and str(B.units) == ub, f"{name}:input-units-unchanged")


# functions of a quantity in a *scaled dimensionless* unit and bare numbers: the bare numbers are
# dimensionless quantities (C03), so the answer is the same whether the array is written in
# percent, in ppm or as plain numbers
DIMLESS_FUNCS = {
    "add-bare": (lambda A, b: np.add(A, b), "q"),
    "subtract-bare": (lambda A, b: np.subtract(A, b), "q"),
    "radd-bare": (lambda A, b: np.add(b, A), "q"),
    "maximum-bare": (lambda A, b: np.maximum(A, b[0]), "q"),
    "less-bare": (lambda A, b: np.less(A, b), "bare"),
    "equal-bare": (lambda A, b: np.equal(A, b), "bare"),
    "clip-bare": (lambda A, b: np.clip(A, b[0], b[0] + abs(b[1])), "q"),
    "method-clip-bare": (lambda A, b: A.clip(b[0], b[0] + abs(b[1])), "q"),
    "method-clip-bare-max-only": (lambda A, b: A.clip(None, b[0]), "q"),
    "where-bare": (lambda A, b: np.where(A > b, A, b), "q"),
    "isin-bare": (lambda A, b: np.isin(A, b), "bare"),
    "isin-bare-list": (lambda A, b: np.isin(A, list(b)), "bare"),
    "cumprod": (lambda A, b: np.cumprod(A), "q"),
    "method-cumprod": (lambda A, b: A.cumprod(), "q"),
    "prod": (lambda A, b: np.prod(A), "q"),
    "prod-axis": (lambda A, b: np.prod(np.stack([A, A]), axis=0), "q"),
    "mod-bare": (lambda A, b: np.mod(A, b), "q"),
    "operator-mod-bare": (lambda A, b: A % b, "q"),
    "floor_divide-bare": (lambda A, b: np.floor_divide(A, b), "q"),
    "operator-floordiv-bare": (lambda A, b: A // b, "q"),
    "searchsorted-bare": (lambda A, b: np.searchsorted(np.sort(A), b[0]), "bare"),
    "method-put-bare": (lambda A, b: (lambda C: (C.put(0, b[0]), C)[1])(A.__class__(A.magnitude.copy(), A.units)), "q"),
    "method-fill-quantity": (lambda A, b: (lambda C: (C.fill(A._REGISTRY.Quantity(b[0], "")), C)[1])(A.__class__(A.magnitude.copy(), A.units)), "q"),
    "sum-initial-bare": (lambda A, b: np.sum(A, initial=b[0]), "q"),
    "full_like-bare": (lambda A, b: np.full_like(A, b[0]), "any"),
    "append-bare": (lambda A, b: np.append(A, b), "q"),
    "concatenate-bare": (lambda A, b: np.concatenate([A, b]), "q"),
    "linspace-bare": (lambda A, b: np.linspace(A[0], b[0], 3), "q"),
    "insert-bare": (lambda A, b: np.insert(A, 1, b[0]), "q"),
}


def _dimless_value(r):
    """a result as plain numbers: a quantity in dimensionless units, or bare"""
    if hasattr(r, "_units"):
        return np.asarray(r.to("").magnitude, dtype=object).ravel()
    return np.asarray(r, dtype=object).ravel()


def h_dimless(eng, name, ua, ua2):
    ureg = regs.default(eng)
    f, kind = DIMLESS_FUNCS[name]
    if name.replace("-bare", "") in K10 and _k10_present(eng, ureg, name.replace("-bare", ""), bare=True):
        return
    if name.startswith("isin-bare"):
        n = eng.num
        A = ureg.Quantity(np.array([n(50), n(20)], dtype=object), "percent")
        if not bool(np.isin(A, [Fraction(1, 2)])[0]):
            # known finding K11: bare test elements are compared with the raw magnitudes
            eng.fail("isin:bare-test-elements-compared-with-raw-magnitudes", stop=False)
            return
    a, b = _arr(eng, "a"), _arr(eng, "b")
    if "mod" in name or "floor" in name:
        for x in b:
            eng.assume(Not(Eq(x, 0)))
    A = ureg.Quantity(a.copy(), ua)
    A2 = A.to(ua2)
    keep = list(A.magnitude)
    outcomes = []
    for arr in (A, A2):
        try:
            outcomes.append(("ok", f(arr, b.copy())))
        except DimensionalityError:
            outcomes.append(("DimensionalityError", None))
    eng.prove(outcomes[0][0] == outcomes[1][0], f"{name}:same-kind-of-outcome")
    if outcomes[0][0] == "ok" and outcomes[1][0] == "ok":
        r1, r2 = outcomes[0][1], outcomes[1][1]
        if kind == "bare":
            eng.prove(not hasattr(r1, "_units") and not hasattr(r2, "_units"), f"{name}:result-is-bare")
        elif kind == "q":
            eng.prove(hasattr(r1, "_units") and hasattr(r2, "_units"), f"{name}:result-is-quantity")
        v1, v2 = _dimless_value(r1), _dimless_value(r2)
        eng.prove(len(v1) == len(v2), f"{name}:shape")
        for i, (x, y) in enumerate(zip(v1, v2)):
            try:
                eng.prove(Iff(x, y) if kind == "bare" else Eq(x, y), f"{name}:value[{i}]")
            except TypeError:
                eng.prove(Eq(x, y), f"{name}:value[{i}]")
    for i in range(3):
        eng.prove(Eq(A.magnitude[i], keep[i]), f"{name}:input-unchanged[{i}]")


def h_float_routing(eng):
    """functions that only exist for float arrays: every argument reaches its own parameter,
    converted to the unit of the argument it is compared with (exactly representable values)"""
    ureg = regs.float_default()
    Qy = ureg.Quantity
    P = eng.prove
    x = Qy(np.array([0.0, 1.5, 5.0]), "m")
    xp, fp = Qy(np.array([1.0, 2.0]), "m"), Qy(np.array([10.0, 20.0]), "s")
    r = np.interp(x, xp, fp, left=Qy(-1.0, "s"), right=Qy(0.5, "min"))
    P(str(r.units) == "second" and list(r.magnitude) == [-1.0, 15.0, 30.0], "interp:left-right-reach-their-parameters")
    r = np.interp(Qy(np.array([150.0]), "cm"), xp, fp)
    P(list(r.magnitude) == [15.0], "interp:x-converted-to-xp-units")
    # period= is a length on the x axis: x, xp and period may each come in their own unit
    # (exactly representable values: 8 m period, sample points 1 m and 5 m)
    xpp, fpp = Qy(np.array([100.0, 500.0]), "cm"), Qy(np.array([10.0, 50.0]), "s")
    want = list(np.interp(np.array([3.0, 11.0, -5.0]), np.array([1.0, 5.0]), np.array([10.0, 50.0]), period=8.0))
    for lab, xq, per in (("x-m:xp-cm:period-cm", Qy(np.array([3.0, 11.0, -5.0]), "m"), Qy(800.0, "cm")), ("x-m:xp-cm:period-m", Qy(np.array([3.0, 11.0, -5.0]), "m"), Qy(8.0, "m")),
                         ("x-cm:xp-cm:period-m", Qy(np.array([300.0, 1100.0, -500.0]), "cm"), Qy(8.0, "m")), ("x-mm:xp-cm:period-cm", Qy(np.array([3000.0, 11000.0, -5000.0]), "mm"), Qy(800.0, "cm"))):
        try:
            r = np.interp(xq, xpp, fpp, period=per)
            got = (str(r.units), [float(v) for v in r.magnitude])
        except Exception as ex:  # noqa: BLE001
            got = type(ex).__name__
        P(got == ("second", want), f"interp:period:{lab}")
    y = Qy(np.array([np.nan, np.inf, -np.inf, 2.0]), "m")
    r = np.nan_to_num(y, nan=Qy(50.0, "cm"), posinf=Qy(1.0, "km"), neginf=Qy(-2.0, "m"))
    P(list(r.magnitude) == [0.5, 1000.0, -2.0, 2.0] and str(r.units) == "meter", "nan_to_num:all-three")
    r = np.nan_to_num(y, posinf=Qy(1.0, "km"), neginf=Qy(-300.0, "cm"))
    P(list(r.magnitude)[1:] == [1000.0, -3.0, 2.0], "nan_to_num:earlier-argument-omitted")
    r = np.nan_to_num(y, nan=Qy(50.0, "cm"), neginf=Qy(-300.0, "cm"))
    P(r.magnitude[0] == 0.5 and r.magnitude[2] == -3.0, "nan_to_num:middle-argument-omitted")
    z = Qy(np.array([1.0, 2.0, 3.0]), "m")
    P(list(np.clip(z, None, Qy(150.0, "cm")).magnitude) == [1.0, 1.5, 1.5], "clip:min-omitted")
    P(list(np.clip(z, Qy(150.0, "cm"), None).magnitude) == [1.5, 2.0, 3.0], "clip:max-omitted")
    P(list(np.clip(z, a_max=Qy(2500.0, "mm"), a_min=Qy(150.0, "cm")).magnitude) == [1.5, 2.0, 2.5], "clip:keywords-out-of-order")
    P(bool(np.allclose(Qy(np.array([1.0]), "m"), Qy(np.array([100.0]), "cm"))) and not bool(np.allclose(Qy(np.array([1.0]), "m"), Qy(np.array([1.0]), "cm"))), "allclose:converted")
    P(list(np.isclose(z, Qy(200.0, "cm"))) == [False, True, False], "isclose:converted")
    r = np.arctan2(Qy(np.array([1.0]), "m"), Qy(np.array([100.0]), "cm"))
    P(abs(r.to("radian").magnitude[0] - np.pi / 4) < 1e-15, "arctan2:converted")
    P(list(np.copysign(z, Qy(-5.0, "cm")).magnitude) == [-1.0, -2.0, -3.0], "copysign")
    P(list(np.hypot(Qy(np.array([3.0]), "m"), Qy(np.array([400.0]), "cm")).to("m").magnitude) == [5.0], "hypot:converted")
    if list(np.fmod(Qy(np.array([5.0, 7.0]), "m"), Qy(np.array([200.0, 300.0]), "cm")).to("m").magnitude) != [1.0, 1.0]:
        eng.fail("fmod:second-operand-not-converted", stop=False)  # known finding K10
    r = np.percentile(z, 50)
    P(r.magnitude == 2.0 and str(r.units) == "meter", "percentile")
    r = np.round(Qy(np.array([1.26, 2.0]), "m"), 1)
    P(list(r.magnitude) == [1.3, 2.0] and str(r.units) == "meter", "round")
    P(list(np.unwrap(Qy(np.array([0.0, 360.0]), "degree")).to("degree").magnitude) == [0.0, 0.0], "unwrap:degrees")
    r = np.sin(Qy(np.array([90.0]), "degree"))
    P(abs(getattr(r, "magnitude", r)[0] - 1.0) < 1e-15 and (not hasattr(r, "_units") or not r.to_root_units()._units), "sin:degree-converted-to-radian")
    # reductions with axis= and where= on scaled dimensionless arrays (no identity for object
    # arrays, hence here): the answer is that of the plain numbers
    for unit in ("percent", "ppm", "kilometer / meter", "dimensionless"):
        Aq = Qy(np.array([[50.0, 200.0, 400.0], [200.0, 50.0, 300.0]]), unit)
        plain = Aq.to("").magnitude
        for mname, mask in (("equal-counts", np.array([[True, False, True], [False, True, True]])), ("unequal-counts", np.array([[True, False, True], [True, True, False]])), ("all", np.array([[True, True, True], [True, True, True]]))):
            for axis in (0, 1, None):
                want = np.prod(plain, axis=axis, where=mask)
                got = np.prod(Aq, axis=axis, where=mask)
                gotv = got.to("").magnitude if hasattr(got, "to") else got
                P(bool(np.allclose(gotv, want, rtol=1e-12, atol=0)), f"prod:axis={axis}:where={mname}:{unit}")
                gotm = Aq.prod(axis=axis, where=mask)
                gotmv = gotm.to("").magnitude if hasattr(gotm, "to") else gotm
                P(bool(np.allclose(gotmv, want, rtol=1e-12, atol=0)), f"method-prod:axis={axis}:where={mname}:{unit}")
                wants = np.sum(plain, axis=axis, where=mask)
                gots = np.sum(Aq, axis=axis, where=mask).to("").magnitude
                P(bool(np.allclose(gots, wants, rtol=1e-12, atol=0)), f"sum:axis={axis}:where={mname}:{unit}")
    try:
        np.sin(z)
    except DimensionalityError:
        P(True, "sin:dimensional-refused")
    else:
        eng.fail("sin:dimensional-accepted")


def h_nonmultiplicative_arrays(eng):
    """float arrays in offset and delta units: the binary operators read their operands (twice
    the same expression, twice the same answer); with autoconvert_offset_to_baseunit the product
    functions take an offset operand -- first or second -- at its base-unit value"""
    ureg = regs.float_default()
    Qy = ureg.Quantity
    P = eng.prove
    units = ["delta_degF", "kelvin", "delta_degC", "degC", "degF", "degR", "millikelvin"]
    for ua in units:
        for ub in units:
            for oname, op in (("add", operator.add), ("sub", operator.sub), ("eq", operator.eq), ("lt", operator.lt)):
                a0, b0 = np.array([9.0, 18.0, -4.5]), np.array([1.0, 2.5, 300.0])
                A, B = Qy(a0.copy(), ua), Qy(b0.copy(), ub)
                outs = []
                for _ in range(2):
                    try:
                        r = op(A, B)
                        outs.append(("ok", str(getattr(r, "units", "")), [float(v) for v in np.asarray(getattr(r, "magnitude", r), dtype=float)]))
                    except (OffsetUnitCalculusError, DimensionalityError) as ex:
                        outs.append((type(ex).__name__,))
                P(outs[0] == outs[1], f"{oname}:{ua},{ub}:asked-twice-same-answer")
                P(list(A.magnitude) == list(a0) and list(B.magnitude) == list(b0) and str(A.units) == str(ureg.Unit(ua)) and str(B.units) == str(ureg.Unit(ub)), f"{oname}:{ua},{ub}:operands-untouched")
    auto = regs.float_default(autoconvert_offset_to_baseunit=True)
    Qa = auto.Quantity
    v3, w3 = np.array([1.0, 2.0, 3.0]), np.array([10.0, 25.0, -5.0])
    for ua, ub in (("meter", "degC"), ("degC", "meter"), ("degF", "degC"), ("meter", "degF"), ("inch", "kelvin"), ("degC", "degC")):
        for fname, f in (("dot", np.dot), ("cross", np.cross), ("method-dot", lambda p, q: p.dot(q)), ("operator-mul", operator.mul)):  # (np.multiply: known finding K8)
            A, B = Qa(v3.copy(), ua), Qa(w3.copy(), ub)
            try:
                got = f(A, B)
            except Exception as ex:  # noqa: BLE001
                got = type(ex).__name__
            try:
                want = f(A.to_base_units(), B.to_base_units())
            except Exception as ex:  # noqa: BLE001
                want = type(ex).__name__
            if isinstance(got, str) or isinstance(want, str):
                P(isinstance(got, str) and isinstance(want, str), f"autoconvert:{fname}:{ua},{ub}:same-kind-of-outcome")
                continue
            try:
                ok = got.to_base_units().units == want.to_base_units().units and np.allclose(got.to_base_units().magnitude, want.to_base_units().magnitude, rtol=1e-12, atol=0)
            except (OffsetUnitCalculusError, DimensionalityError):
                ok = False  # a result that cannot even be expressed in base units
            P(bool(ok), f"autoconvert:{fname}:{ua},{ub}:offset-operand-at-its-base-unit-value")
            P(list(A.magnitude) == list(v3) and list(B.magnitude) == list(w3), f"autoconvert:{fname}:{ua},{ub}:operands-untouched")


def h_inplace_other_operand(eng):
    """explicitly in-place operators modify their target -- never the other operand, also when
    that operand is an offset quantity that autoconvert mode takes at its base-unit value"""
    auto = regs.float_default(autoconvert_offset_to_baseunit=True)
    Qa = auto.Quantity
    for ub, bval in (("degC", 10.0), ("degF", 50.0), ("kelvin", 3.0), ("inch", 2.0)):
        for oname, iop in (("imul", operator.imul), ("itruediv", operator.itruediv)):
            for bkind in ("scalar", "array"):
                x = Qa(np.array([1.0, 2.0]), "meter")
                y = Qa(bval if bkind == "scalar" else np.array([bval, bval]), ub)
                want = (operator.mul if oname == "imul" else operator.truediv)(Qa(np.array([1.0, 2.0]), "meter"), Qa(bval if bkind == "scalar" else np.array([bval, bval]), ub))
                try:
                    x = iop(x, y)
                except (OffsetUnitCalculusError, DimensionalityError):
                    continue
                same_other = str(y.units) == str(auto.Unit(ub)) and np.all(np.asarray(y.magnitude) == bval)
                eng.prove(bool(same_other), f"inplace-{oname}:{ub}:{bkind}:other-operand-untouched")
                eng.prove(bool(np.allclose(x.to_base_units().magnitude, want.to_base_units().magnitude, rtol=1e-12, atol=0)) and x.to_base_units().units == want.to_base_units().units, f"inplace-{oname}:{ub}:{bkind}:same-as-binary-form")


def h_masked_arrays(eng):
    """masked-array magnitudes: the method form answers what the function form answers, and
    masked entries take no part"""
    ureg = regs.float_default()
    data = np.ma.masked_array([[1.0, 2.0, -750.0], [4.0, -9999.0, 6.0]], mask=[[0, 0, 1], [0, 1, 0]])
    q = ureg.Quantity(data, "meter")
    for name, meth, func, want in (
        ("sum", lambda: q.sum(), lambda: np.sum(q), 13.0), ("max", lambda: q.max(), lambda: np.max(q), 6.0), ("min", lambda: q.min(), lambda: np.min(q), 1.0),
        ("mean", lambda: q.mean(), lambda: np.mean(q), 3.25), ("std", lambda: q.std(), lambda: np.std(q), float(np.std(np.array([1.0, 2.0, 4.0, 6.0])))),
    ):
        m_, f_ = meth(), func()
        eng.prove(abs(float(m_.magnitude) - want) < 1e-12 and str(m_.units) == "meter", f"masked:{name}:method-ignores-masked-entries")
        eng.prove(abs(float(f_.magnitude) - want) < 1e-12, f"masked:{name}:function-ignores-masked-entries")
    r = q.sum(axis=1)
    eng.prove([float(v) for v in r.magnitude] == [3.0, 10.0], "masked:sum-axis:method")
    c = q.cumsum(axis=1)
    eng.prove(bool(np.ma.is_masked(c.magnitude)) and float(c.magnitude[0, 1]) == 3.0, "masked:cumsum:mask-kept")
    eng.prove(bool(np.all(q.magnitude.mask == data.mask)) and float(q.magnitude[0, 0]) == 1.0, "masked:operand-untouched")


def h_setitem_float(eng):
    """item assignment on float arrays: the assigned value is converted into the array's units;
    bare numbers are accepted by dimensionless arrays only (read as plain numbers) -- whatever
    the values are, NaN among them included"""
    ureg = regs.float_default()
    Qy = ureg.Quantity
    P = eng.prove
    nan = float("nan")
    for vals in ([7.0, 8.0], [nan, 8.0], [8.0, nan], [nan, nan]):
        for kind in ("ndarray", "list"):
            value = np.array(vals) if kind == "ndarray" else list(vals)
            q = Qy(np.array([1.0, 2.0, 3.0]), "meter")
            try:
                q[0:2] = value
            except DimensionalityError:
                P(list(q.magnitude) == [1.0, 2.0, 3.0], f"setitem:meter:bare-{kind}:{vals}:refused-and-untouched")
            else:
                eng.fail(f"setitem:meter:bare-{kind}:{vals}:bare-numbers-written-into-a-length-array", stop=False)
            p = Qy(np.array([1.0, 2.0, 3.0]), "percent")
            p[0:2] = value
            want = [v * 100 for v in vals]
            ok = all((np.isnan(g) and np.isnan(w)) or g == w for g, w in zip(p.magnitude[0:2], want)) and p.magnitude[2] == 3.0
            P(bool(ok), f"setitem:percent:bare-{kind}:{vals}:read-as-plain-numbers")
            q2 = Qy(np.array([1.0, 2.0, 3.0]), "meter")
            q2[0:2] = Qy(np.array(vals), "centimeter")
            want = [v / 100 for v in vals]
            ok = all((np.isnan(g) and np.isnan(w)) or abs(g - w) < 1e-15 for g, w in zip(q2.magnitude[0:2], want))
            P(bool(ok), f"setitem:meter:quantity-{kind}:{vals}:converted")
    q = Qy(np.array([1.0, 2.0, 3.0]), "meter")
    q[1] = nan  # a scalar NaN marks a missing value in any array
    P(np.isnan(q.magnitude[1]) and q.magnitude[0] == 1.0, "setitem:meter:scalar-nan-accepted")
    try:
        q[0] = 5.0
    except DimensionalityError:
        P(True, "setitem:meter:bare-scalar-refused")
    else:
        eng.fail("setitem:meter:bare-scalar-accepted", stop=False)


def h_incompatible(eng, name, ua, ub):
    ureg = regs.default(eng)
    arity, f, rule = FUNCS[name]
    if name in K10 and _k10_present(eng, ureg, name):
        return
    b = _arr(eng, "b")
    if name in DIVISORS_NONZERO:
        for x in b:
            eng.assume(Not(Eq(x, 0)))
    A, B = ureg.Quantity(_arr(eng, "a"), ua), ureg.Quantity(b, ub)
    try:
        f(A, B)
    except DimensionalityError:
        eng.prove(True, f"{name}:incompatible-raises")
        return
    eng.fail(f"{name}:incompatible-accepted")


def h_offset_refused(eng, name):
    """offset units are refused where the operation would be ambiguous"""
    ureg = regs.default(eng)
    arity, f, rule = FUNCS[name]
    A, B = ureg.Quantity(_arr(eng, "a"), "degC"), ureg.Quantity(_arr(eng, "b"), "degC")
    try:
        f(A, B)
    except (OffsetUnitCalculusError, DimensionalityError):
        eng.prove(True, f"{name}:offset-refused")
        return
    eng.fail(f"{name}:offset-accepted")


def h_inplace(eng, ua, ub):
    """explicitly in-place operations modify exactly their target"""
    ureg = regs.default(eng)
    a, b = _arr(eng, "a"), _arr(eng, "b")
    A, B = ureg.Quantity(a.copy(), ua), ureg.Quantity(b.copy(), ub)
    inf = covers.infos()
    fa, fb = inf[ua].num, inf[ub].num
    keepB = list(B.magnitude)
    mag = A.magnitude
    A += B
    eng.prove(A.magnitude is mag, "iadd-same-buffer")
    for i in range(3):
        eng.prove(Eq(A.magnitude[i], a[i] + b[i] * fb / fa), f"iadd-value[{i}]")
        eng.prove(Eq(B.magnitude[i], keepB[i]), f"iadd-other-unchanged[{i}]")
    C = ureg.Quantity(a.copy(), ua)
    C[1] = B[0]
    eng.prove(Eq(C.magnitude[1], b[0] * fb / fa), "setitem-converts")
    eng.prove(Eq(C.magnitude[0], a[0]), "setitem-leaves-others")
    try:
        C[0] = ureg.Quantity(b[0], "gram")
    except DimensionalityError:
        eng.prove(True, "setitem-incompatible-raises")
    else:
        eng.fail("setitem-incompatible-accepted")
    # floor division and modulo in place: the right operand (an array in another unit) is read,
    # not rewritten; the result is that of the binary operator
    for nm, iop_, bop in (("imod", operator.imod, operator.mod), ("ifloordiv", operator.ifloordiv, operator.floordiv)):
        b_nz = b.copy()
        for v in b_nz:
            eng.assume(Not(Eq(v, 0)))
        E = ureg.Quantity(a.copy(), ua)
        F = ureg.Quantity(b_nz.copy(), ub)
        want = bop(ureg.Quantity(a.copy(), ua), ureg.Quantity(b_nz.copy(), ub))
        E = iop_(E, F)
        for i in range(3):
            eng.prove(Eq(E.to_root_units().magnitude[i], want.to_root_units().magnitude[i]), f"{nm}-value[{i}]")
            eng.prove(Eq(F.magnitude[i], b_nz[i]), f"{nm}-other-unchanged[{i}]")
        eng.prove(str(F.units) == ub, f"{nm}-other-units-unchanged")
    D = ureg.Quantity(a.copy(), ua)
    np.copyto(D, B)
    for i in range(3):
        eng.prove(Eq(D.magnitude[i], b[i] * fb / fa), f"copyto-converts[{i}]")


MIN_DISCHARGED = {"H16.a": 1500, "H16.c": 20, "H16.e": 150}


def cases(tier, seed):
    big = tier == "thorough"
    rnd = random.Random(f"c16:{seed}")
    out = []
    opts = {"max_paths": 3000, "query_timeout_ms": 20000}
    settings = [("meter", "inch", "meter", "foot"), ("kilometer", "meter", "inch", "mile")]
    if big:
        settings += [("second", "hour", "second", "minute"), ("newton", "dyne", "newton", "force_pound")]
    for name, (arity, f, rule) in FUNCS.items():
        for ua, ua2, ub, ub2 in settings if big else settings[:1] + ([settings[1]] if rnd.random() < 0.4 else []):
            if name not in SAME_DIM_REQUIRED and arity == 2 and rule in ("ab",):
                ub, ub2 = "second", "hour"
            out.append(Case("H16.a", f"{name}:{ua},{ub}->{ua2},{ub2}", M, "h_func", {"name": name, "ua": ua, "ua2": ua2, "ub": ub, "ub2": ub2}, opts=opts, validate=1, weight=4.0))
    for name in sorted(SAME_DIM_REQUIRED - {"isin", "searchsorted"}):
        out.append(Case("H16.c", f"incompatible:{name}", M, "h_incompatible", {"name": name, "ua": "meter", "ub": "second"}, opts=opts, validate=1))
    for name in ("add", "multiply", "dot", "prod", "square", "sum-initial"):
        out.append(Case("H16.c", f"offset:{name}", M, "h_offset_refused", {"name": name}, opts=opts, validate=0))
    for name in DIMLESS_FUNCS:
        for ua, ua2 in (("percent", "dimensionless"),) + ((("ppm", "percent"), ("dimensionless", "percent")) if big else ()):
            out.append(Case("H16.e", f"{name}:{ua}->{ua2}", M, "h_dimless", {"name": name, "ua": ua, "ua2": ua2}, opts=opts, validate=1, weight=4.0))
    out.append(Case("H16.f", "float-routing", M, "h_float_routing", {}, kind="conc"))
    out.append(Case("H16.f", "nonmultiplicative-arrays", M, "h_nonmultiplicative_arrays", {}, kind="conc"))
    out.append(Case("H16.f", "setitem-float", M, "h_setitem_float", {}, kind="conc"))
    out.append(Case("H16.d", "inplace-other-operand", M, "h_inplace_other_operand", {}, kind="conc"))
    out.append(Case("H16.f", "masked-arrays", M, "h_masked_arrays", {}, kind="conc"))
    out.append(Case("H16.d", "inplace:meter,inch", M, "h_inplace", {"ua": "meter", "ub": "inch"}, opts=opts, validate=1))
    out.append(Case("H16.d", "inplace:hour,second", M, "h_inplace", {"ua": "hour", "ub": "second"}, opts=opts, validate=1))
    out.append(Case("H16.obs", "observed", "pvlib.harness.observed", "h_c16", {}, kind="conc"))
    return out
