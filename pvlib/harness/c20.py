"""C20 -- the bundled registry carries the internationally standardised values.

The strength of this check is the independence of the table (pvlib/ref/stdtable.py); the
solver's contribution is small and stated: for each entry the conversion to root units is
proved to be the linear map x -> value * x (affine for temperature scales) for every
rational x, i.e. no stray offset, no magnitude-dependent branch."""

from __future__ import annotations

from fractions import Fraction

from pint.errors import DimensionalityError

from .. import regs
from ..ref import stdtable
from ..runner import Case
from ..sx.q import Eq

PROPERTY = "C20"
M = "pvlib.harness.c20"

DIM = {"m": "[length]", "kg": "[mass]", "s": "[time]", "A": "[current]", "K": "[temperature]", "mol": "[substance]", "cd": "[luminosity]"}
ROOT = {"m": "meter", "kg": "gram", "s": "second", "A": "ampere", "K": "kelvin", "mol": "mole", "cd": "candela"}
DIMLESS_ROOTS = {"radian", "bit", "count"}

META = {
    "explanation": "every entry of an independently written table of standard values is compared, for all magnitudes x, with the real registry's "
    "conversion to root units, reported symbol and dimensionality; the table is never generated from pint.",
    "functions_encoded": ["pint/default_en.txt, pint/constants_en.txt as interpreted by pint/delegates/txt_defparser and pint/facets/plain/registry.py::_get_root_units, get_symbol, _get_dimensionality"],
    "bounds": {"entries": f"{len(stdtable.TABLE)} units/constants + {len(stdtable.PREFIXES)} prefixes + {len(stdtable.TEMPERATURES)} temperature scales", "magnitude": "all rationals (symbolic)"},
    "enumerated_axes": [{"axis": "table entries", "exhaustive": True}],
    "outside_claim": ["float registry 'few ulp' clause", "values involving pi are compared with pi truncated to the 50 digits pint's file gives (they agree with pi to all 50 digits)", "dimensionless root units (radian, bit, count) of an entry are not compared"],
    "assumptions": ["the table in pvlib/ref/stdtable.py transcribes the standards correctly"],
}


def _num(v):
    return v.c if hasattr(v, "c") else Fraction(v)


def h_entries(eng, names):
    ureg = regs.default(eng)
    tab = {n: (v, vec, sym) for n, v, vec, sym in stdtable.entries()}
    for i, name in enumerate(names):
        value, vec, sym = tab[name]
        x = eng.real(f"x{i}")
        q = ureg.Quantity(x, name)
        r = q.to_root_units()
        kg = vec.get("kg", 0)
        eng.prove(Eq(r.magnitude, x * value * Fraction(1000) ** kg), f"value:{name}")
        got = {k: _num(v) for k, v in r._units.items() if k not in DIMLESS_ROOTS}
        want = {ROOT[k]: Fraction(e) for k, e in vec.items() if k in ROOT}
        eng.prove(got == want, f"root-units:{name}")
        dim = {k: _num(v) for k, v in q.dimensionality.items()}
        eng.prove(dim == {DIM[k]: Fraction(e) for k, e in vec.items() if k in DIM}, f"dimensionality:{name}")
        if sym is not None:
            eng.prove(ureg.get_symbol(name) == sym, f"symbol:{name}")
        # whatever symbol the registry reports for the entry, written by a user, denotes the entry
        rsym = ureg.get_symbol(name)
        try:
            rs = ureg.Quantity(x, rsym).to_root_units()
        except Exception as ex:  # noqa: BLE001
            eng.fail(f"reported-symbol-not-readable:{name}:{rsym}:{type(ex).__name__}", stop=False)
        else:
            eng.prove(Eq(rs.magnitude, x * value * Fraction(1000) ** kg), f"reported-symbol-reads-back:{name}")
            eng.prove(ureg.Unit(rsym) == ureg.Unit(name), f"reported-symbol-same-unit:{name}")
            # ... also inside an expression string (ureg('2 sym'), Quantity('2 sym'))
            if rsym.isidentifier():
                try:
                    re_ = ureg.parse_expression(f"2 {rsym}").to_root_units()
                    eng.prove(Eq(re_.magnitude, 2 * value * Fraction(1000) ** kg), f"reported-symbol-in-expression:{name}")
                    rq = ureg.Quantity(f"3 {rsym}").to_root_units()
                    eng.prove(Eq(rq.magnitude, 3 * value * Fraction(1000) ** kg), f"reported-symbol-in-Quantity-string:{name}")
                except Exception as ex:  # noqa: BLE001
                    eng.fail(f"reported-symbol-in-expression-raises:{name}:{rsym}:{type(ex).__name__}", stop=False)
        # the registry-level factor API answers from its own tables: same value
        f, ru = ureg.get_root_units(name)
        eng.prove(Eq(f, value * Fraction(1000) ** kg), f"get_root_units:{name}")
        eng.prove({k: _num(v) for k, v in ru._units.items() if k not in DIMLESS_ROOTS} == want, f"get_root_units-units:{name}")
        fb, bu = ureg.get_base_units(name)
        back = ureg.Quantity(fb, bu).to_root_units()
        eng.prove(Eq(back.magnitude, value * Fraction(1000) ** kg), f"get_base_units:{name}")


def h_entries_float(eng, names):
    """the same table in the float registry: to within a few ulp; temperatures likewise"""
    ureg = regs.float_default()
    tab = {n: (v, vec, sym) for n, v, vec, sym in stdtable.entries()}
    for name in names:
        value, vec, sym = tab[name]
        kg = vec.get("kg", 0)
        want = value * Fraction(1000) ** kg
        r = ureg.Quantity(1.0, name).to_root_units()
        eng.prove(abs(Fraction(r.magnitude) / want - 1) <= Fraction(1, 10**14), f"float-value:{name}")
        f, _ru = ureg.get_root_units(name)
        eng.prove(abs(Fraction(f) / want - 1) <= Fraction(1, 10**14), f"float-get_root_units:{name}")
        if sym is not None:
            eng.prove(format(ureg.Unit(name), "~") == sym, f"float-symbol:{name}")
    import numpy as np

    for name, sc, off, sym in stdtable.temperatures():
        for t in (0.0, 100.0, -40.0, 451.0, 25, 212):
            want = Fraction(t) * sc + off
            for form in ("ito_base_units", "ito_root_units", "to_base_units"):
                qi = ureg.Quantity(t, name)
                r_ = qi.to_base_units() if form == "to_base_units" else (getattr(qi, form)() or qi)
                eng.prove(abs(Fraction(float(r_.magnitude)) - want) <= Fraction(1, 10**10) and str(r_.units) == "kelvin", f"float-temperature-{form}:{name}:{t}")
    # integer arrays converted in place: refused, or the table's values -- never truncated
    for unit, dst, k in (("yard", "meter", Fraction(9144, 10000)), ("pound", "kilogram", Fraction(45359237, 100000000)), ("gallon", "meter**3", Fraction(3785411784, 10**12)), ("inch", "centimeter", Fraction(254, 100))):
        data = np.array([1, 2, 3, 10, 250])
        q = ureg.Quantity(data.copy(), unit)
        try:
            q.ito(dst)
        except Exception:  # noqa: BLE001
            eng.prove(list(q.magnitude) == list(data) and q.units == ureg.Unit(unit), f"float-int-array-in-place:{unit}:refused-and-untouched")
        else:
            eng.prove(all(abs(Fraction(float(g)) / (Fraction(int(d)) * k) - 1) <= Fraction(1, 10**12) for g, d in zip(q.magnitude, data)), f"float-int-array-in-place:{unit}:values-of-the-table")
    for name, sc, off, sym in stdtable.temperatures():
        for t in (0.0, 100.0, -40.0, 451.0):
            got = ureg.Quantity(t, name).to("kelvin").magnitude
            want = Fraction(t) * sc + off
            eng.prove(abs(Fraction(got) - want) <= Fraction(1, 10**11), f"float-temperature:{name}:{t}")


def h_system_accessor(eng, system):
    """ureg.sys.<system>.<spelling>: the system's own unit of that name (imperial gallon, not the
    US one), under its name, symbol and every alias"""
    ureg = regs.default(eng)
    x = eng.real("x")
    tab = {n: (v, vec, sym) for n, v, vec, sym in stdtable.entries()}
    acc = getattr(ureg.sys, system)
    pre = system + "_"
    for name, (value, vec, _sym) in tab.items():
        if not name.startswith(pre):
            continue
        d = ureg._units[name]
        spellings = {name[len(pre) :]} | {a[len(pre) :] for a in (d.aliases + ((d.symbol,) if d.symbol else ())) if a.startswith(pre)}
        kg = vec.get("kg", 0)
        for sp in sorted(spellings):
            if not sp.isidentifier():
                continue
            u = getattr(acc, sp)
            r = ureg.Quantity(x, u).to_root_units()
            eng.prove(Eq(r.magnitude, x * value * Fraction(1000) ** kg), f"sys.{system}.{sp}:value")
            eng.prove(u == ureg.Unit(name), f"sys.{system}.{sp}:is-{name}")
    # a unit the system does not rename is the registry's unit
    eng.prove(getattr(acc, "meter") == ureg.Unit("meter") and getattr(acc, "second") == ureg.Unit("second"), f"sys.{system}:plain-units")


def h_temperatures(eng):
    ureg = regs.default(eng)
    for name, s, o, sym in stdtable.temperatures():
        x = eng.real(f"x_{name}")
        k = ureg.Quantity(x, name).to("kelvin")
        eng.prove(Eq(k.magnitude, s * x + o), f"temperature:{name}")
        for form in ("ito_base_units", "ito_root_units", "ito"):
            qi = ureg.Quantity(x, name)
            qi.ito("kelvin") if form == "ito" else getattr(qi, form)()
            eng.prove(Eq(qi.magnitude, s * x + o) and str(qi.units) == "kelvin", f"temperature-{form}:{name}")
        back = ureg.Quantity(x, "kelvin").to(name)
        eng.prove(Eq(back.magnitude, (x - o) / s), f"temperature-from-kelvin:{name}")
        eng.prove(ureg.get_symbol(name) == sym, f"symbol:{name}")
        dim = {kk: _num(v) for kk, v in ureg.Quantity(x, name).dimensionality.items()}
        eng.prove(dim == {"[temperature]": 1}, f"dimensionality:{name}")


def h_prefixes(eng):
    ureg = regs.default(eng)
    x = eng.real("x")
    for name, value, sym in stdtable.prefixes():
        r = ureg.Quantity(x, name + "meter").to("meter")
        eng.prove(Eq(r.magnitude, x * value), f"prefix:{name}")
        r = ureg.Quantity(x, sym + "m").to("m")
        eng.prove(Eq(r.magnitude, x * value), f"prefix-symbol:{sym}")
        eng.prove(ureg.get_symbol(name + "meter") == sym + "m", f"prefix-symbol-text:{name}")


SI_UNITS = ["meter", "second", "gram", "ampere", "kelvin", "mole", "candela", "radian", "steradian", "hertz", "newton", "pascal", "joule", "watt", "coulomb", "volt", "farad", "ohm",
            "siemens", "weber", "tesla", "henry", "lumen", "lux", "becquerel", "gray", "sievert", "katal", "liter", "electron_volt", "byte", "bit"]  # fmt: skip


def h_prefix_cross(eng, unit):
    """SI brochure: a prefix symbol joined to a unit symbol denotes that multiple of the unit --
    unless the joined string is itself the standard symbol of a unit in the table (cd, Pa, ...)"""
    ureg = regs.default(eng)
    x = eng.real("x")
    table = {n: (v, vec, sym) for n, v, vec, sym in stdtable.entries()}
    std_symbols = {sym for _n, (_v, _vec, sym) in table.items() if sym}
    usym = table[unit][2] or unit
    for pname, pval, psym in stdtable.prefixes():
        if (len(psym) == 2 and psym != "da") != (unit in ("byte", "bit")):
            continue  # binary prefixes go with information units only
        text = psym + usym
        if text in std_symbols:
            continue
        try:
            r = ureg.Quantity(x, text).to(unit)
        except DimensionalityError:
            # known finding K9 ('mcd'): reported under its own label
            eng.fail(f"prefix-cross-read-as-another-unit:{text}", stop=False)
            continue
        eng.prove(Eq(r.magnitude, x * pval), f"prefix-cross:{text}")
        # (the canonical name may be that of an equal unit with its own entry, e.g. fm = fermi)
        eng.prove(format(ureg.Unit(pname + unit), "~") == text, f"prefix-cross-symbol:{text}")


MIN_DISCHARGED = {"H20.table": 500, "H20.temperature": 20, "H20.prefix": 90}


def cases(tier, seed):
    names = [n for n, *_ in stdtable.entries()]
    out = []
    for i in range(0, len(names), 12):
        chunk = names[i : i + 12]
        out.append(Case("H20.table", f"{i:03d}:{chunk[0]}", M, "h_entries", {"names": chunk}, validate=1))
    for i in range(0, len(names), 60):
        out.append(Case("H20.table", f"float:{i:03d}", M, "h_entries_float", {"names": names[i : i + 60]}, kind="conc"))
    out.append(Case("H20.temperature", "all", M, "h_temperatures", {}, validate=1))
    for system in ("imperial", "US"):
        out.append(Case("H20.table", f"system-accessor:{system}", M, "h_system_accessor", {"system": system}, validate=1))
    out.append(Case("H20.prefix", "all", M, "h_prefixes", {}, validate=1))
    for u in SI_UNITS:
        out.append(Case("H20.prefix", f"cross:{u}", M, "h_prefix_cross", {"unit": u}, validate=1))
    return out
