"""C05 -- equality, ordering and hashing agree with physical value."""

from __future__ import annotations

import itertools
import operator
from fractions import Fraction

from pint.errors import DimensionalityError, OffsetUnitCalculusError

from .. import covers, regs
from ..runner import Case
from ..sx.q import And, Eq, Iff, Implies, Not, Or

PROPERTY = "C05"
M = "pvlib.harness.c05"

META = {
    "explanation": "Quantity.__eq__/__ne__/compare/__hash__ of the real code run on symbolic magnitudes (all of Q) for "
    "unit pairs/triples chosen from an independent reading of the definition files; the oracle is the affine map "
    "to root units computed by that independent reader.",
    "functions_encoded": [
        "pint/facets/plain/quantity.py::PlainQuantity.__eq__, __ne__, compare, __lt__/__le__/__gt__/__ge__, __hash__ (inputs), to_base_units, to_root_units",
        "pint/facets/plain/unit.py::PlainUnit.compare, __eq__",
        "pint/compat.py::eq, zero_or_nan, isnan",
        "pint/facets/plain/registry.py::_convert, _get_conversion_factor, _get_root_units",
        "pint/facets/nonmultiplicative/registry.py::_convert, _validate_and_extract; definitions.py::OffsetConverter",
    ],
    "bounds": {"magnitudes": "all rationals (unbounded, symbolic)", "bare number operand": "all rationals (symbolic)", "units": "cover list + seeded same-dimension pairs/triples; all temperature-like pairs"},
    "enumerated_axes": [{"axis": "unit pairs / triples", "exhaustive": False}, {"axis": "temperature-like unit pairs", "exhaustive": True}],
    "outside_claim": ["float ties", "ndarray magnitudes", "units with irrational (inexact) factors"],
    "assumptions": ["REF (pvlib/ref/refdefs.py) reads the bundled definition files correctly; it is self-checked against pint on the unchanged tree"],
}


def _phys(eng, iu, x):
    return iu.num * x + iu.off


def _convertible(iu, iv):
    return not ({iu.kind, iv.kind} == {"offset", "delta"})


def h_eq_def(eng, u, v):
    """(Q(x,u) == Q(y,v))  <=>  same dimensionality and equal value in common units"""
    ureg = regs.default(eng)
    x, y = eng.real("x"), eng.real("y")
    a, b = ureg.Quantity(x, u), ureg.Quantity(y, v)
    iu, iv = covers.info(u), covers.info(v)
    expected = (iu.dims == iv.dims) and _convertible(iu, iv) and Eq(_phys(eng, iu, x), _phys(eng, iv, y))
    r = a == b
    eng.prove(Iff(r, expected), "eq-iff-physical")
    ne = a != b
    eng.prove(Iff(ne, Not(r)), "ne-is-negation")
    rs = b == a
    eng.prove(Iff(r, rs), "eq-symmetric")
    eng.prove(Iff(a == a, True), "eq-reflexive")


def h_eq_trans(eng, u, v, w):
    ureg = regs.default(eng)
    x, y, z = eng.real("x"), eng.real("y"), eng.real("z")
    a, b, c = ureg.Quantity(x, u), ureg.Quantity(y, v), ureg.Quantity(z, w)
    ab = a == b
    bc = b == c
    ac = a == c
    eng.prove(Implies(And(ab, bc), ac), "eq-transitive")


def h_hash(eng, u, v):
    """a == b  =>  hash(a) == hash(b).

    A symbolic magnitude has no hash; the engine runs in hash_mode="const": every symbolic
    number hashes to one constant and is logged.  hash(a) == hash(b) then says that
    everything *but* the hashed numbers agrees, and the logged numbers are proved pairwise
    equal.  (Stronger than comparing hash values: no collision can hide a difference.)"""
    ureg = regs.default(eng)
    x, y = eng.real("x"), eng.real("y")
    a, b = ureg.Quantity(x, u), ureg.Quantity(y, v)
    if not (a == b):
        raise_stop(eng)
    if eng.symbolic:
        del eng.hash_log[:]
        ha = hash(a)
        la = list(eng.hash_log)
        del eng.hash_log[:]
        hb = hash(b)
        lb = list(eng.hash_log)
        eng.prove(ha == hb, "sym:hash-structure")
        eng.prove(len(la) == len(lb), "sym:hash-number-count")
        for i, (ta, tb) in enumerate(zip(la, lb)):
            eng.prove(ta == tb, f"sym:hash-number-{i}")
    else:
        eng.prove(hash(a) == hash(b), "conc:hash-equal")
    eng.prove(Eq(a.to_base_units().magnitude, b.to_base_units().magnitude), "equal-base-magnitude")


def raise_stop(eng):
    from ..sx.engine import StopPath

    raise StopPath("not the case under study")


def h_order(eng, u, v):
    ureg = regs.default(eng)
    x, y = eng.real("x"), eng.real("y")
    a, b = ureg.Quantity(x, u), ureg.Quantity(y, v)
    iu, iv = covers.info(u), covers.info(v)
    if iu.dims != iv.dims:
        for name, op in (("lt", operator.lt), ("le", operator.le), ("gt", operator.gt), ("ge", operator.ge)):
            try:
                op(a, b)
            except DimensionalityError:
                continue
            eng.fail(f"order-cross-dimension-{name}-no-error")
        eng.prove(Iff(a == b, False), "eq-cross-dimension-false")
        return
    pa, pb = _phys(eng, iu, x), _phys(eng, iv, y)
    lt, le, gt, ge = a < b, a <= b, a > b, a >= b
    eng.prove(Iff(lt, pa < pb), "lt-agrees")
    eng.prove(Iff(le, pa <= pb), "le-agrees")
    eng.prove(Iff(gt, pa > pb), "gt-agrees")
    eng.prove(Iff(ge, pa >= pb), "ge-agrees")
    if _convertible(iu, iv):
        e = a == b
        # exactly one of <, ==, >
        eng.prove(Or(lt, e, gt), "trichotomy-some")
        eng.prove(And(Not(And(lt, e)), Not(And(lt, gt)), Not(And(e, gt))), "trichotomy-one")


def h_unit_order(eng, u, v):
    """Unit ordering is the ordering of the quantities 1*unit (offset units included); across
    dimensions it raises; against a bare number it is the ordering of Quantity(1, unit)"""
    ureg = regs.default(eng)
    iu, iv = covers.info(u), covers.info(v)
    a, b = ureg.Unit(u), ureg.Unit(v)
    ops = (("lt", operator.lt), ("le", operator.le), ("gt", operator.gt), ("ge", operator.ge))
    if iu.dims != iv.dims:
        for name, op in ops:
            try:
                op(a, b)
            except DimensionalityError:
                continue
            eng.fail(f"unit-order-cross-dimension-{name}-no-error")
        eng.prove(not (a == b), "unit-eq-cross-dimension-false")
        return
    pa, pb = _phys(eng, iu, 1), _phys(eng, iv, 1)
    for name, op in ops:
        eng.prove(bool(op(a, b)) == bool(op(pa, pb)), f"unit-{name}")
        # the same through quantities
        eng.prove(bool(op(a, b)) == bool(op(ureg.Quantity(1, u), ureg.Quantity(1, v))), f"unit-{name}-as-quantity")
    eng.prove((a == b) == (u == v), "unit-eq-is-structural")
    if not iu.dims and iu.kind != "offset":
        c = eng.real("c")
        for name, op in ops:
            eng.prove(Iff(op(a, c), op(pa, c)), f"unit-{name}-number")


def h_bare(eng, u, huge=False):
    """comparison with a bare number: defined for dimensionless quantities and for zero
    (huge: the bare number is the concrete integer 10**400, beyond the range of a float)"""
    ureg = regs.default(eng)
    x, c = eng.real("x"), eng.real("c")
    if huge:
        c = 10**400 if not eng.symbolic else eng.num(10**400)
    a = ureg.Quantity(x, u)
    iu = covers.info(u)
    dimless = not iu.dims
    nonmult = iu.kind == "offset"
    # equality
    try:
        r = a == c
    except OffsetUnitCalculusError:
        eng.prove(And(nonmult, Eq(c, 0)), "eq-number-offset-error-only-for-zero")
        r = None
    if r is not None:
        if dimless:
            eng.prove(Iff(r, Or(And(Eq(c, 0), Eq(x, 0)), And(Not(Eq(c, 0)), Eq(_phys(eng, iu, x), c)))), "eq-number-dimensionless")
        else:
            eng.prove(Implies(Not(Eq(c, 0)), Not(r)), "eq-number-nonzero-false")
            eng.prove(Implies(Eq(c, 0), Iff(r, Eq(x, 0))), "eq-number-zero")
            eng.prove(Not(And(nonmult, Eq(c, 0))), "eq-number-offset-zero-must-raise")
    # ordering
    try:
        lt = a < c
    except ValueError:
        eng.prove(And(not dimless, Not(Eq(c, 0))), "lt-number-error-only-when-undefined")
        return
    except OffsetUnitCalculusError:
        eng.prove(And(nonmult, Eq(c, 0)), "lt-number-offset-error-only-for-zero")
        return
    if dimless:
        eng.prove(Iff(lt, _phys(eng, iu, x) < c), "lt-number-dimensionless")
    else:
        eng.prove(Eq(c, 0), "lt-number-defined-only-for-zero")
        eng.prove(Iff(lt, x < 0), "lt-number-zero")


def h_nan(eng):
    """NaN magnitudes (float registry): never equal to anything, != always true, never ordered;
    comparing does not raise; infinities order as numbers do"""
    ureg = regs.float_default()
    Qy = ureg.Quantity
    nan, inf_ = float("nan"), float("inf")
    P = eng.prove
    others = [Qy(nan, "meter"), Qy(0.0, "meter"), Qy(0.0, "centimeter"), Qy(1.0, "meter"), Qy(nan, "centimeter"), Qy(0.0, "second"), Qy(nan, "second"), Qy(nan, "degC"), Qy(0.0, "degC"), Qy(nan, "")]
    for unit in ("meter", "degC", "", "percent"):
        a = Qy(nan, unit)
        for b in others:
            P((a == b) is False or bool(a == b) is False, f"nan:eq-false:{unit}:{b.units}")
            P(bool(a != b) is True, f"nan:ne-true:{unit}:{b.units}")
            P(bool(b == a) is False, f"nan:eq-false-reflected:{unit}:{b.units}")
            if a.dimensionality == b.dimensionality and unit != "degC" and str(b.units) != "degree_Celsius":
                for name, op in (("lt", operator.lt), ("le", operator.le), ("gt", operator.gt), ("ge", operator.ge)):
                    P(bool(op(a, b)) is False and bool(op(b, a)) is False, f"nan:{name}-false:{unit}:{b.units}")
        for num in (0, 0.0, 1.5, nan):
            if unit == "degC" and not num == 1.5:
                continue  # zero (and NaN) against an offset unit is refused as ambiguous: H05.e
            try:
                r = a == num
            except Exception as ex:  # noqa: BLE001
                eng.fail(f"nan:eq-number-raises:{unit}:{num}", detail=type(ex).__name__, stop=False)
                continue
            P(bool(r) is False, f"nan:eq-number-false:{unit}:{num}")
    # the answer depends on the values compared, not on whether both operands are one object
    import copy

    import numpy as np

    for unit in ("meter", "degC", "", "percent", "hertz"):
        for mag in (nan, 0.0, 2.5, inf_):
            a = Qy(mag, unit)
            P(bool(a == a) == bool(a == copy.copy(a)) and bool(a != a) == bool(a != copy.copy(a)), f"same-object-as-equal-copy:{unit}:{mag}")
            if unit not in ("degC",):
                P(bool(a <= a) == bool(a <= copy.copy(a)) and bool(a < a) == bool(a < copy.copy(a)), f"same-object-as-equal-copy-order:{unit}:{mag}")
        arr = Qy(np.array([nan, 1.0, 0.0]), unit)
        P(list(arr == arr) == list(arr == copy.copy(arr)) == [False, True, True], f"same-object-as-equal-copy-array:{unit}")
        P(list(arr != arr) == [True, False, False], f"same-object-ne-array:{unit}")
    # array magnitudes: every comparison is the element-wise scalar comparison (no whole-array
    # shortcut decides for single elements), also against a scalar quantity
    vals = [0.0, 5.0, -1.0, 0.05, 500.0]
    for ua, ub in (("meter", "centimeter"), ("meter", "meter"), ("centimeter", "meter"), ("second", "millisecond"), ("meter", "second"), ("percent", ""), ("radian", "degree")):
        for av in ([0.0, 0.0], [0.0, 5.0], [5.0, 0.0], [0.05, 5.0], [0.0, 0.0, 0.0]):
            for bv in ([0.0, 5.0], [0.0, 0.0], [500.0, 0.0], [5.0, 500.0], [0.0, 5.0, 500.0]):
                if len(av) != len(bv):
                    continue
                A, B = Qy(np.array(av), ua), Qy(np.array(bv), ub)
                want = [bool(Qy(x_, ua) == Qy(y_, ub)) for x_, y_ in zip(av, bv)]
                got = A == B
                P(hasattr(got, "__len__") and list(got) == want, f"array-eq-elementwise:{ua},{ub}:{av}=={bv}")
                gotn = A != B
                P(hasattr(gotn, "__len__") and list(gotn) == [not w for w in want], f"array-ne-elementwise:{ua},{ub}:{av}!={bv}")
                if A.dimensionality == B.dimensionality:
                    P(list(A < B) == [bool(Qy(x_, ua) < Qy(y_, ub)) for x_, y_ in zip(av, bv)], f"array-lt-elementwise:{ua},{ub}:{av}<{bv}")
            for sv in vals[:3]:
                got = Qy(sv, ua) == Qy(np.array([0.0, 5.0, 500.0]), ub)
                want = [bool(Qy(sv, ua) == Qy(y_, ub)) for y_ in (0.0, 5.0, 500.0)]
                # (across dimensions one False for the whole comparison is as good as an array of them)
                same_answer = lambda g: (list(g) == want) if hasattr(g, "__len__") else all(w == bool(g) for w in want)  # noqa: E731
                P(same_answer(got), f"scalar-vs-array-eq:{ua},{ub}:{sv}")
                got = Qy(np.array([0.0, 5.0, 500.0]), ub) == Qy(sv, ua)
                P(same_answer(got), f"array-vs-scalar-eq:{ub},{ua}:{sv}")
    # an active context that relates two dimensions changes what converts, not what is comparable:
    # ordering across dimensions still raises, == is still False
    for ctx in ("sp", "boltzmann", "energy"):
        with ureg.context(ctx):
            for qa, qb in ((Qy(1.0, "meter"), Qy(2.0, "hertz")), (Qy(1.0, "nanometer"), Qy(2.0, "joule")), (Qy(1.0, "kelvin"), Qy(2.0, "joule")), (Qy(1.0, "gram"), Qy(1.0, "joule"))):
                for name, op in (("lt", operator.lt), ("le", operator.le), ("gt", operator.gt), ("ge", operator.ge)):
                    try:
                        op(qa, qb)
                    except DimensionalityError:
                        P(True, f"context:{ctx}:{name}:cross-dimension-raises:{qa.units},{qb.units}")
                    else:
                        eng.fail(f"context:{ctx}:{name}:cross-dimension-ordered:{qa.units},{qb.units}", stop=False)
                    try:
                        op(qa.units, qb.units)
                    except DimensionalityError:
                        P(True, f"context:{ctx}:{name}:unit-cross-dimension-raises:{qa.units},{qb.units}")
                    else:
                        eng.fail(f"context:{ctx}:{name}:unit-cross-dimension-ordered:{qa.units},{qb.units}", stop=False)
                P(bool(qa == qb) is False and bool(qa != qb) is True, f"context:{ctx}:eq-false:{qa.units},{qb.units}")
            P(bool(Qy(1.0, "meter") < Qy(200.0, "centimeter")) and bool(Qy(1.0, "inch") == Qy(2.54, "centimeter")), f"context:{ctx}:same-dimension-as-usual")
    # floats one or a few ulp apart are different numbers (pairs whose conversion is exact in
    # binary, so that no rounding of the factor is involved; ties of inexact factors are outside)
    import math

    for base, u1, u2 in ((3.0, "meter", "centimeter"), (2.0, "hour", "second"), (7.0, "kilogram", "gram"), (5.0, "kilometer", "meter")):
        a = Qy(base, u1)
        centre = a.to(u2).magnitude
        P(bool(a == Qy(centre, u2)) and bool(Qy(centre, u2) == a) and hash(a) == hash(Qy(centre, u2)), f"neighbouring-floats:centre-equal:{base}{u1}")
        up = down = centre
        for n_ in range(1, 5):
            up, down = math.nextafter(up, math.inf), math.nextafter(down, -math.inf)
            for v in (up, down):
                b = Qy(v, u2)
                P(not bool(a == b) and not bool(b == a) and bool(a != b), f"neighbouring-floats:{n_}-ulp-apart-is-unequal:{base}{u1}:{v!r}")
    # a float and a Fraction are equal when they are the same number
    from fractions import Fraction as F_

    fr = regs.fraction_default()
    for reg in (ureg, fr):
        for fa, fl in ((F_(1, 10), 0.1), (F_(1, 3), 1 / 3), (F_(1, 2), 0.5), (F_(0.1), 0.1)):
            same = F_(fl) == fa
            a, b = reg.Quantity(fa, "meter"), reg.Quantity(fl, "meter")
            for x_, y_ in ((a, b), (b, a)):
                e, l, g = bool(x_ == y_), bool(x_ < y_), bool(x_ > y_)
                P(e == same, f"mixed-number-types:eq-iff-same-number:{fa},{fl!r}")
                P(e + l + g == 1, f"mixed-number-types:trichotomy:{fa},{fl!r}")
            P(bool(reg.Quantity(fa, "") == fl) == same, f"mixed-number-types:bare-number:{fa},{fl!r}")
    P(Qy(inf_, "meter") > Qy(1e300, "kilometer") and Qy(-inf_, "meter") < Qy(-1e300, "kilometer"), "inf:orders-beyond-everything")
    P(Qy(inf_, "meter") == Qy(inf_, "centimeter") and not (Qy(inf_, "meter") == Qy(-inf_, "meter")), "inf:equality")
    P(hash(Qy(inf_, "meter")) == hash(Qy(inf_, "centimeter")), "inf:hash")


MIN_DISCHARGED = {"H05.a": 20, "H05.b": 5, "H05.c": 5, "H05.d": 20, "H05.e": 10}


def cases(tier, seed):
    out = []
    big = tier == "thorough"
    # H05.a definition: every ordered temperature-like pair + cover pairs + cross-dimension pairs
    temp = covers.TEMPERATURE
    for u, v in itertools.product(temp, temp):
        if u != v:
            out.append(Case("H05.a", f"{u}~{v}", M, "h_eq_def", {"u": u, "v": v}))
    pairs = covers.all_same_dim_pairs() if big else covers.same_dim_pairs(seed, 60)
    for u, v in pairs:
        out.append(Case("H05.a", f"{u}~{v}", M, "h_eq_def", {"u": u, "v": v}))
    for u, v in covers.cross_dim_pairs(seed, 600 if big else 12):
        out.append(Case("H05.a", f"{u}~{v}", M, "h_eq_def", {"u": u, "v": v}))
    # dimensionless units with distinct roots
    dl = ["radian", "count", "bit", "percent", "degree", "ppm"]
    for u, v in itertools.permutations(dl, 2):
        out.append(Case("H05.a", f"{u}~{v}", M, "h_eq_def", {"u": u, "v": v}))
    # H05.b transitivity over triples
    import random

    rnd = random.Random(f"c05:{seed}")
    triples = [
        ("inch", "centimeter", "meter"),
        ("degree_Celsius", "kelvin", "degree_Fahrenheit"),
        ("degree_Celsius", "degree_Fahrenheit", "degree_Rankine"),
        ("kelvin", "delta_degree_Celsius", "degree_Rankine"),
        ("hertz", "becquerel", "count"),
        ("radian", "count", "percent"),
    ]
    for off in ("degree_Celsius", "degree_Fahrenheit", "degree_Reaumur"):
        for ab in ("kelvin", "degree_Rankine"):
            for de in ("delta_degree_Celsius", "delta_degree_Fahrenheit"):
                t = (off, ab, de)
                out.append(Case("H05.b-offset-abs-delta", "~".join(t), M, "h_eq_trans", {"u": t[0], "v": t[1], "w": t[2]}))
    cl = [v for v in covers.classes(kinds=("base", "mult", "dimensionless")).values() if len(v) >= 3]
    for _ in range(4000 if big else 30):
        triples.append(tuple(rnd.sample(rnd.choice(cl), 3)))
    for t in triples:
        out.append(Case("H05.b", "~".join(t), M, "h_eq_trans", {"u": t[0], "v": t[1], "w": t[2]}, weight=2.0))
    # H05.c hash inputs
    hp = [("hertz", "becquerel"), ("radian", "count"), ("inch", "centimeter"), ("degree_Celsius", "kelvin"), ("percent", "ppm"), ("degree", "radian")]
    hp += pairs[: (2000 if big else 30)]
    for u, v in hp:
        out.append(Case("H05.c", f"{u}~{v}", M, "h_hash", {"u": u, "v": v}, opts={"hash_mode": "const"}))
    # H05.d ordering
    pos_pairs = [(u, v) for u, v in pairs if covers.info(u).num > 0 and covers.info(v).num > 0]
    op_pairs = pos_pairs[: (4000 if big else 40)] + covers.cross_dim_pairs(seed + 1, 400 if big else 8)
    op_pairs += [(u, v) for u, v in itertools.permutations(temp, 2)]
    for u, v in op_pairs:
        out.append(Case("H05.d", f"{u}~{v}", M, "h_order", {"u": u, "v": v}))
    unit_pairs = pos_pairs[: (1500 if big else 15)] + list(itertools.permutations(temp, 2)) + covers.cross_dim_pairs(seed + 2, 20 if big else 4)
    unit_pairs += [("percent", "ppm"), ("radian", "degree"), ("count", "percent")]
    for u, v in unit_pairs:
        out.append(Case("H05.d-unit", f"{u}~{v}", M, "h_unit_order", {"u": u, "v": v}))
    out.append(Case("H05.e", "nan-and-inf", M, "h_nan", {}, kind="conc"))
    # H05.e bare numbers
    for u in ["meter", "radian", "percent", "count", "degree", "kelvin", "degree_Celsius", "delta_degree_Celsius", "newton", "ppm", "byte"]:
        out.append(Case("H05.e", u, M, "h_bare", {"u": u}))
        out.append(Case("H05.e", u + ":huge", M, "h_bare", {"u": u, "huge": True}))
    out.append(Case("H05.obs", "observed", "pvlib.harness.observed", "h_c05", {}, kind="conc"))
    return out
