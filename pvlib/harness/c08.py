"""C08 -- unit names resolve deterministically: exact names first, then prefix+unit+plural.

SX part (this file): strings are concrete (enumerated exhaustively over a small alphabet on
generated colliding registries, and over the prefix x unit x plural cross product of the
default registry); prefix values, unit scales and the magnitude are symbolic, so 'the prefix
factor is applied exactly once' is proved for all values.  CH part (pvlib/ch/kernels_c08.py,
run through pvlib/ch/runner.py): the string itself is symbolic (all unicode strings up to a
length bound) on the same generated registries."""

from __future__ import annotations

from fractions import Fraction
import itertools
import random

import pint
from pint.errors import OffsetUnitCalculusError, UndefinedUnitError

from .. import covers, regs
from ..ref import refdefs
from ..runner import Case
from ..sx.q import And, Eq, Not, Or

PROPERTY = "C08"
M = "pvlib.harness.c08"

META = {
    "explanation": "name resolution of the real registry (parse_unit_name, _yield_unit_triplets, _dedup_candidates, get_name, get_symbol, __contains__, __getattr__, case-insensitive index, lazy "
    "registration of prefixed units): for every string of the enumerated domains the accepted reading must be one allowed by the documented rule (exact spelling first, else prefix+unit[+s]), strings with "
    "no reading must raise UndefinedUnitError, the answer must not depend on earlier lookups, canonical name and symbol must be those of the definitions, and the root magnitude is proved equal to "
    "x * prefix value * unit scale for all symbolic values (factor applied exactly once). A CrossHair run makes the string itself symbolic on the generated registries.",
    "functions_encoded": [
        "pint/facets/plain/registry.py::parse_unit_name, _yield_unit_triplets, _dedup_candidates, get_name, get_symbol, _parse_units_as_container, __getattr__, __contains__",
        "pint/util.py::getattr_maybe_raise",
    ],
    "bounds": {"generated registries": "all strings of length <= 5 over the 6-letter alphabet of the colliding spellings (9330 strings) x 2 registries; CrossHair: all unicode strings of length <= 4", "default registry": "prefix x unit spelling x plural cross product: quick seeded 6000 strings, thorough all ~1.3e5", "numbers": "prefix values, scales, magnitude: all positive rationals (symbolic)"},
    "enumerated_axes": [{"axis": "strings over the alphabet, length <= 5", "exhaustive": True}, {"axis": "default-registry cross product", "exhaustive": False}],
    "outside_claim": ["strings longer than the bounds", "which of several valid readings is chosen for an ambiguous string (only determinism and validity are required)"],
}

# two registries with deliberately colliding spellings (prefix k, ki, m; units m, min, in, kin, ks, s ...)
COLLIDING = {
    "A": {
        "prefixes": [("kilo", "k", ["ki"]), ("milli", "m", [])],
        "units": [("mim", "m", ["mi"]), ("min", None, ["mn"]), ("inn", "in", []), ("kin", None, []), ("sik", "s", ["ks"]), ("nim", None, ["ss"])],
    },
    "B": {
        "prefixes": [("mi", "i", []), ("k", None, ["kk"])],
        "units": [("s", None, []), ("is", None, ["ms"]), ("ni", "n", []), ("kis", None, []), ("im", "mm", ["ik"])],
    },
}
ALPHABET = "kimns"


def _build(eng, which):
    spec = COLLIDING[which]
    L = eng.lit
    pv, sv = {}, {}
    lines = ["b = [dim]"]
    for i, (name, sym, aliases) in enumerate(spec["prefixes"]):
        pv[name] = eng.real(f"p{i}")
        eng.assume(pv[name] > 0)
        lines.append(" = ".join([f"{name}-", L(pv[name]), (sym + "-") if sym else "_"] + [a + "-" for a in aliases]))
    for i, (name, sym, aliases) in enumerate(spec["units"]):
        sv[name] = eng.real(f"s{i}")
        eng.assume(sv[name] > 0)
        lines.append(" = ".join([name, f"{L(sv[name])} * b", sym or "_"] + aliases))
    ureg = pint.UnitRegistry(lines, non_int_type=eng.ntype, on_redefinition="raise")
    return ureg, pv, sv


def _readings(spec, s):
    """all readings allowed by the documented rule; 'exact' if s is a defined spelling"""
    unit_of = {}
    for name, sym, aliases in spec["units"]:
        for sp in [name] + ([sym] if sym else []) + aliases:
            unit_of[sp] = name
    unit_of["b"] = "b"
    pre_of = {}
    for name, sym, aliases in spec["prefixes"]:
        for sp in [name] + ([sym] if sym else []) + aliases:
            pre_of[sp] = name
    if s in unit_of:
        return "exact", {("", unit_of[s])}
    out = set()
    for suffix in ("", "s"):
        if suffix and not s.endswith("s"):
            continue
        stem = s[:-1] if suffix else s
        if suffix and stem in unit_of and len(stem) > 1:
            out.add(("", unit_of[stem]))
        for p, pname in pre_of.items():
            if stem.startswith(p):
                u = stem[len(p) :]
                if suffix and len(u) == 1:
                    continue
                if u in unit_of:
                    out.add((pname, unit_of[u]))
    return "derived", out


def h_colliding(eng, which, strings):
    ureg, pv, sv = _build(eng, which)
    spec = COLLIDING[which]
    x = eng.real("x")
    psym = {n: (s or n) for n, s, _a in spec["prefixes"]}
    usym = {n: (s or n) for n, s, _a in spec["units"]}
    usym["b"] = "b"
    sv = dict(sv)
    sv["b"] = 1
    for s in strings:
        kind, rd = _readings(spec, s)
        try:
            cname = ureg.get_name(s)
        except UndefinedUnitError:
            eng.prove(not rd, f"undefined-only-without-reading:{s}")
            eng.prove(s not in ureg, f"contains-agrees:{s}")
            continue
        eng.prove(bool(rd), f"accepted-only-with-a-reading:{s}")
        if not rd:
            continue
        # which reading was taken: canonical name = prefix name + unit name
        taken = [(p, u) for (p, u) in rd if p + u == cname]
        eng.prove(len(taken) >= 1, f"canonical-name-is-a-valid-reading:{s}")
        if not taken:
            continue
        if kind == "exact":
            eng.prove(cname == next(iter(rd))[1], f"exact-spelling-wins:{s}")
        p, u = taken[0]
        if p and (p + u) in usym:
            # known defect K6: the memo of prefix+unit is stored under the concatenated canonical
            # names; when that string is the name of another defined unit the two are confused
            eng.fail(f"prefixed-canonical-name-collides-with-defined-unit:{s}", stop=False)
            continue
        want = x * (pv[p] if p else 1) * sv[u]
        r = ureg.Quantity(x, s).to_root_units()
        # several readings may share the canonical name only if they are the same reading
        eng.prove(Or(*[Eq(r.magnitude, x * (pv[pp] if pp else 1) * sv[uu]) for pp, uu in taken]), f"factor-applied-once:{s}")
        eng.prove(ureg.get_symbol(s) == (psym[p] if p else "") + usym[u], f"symbol:{s}")
        eng.prove(s in ureg, f"contains:{s}")
        eng.prove(str(getattr(ureg, s)) == cname, f"getattr:{s}")
        # asked again (the prefixed unit is now registered): same answer
        eng.prove(ureg.get_name(s) == cname, f"second-lookup-same:{s}")
        r2 = ureg.Quantity(x, s).to_root_units()
        eng.prove(Eq(r2.magnitude, r.magnitude), f"second-lookup-same-factor:{s}")


def h_history(eng, which, first, second):
    """the answer for ``second`` does not depend on having looked up ``first`` before"""
    ureg, pv, sv = _build(eng, which)
    fresh, _, _ = _build_twin(eng, which, pv, sv)
    x = eng.real("x")

    def ask(reg, s):
        try:
            n = reg.get_name(s)
            return n, reg.get_symbol(s), reg.Quantity(x, s).to_root_units().magnitude
        except UndefinedUnitError:
            return None

    ask(ureg, first)
    a, b = ask(ureg, second), ask(fresh, second)
    eng.prove((a is None) == (b is None), f"history:{first}>{second}:defined")
    if a is not None and b is not None:
        eng.prove(a[0] == b[0] and a[1] == b[1], f"history:{first}>{second}:name-symbol")
        eng.prove(Eq(a[2], b[2]), f"history:{first}>{second}:factor")


_CHILD_CASEI = r"""
import json, logging, sys
import pint
logging.disable(logging.CRITICAL)
u = pint.UnitRegistry()
out = {}
for s in sys.argv[1:]:
    try:
        out[s] = [u.get_name(s, False), str(u.parse_units(s, case_sensitive=False)), [list(t) for t in u.parse_unit_name(s, False)][:1]]
    except Exception as ex:
        out[s] = type(ex).__name__
print(json.dumps(out))
"""


def h_case_insensitive_across_processes(eng):
    """(concrete) a case-insensitive look-up gives the same reading in every process -- spellings
    that differ only in case (b / B, ...) are candidates in an order that must not follow string
    hash randomisation -- and a spelling written in its exact case keeps its exact reading"""
    import json
    import os
    import subprocess
    import sys

    strings = ["kb", "kB", "Kb", "KB", "mb", "mB", "Mb", "MB", "gb", "GB", "ub", "kbs", "pa", "PA", "mpa", "MPA", "kh", "KH", "mh", "kt", "KT", "mt", "MT", "kc", "KC", "mc", "kg", "KG", "ml", "ML", "kpa", "ha", "HA", "kPa", "mT", "MHz"]

    def run(seed):
        env = dict(os.environ, PYTHONPATH="/repo", PYTHONHASHSEED=str(seed))
        r = subprocess.run([sys.executable, "-c", _CHILD_CASEI] + strings, capture_output=True, text=True, env=env, timeout=300)
        if r.returncode != 0:
            return {"error": r.stderr.strip().splitlines()[-1:] or ["?"]}
        return json.loads(r.stdout.strip().splitlines()[-1])

    runs = {seed: run(seed) for seed in (0, 2, 3, 4, 5, 7, 11, 12)}
    ref = runs[0]
    eng.prove("error" not in ref, "casei-across-processes:child-works")
    for s_ in strings:
        answers = {json.dumps(r.get(s_)) for r in runs.values()}
        if len(answers) != 1:
            eng.fail(f"casei-across-processes:{s_}:reading-depends-on-the-hash-seed", detail=" / ".join(sorted(answers))[:300], stop=False)
        else:
            eng.prove(True, f"casei-across-processes:{s_}:same-reading")
    # exact-case spellings keep their case-sensitive reading
    import pint

    ureg = pint.UnitRegistry()
    for s_ in ("kB", "mb", "MB", "Mb", "kPa", "mT", "MHz"):
        exact = ureg.get_name(s_)
        for seed, r in runs.items():
            got = r.get(s_) if s_ in r else None
            if got is not None and not isinstance(got, str):
                eng.prove(got[0] == exact, f"casei-across-processes:{s_}:exact-case-spelling-keeps-its-reading:seed={seed}")


def h_late_prefix(eng, which, form):
    """a prefix that arrives through define()/load_definitions() after the registry has been used:
    every spelling is then read as by a registry that had the line from the start"""
    ureg, pv, sv = _build(eng, which)
    twin_lines = []
    spec = COLLIDING[which]
    L = eng.lit
    pn, x = eng.real("pn"), eng.real("x")
    eng.assume(pn > 0)
    # (a name, a symbol and an alias that none of the registry's own spellings uses)
    line = f"sn- = {L(pn)} = n- = nn-" if which == "A" else f"nk- = {L(pn)} = sk- = nn-"
    pre_spellings = ("sn", "n", "nn") if which == "A" else ("nk", "sk", "nn")
    lines = ["b = [dim]"]
    for name, sym, aliases in spec["prefixes"]:
        lines.append(" = ".join([f"{name}-", L(pv[name]), (sym + "-") if sym else "_"] + [a + "-" for a in aliases]))
    lines.append(line)
    for name, sym, aliases in spec["units"]:
        lines.append(" = ".join([name, f"{L(sv[name])} * b", sym or "_"] + aliases))
    twin = pint.UnitRegistry(lines, non_int_type=eng.ntype, on_redefinition="raise")
    # history: exact, prefixed and undefined look-ups, a conversion
    first_unit = spec["units"][0][0]
    for s_ in (first_unit, spec["prefixes"][0][0] + first_unit, pre_spellings[0] + first_unit, "b"):
        try:
            ureg.get_name(s_)
            ureg.Quantity(x, s_).to_root_units()
        except UndefinedUnitError:
            pass
    (pre_spellings[1] + first_unit) in ureg
    if form == "define":
        ureg.define(line)
    else:
        ureg.load_definitions([line])

    def ask(reg, s_):
        try:
            return reg.get_name(s_), reg.Quantity(x, s_).to_root_units().magnitude, s_ in reg
        except UndefinedUnitError:
            return None

    stems = []
    for name, sym, aliases in spec["units"]:
        stems += [name] + ([sym] if sym else []) + aliases
    for ps in pre_spellings:
        for st in stems + ["b"]:
            for suffix in ("", "s"):
                text = ps + st + suffix
                a, b = ask(ureg, text), ask(twin, text)
                eng.prove((a is None) == (b is None), f"late-prefix:{form}:{text}:defined-as-in-a-registry-that-had-it-from-the-start")
                if a is not None and b is not None:
                    eng.prove(a[0] == b[0] and a[2] == b[2], f"late-prefix:{form}:{text}:name")
                    eng.prove(Eq(a[1], b[1]), f"late-prefix:{form}:{text}:factor")
    # absolute: the new prefix in front of the first unit's canonical name
    a = ask(ureg, pre_spellings[0] + first_unit)
    eng.prove(a is not None and a[0] == pre_spellings[0] + first_unit, f"late-prefix:{form}:canonical-reading")
    if a is not None:
        eng.prove(Eq(a[1], x * pn * sv[first_unit]), f"late-prefix:{form}:canonical-factor")


def _build_twin(eng, which, pv, sv):
    spec = COLLIDING[which]
    L = eng.lit
    lines = ["b = [dim]"]
    for name, sym, aliases in spec["prefixes"]:
        lines.append(" = ".join([f"{name}-", L(pv[name]), (sym + "-") if sym else "_"] + [a + "-" for a in aliases]))
    for name, sym, aliases in spec["units"]:
        lines.append(" = ".join([name, f"{L(sv[name])} * b", sym or "_"] + aliases))
    return pint.UnitRegistry(lines, non_int_type=eng.ntype, on_redefinition="raise"), pv, sv


def h_default_cross(eng, items):
    """default registry: p+u+s strings; reading valid per the documented rule (REF), factor once"""
    ureg = regs.default(eng)
    d = refdefs.default()
    inf = covers.infos()
    for i, text in enumerate(items):
        x = eng.real(f"x{i}")
        if text in d.spellings:
            rd = {("", d.spellings[text])}
        else:
            rd = set()
            for suffix in ("", "s"):
                if suffix and not text.endswith("s"):
                    continue
                stem = text[:-1] if suffix else text
                if suffix and len(stem) > 1 and stem in d.spellings:
                    rd.add(("", d.spellings[stem]))
                for p, (pname, _pv, _ps) in d.prefixes.items():
                    if stem.startswith(p):
                        u = stem[len(p) :]
                        if suffix and len(u) == 1:
                            continue
                        if u in d.spellings:
                            rd.add((pname, d.spellings[u]))
        try:
            cname = ureg.get_name(text)
        except UndefinedUnitError:
            eng.prove(not rd, f"undefined-only-without-reading:{text}")
            continue
        except OffsetUnitCalculusError:
            eng.prove(any(p and inf[u].kind in ("offset", "log") for p, u in rd), f"prefix-refused-only-on-nonmultiplicative:{text}")
            continue
        eng.prove(bool(rd), f"accepted-only-with-a-reading:{text}")
        taken = [(p, u) for p, u in rd if p + u == cname]
        eng.prove(bool(taken), f"canonical-name-is-a-valid-reading:{text}")
        if not taken:
            continue
        p, u = taken[0]
        info = inf[u]
        if info.kind in ("base", "mult", "dimensionless") and not info.inexact:
            r = ureg.Quantity(x, text).to_root_units()
            eng.prove(Or(*[Eq(r.magnitude, x * (d.prefix_defs[pp][0] if pp else 1) * inf[uu].num) for pp, uu in taken]), f"factor-applied-once:{text}")
        syms = {((d.prefix_defs[pp][1] or pp) if pp else "") + (d.units[uu].symbol or uu) for pp, uu in taken}
        eng.prove(ureg.get_symbol(text) in syms, f"symbol:{text}")


def h_case_insensitive(eng, names):
    """case-insensitive lookup, only when requested, accepts exactly the case variants"""
    ureg = regs.default(eng)
    d = refdefs.default()
    lower = {}
    for sp, canon in d.spellings.items():
        lower.setdefault(sp.lower(), set()).add(canon)
    for n in names:
        for variant in (n.upper(), n.lower(), n.capitalize(), n.swapcase()):
            if variant in d.spellings:
                continue
            # case sensitive (default): not accepted unless some prefix reading exists
            cands_cs = ureg.parse_unit_name(variant, case_sensitive=True)
            cands_ci = ureg.parse_unit_name(variant, case_sensitive=False)
            exact_ci = {c for c in lower.get(variant.lower(), set())}
            got_exact = {u for p, u, s in cands_ci if not p}
            eng.prove(exact_ci <= {u for p, u, s in cands_ci} | got_exact, f"case-insensitive-finds-variant:{variant}")
            for p, u, s in cands_ci:
                # every case-insensitive candidate is a case variant of a defined spelling
                stem = variant
                eng.prove(any(sp.lower() == stem.lower()[len(pp) :].rstrip("s") or sp.lower() == stem.lower()[len(pp) :] for sp, c in d.spellings.items() if c == u for pp in ([""] + [k for k, (pn, _v, _s) in d.prefixes.items() if pn == p])), f"case-insensitive-candidate-valid:{variant}:{p}{u}")
            # "only when requested": a case-insensitive lookup earlier must not change what the
            # ordinary (case-sensitive) lookup of the same string answers afterwards
            def ask(text, **kw):
                try:
                    return str(ureg.parse_units(text, **kw))
                except UndefinedUnitError:
                    return None
                except Exception as e:  # noqa: BLE001
                    return type(e).__name__

            for text in (variant, f"{variant}/second", f"{variant}*{variant}"):
                before = ask(text)
                ci = ask(text, case_sensitive=False)
                after = ask(text)
                eng.prove(before == after, f"case-insensitive-lookup-leaves-no-trace:{text}")
                eng.prove(ask(text, case_sensitive=True) == before, f"explicit-case-sensitive-same:{text}")
                if cands_ci and not cands_cs:
                    eng.prove(before is None and ci is not None, f"case-variant-only-on-request:{text}")
                try:
                    ureg.Quantity(1, text)
                    okq = True
                except UndefinedUnitError:
                    okq = False
                except Exception:  # noqa: BLE001
                    okq = None
                eng.prove(okq is None or okq == (before is not None), f"quantity-after-case-insensitive-lookup:{text}")


def h_case_insensitive_history(eng, stems):
    """what a case-insensitive lookup answers does not depend on which (prefixed) names were
    looked up before: prefixed names memoised on the fly never become names of their own"""
    prefixes = ("kilo", "milli", "nano", "micro")

    def ask(reg, text, **kw):
        try:
            return str(reg.parse_units(text, **kw))
        except UndefinedUnitError:
            return None
        except Exception as e:  # noqa: BLE001
            return type(e).__name__

    def queries(p, stem):
        name = p + stem
        return [name.upper(), name.capitalize(), name.swapcase(), p + name, "milli" + name, (p + name).upper(), name + "s", (name + "s").upper(), p.capitalize() + stem.capitalize()]

    for config in ("per-call", "registry-option"):
        kw = {"case_sensitive": False} if config == "per-call" else {}
        opts = {} if config == "per-call" else {"case_sensitive": False}
        for stem in stems:
            for p in prefixes:
                fresh = {}
                for text in queries(p, stem):
                    reg = regs.default(eng, **opts)  # pristine again
                    fresh[text] = (ask(reg, text, **kw), text in reg if config == "registry-option" else None)
                reg = regs.default(eng, **opts)
                # the history: ordinary uses of the prefixed name
                ask(reg, p + stem, case_sensitive=True)
                reg.Quantity(1, p + stem).to_base_units()
                getattr(reg, p + stem)
                for text in queries(p, stem):
                    got = (ask(reg, text, **kw), text in reg if config == "registry-option" else None)
                    eng.prove(got == fresh[text], f"case-insensitive-after-history:{config}:{p}{stem}:{text}")
                # and the ordinary lookups of the doubly prefixed spellings stay refused
                for text in (p + p + stem, "milli" + p + stem):
                    eng.prove(ask(reg, text, case_sensitive=True) is None, f"double-prefix-refused-after-history:{config}:{text}")


def h_symbols_under_contexts(eng):
    """a context that redefines the VALUE of a unit leaves its names alone: symbol, aliases and
    the symbols of prefixed forms are what the unit's own definition says, before, inside and
    after the context, whatever was looked up first; and `in` is about units only"""
    import pint
    from pint import Context

    for first in ("outside", "inside"):
        ureg = pint.UnitRegistry(non_int_type=eng.ntype)
        ctx = Context("shortfoot")
        ctx.redefine("feet = 0.3 * meter")
        ctx.redefine("pound = 0.5 * kilogram")
        ureg.add_context(ctx)
        if first == "outside":
            ureg.get_symbol("kilofoot"), ureg.parse_units("megafeet")

        def probe(tag):
            P = eng.prove
            for spelling in ("foot", "feet", "ft", "international_foot"):
                P(ureg.get_symbol(spelling) == "ft", f"symbols-under-context:{first}:{tag}:get_symbol({spelling})")
                P(ureg.get_name(spelling) == "foot", f"symbols-under-context:{first}:{tag}:get_name({spelling})")
            P(ureg.get_symbol("pounds") == "lb" and ureg.get_name("lb") == "pound", f"symbols-under-context:{first}:{tag}:pound")
            P(ureg.get_symbol("kilofoot") == "kft" and ureg.get_symbol("megafeet") == "Mft" and ureg.get_symbol("millipounds") == "mlb", f"symbols-under-context:{first}:{tag}:prefixed")
            P(format(ureg.Unit("foot*pound/second**2"), "~") == "ft * lb / s ** 2", f"symbols-under-context:{first}:{tag}:short-format")
            P(format(ureg.Unit("foot*pound/second**2"), "~P") == "ft·lb/s²", f"symbols-under-context:{first}:{tag}:short-pretty-format")
            P(format(ureg.Unit("foot"), "") == "foot", f"symbols-under-context:{first}:{tag}:long-format")

        probe("before")
        with ureg.context("shortfoot"):
            probe("inside")
            eng.prove(ureg.Quantity(eng.num(1), "foot").to("meter").magnitude == eng.num(Fraction(3, 10)), f"symbols-under-context:{first}:redefinition-in-force")
        probe("after")
    ureg = regs.default(eng)
    for name in ("define", "convert", "context", "wraps", "check", "Unit", "Quantity", "Measurement", "formatter", "case_sensitive", "sys", "default_format", "get_name", "parse_units", "enable_contexts", "non_int_type", "cache_folder", "preprocessors"):
        try:
            ureg.parse_units(name)
            is_unit = True
        except Exception:  # noqa: BLE001
            is_unit = False
        eng.prove((name in ureg) == is_unit, f"contains:registry-attribute-name:{name}")


def h_delta_reading(eng):
    """in compound unit expressions offset units are read as their delta counterparts -- unless
    that is disabled, per call or per registry; single offset units are never rewritten; the
    answer for one setting does not depend on what was asked under the other before"""
    import pint

    texts = {
        "degC/meter": ({"delta_degree_Celsius": 1, "meter": -1}, {"degree_Celsius": 1, "meter": -1}),
        "degF**2": ({"delta_degree_Fahrenheit": 2}, {"degree_Fahrenheit": 2}),
        "1/degree_Reaumur": ({"delta_degree_Reaumur": -1}, {"degree_Reaumur": -1}),
        "joule/(kilogram*degC)": ({"joule": 1, "kilogram": -1, "delta_degree_Celsius": -1}, {"joule": 1, "kilogram": -1, "degree_Celsius": -1}),
        "degC": ({"degree_Celsius": 1}, {"degree_Celsius": 1}),
        # an explicit delta spelling beside the plain one: the exponents add up
        "degC*delta_degC": ({"delta_degree_Celsius": 2}, {"degree_Celsius": 1, "delta_degree_Celsius": 1}),
        "delta_degC/degC": ({}, {"degree_Celsius": -1, "delta_degree_Celsius": 1}),
        "joule/degF/delta_degF": ({"joule": 1, "delta_degree_Fahrenheit": -2}, {"joule": 1, "degree_Fahrenheit": -1, "delta_degree_Fahrenheit": -1}),
        "delta_degC**2*degC/meter": ({"delta_degree_Celsius": 3, "meter": -1}, {"delta_degree_Celsius": 2, "degree_Celsius": 1, "meter": -1}),
        "degC*celsius": ({"delta_degree_Celsius": 2}, {"degree_Celsius": 2}),
        # accepted spellings that are not table keys themselves (plural forms)
        "celsiuss*meter": ({"delta_degree_Celsius": 1, "meter": 1}, {"degree_Celsius": 1, "meter": 1}),
        "degree_Fahrenheits/second": ({"delta_degree_Fahrenheit": 1, "second": -1}, {"degree_Fahrenheit": 1, "second": -1}),
        "kelvin/meter": ({"kelvin": 1, "meter": -1}, {"kelvin": 1, "meter": -1}),
    }

    def got(reg, text, **kw):
        return {k: int(v) for k, v in reg.parse_units(text, **kw)._units.items()}

    for default in (True, False):
        for order in ("delta-first", "plain-first"):
            reg = pint.UnitRegistry(non_int_type=eng.ntype, default_as_delta=default)
            for text, (with_delta, plain) in texts.items():
                steps = [("as_delta=True", {"as_delta": True}, with_delta), ("as_delta=False", {"as_delta": False}, plain)]
                if order == "plain-first":
                    steps.reverse()
                steps.append(("default", {}, with_delta if default else plain))
                steps.append(("as_delta=None", {"as_delta": None}, with_delta if default else plain))
                steps += steps[:2]  # and once more after the others
                for i, (label, kw, want) in enumerate(steps):
                    eng.prove(got(reg, text, **kw) == want, f"delta-reading:default={default}:{order}:{text}:{label}:{i}")
                q = reg.Quantity(eng.num(3), text)
                eng.prove({k: int(v) for k, v in q._units.items()} == (with_delta if default else plain), f"delta-reading:Quantity:default={default}:{order}:{text}")
                # every entry point that takes a unit string reads it the way parse_units does under
                # the registry's own options: conversion targets, convert(), to_units_container
                from pint.util import to_units_container

                want_c = with_delta if default else plain
                eng.prove({k: int(v) for k, v in to_units_container(text, reg).items()} == want_c, f"delta-reading:to_units_container:default={default}:{order}:{text}")
                eng.prove({k: int(v) for k, v in reg.Unit(text)._units.items()} == want_c, f"delta-reading:Unit:default={default}:{order}:{text}")
                src = reg.Quantity(eng.num(3), reg.UnitsContainer(with_delta))
                try:
                    r = src.to(text)
                    outcome = {k: int(v) for k, v in r._units.items()}
                except Exception as ex:  # noqa: BLE001
                    outcome = type(ex).__name__
                try:
                    r = src.to(reg.parse_units(text))
                    ref_outcome = {k: int(v) for k, v in r._units.items()}
                except Exception as ex:  # noqa: BLE001
                    ref_outcome = type(ex).__name__
                eng.prove(outcome == ref_outcome, f"delta-reading:to(str)-as-to(parse_units(str)):default={default}:{order}:{text}")
                try:
                    c1 = reg.convert(eng.num(3), reg.UnitsContainer(with_delta), text)
                except Exception as ex:  # noqa: BLE001
                    c1 = type(ex).__name__
                try:
                    c2 = reg.convert(eng.num(3), reg.UnitsContainer(with_delta), reg.parse_units(text))
                except Exception as ex:  # noqa: BLE001
                    c2 = type(ex).__name__
                eng.prove(c1 == c2, f"delta-reading:convert(str)-as-convert(parse_units(str)):default={default}:{order}:{text}")
    # case variants of offset units in compound expressions, when case-insensitive lookup is asked for
    for config in ("per-call", "registry-option"):
        reg = pint.UnitRegistry(non_int_type=eng.ntype, case_sensitive=(config == "per-call"))
        kw = {"case_sensitive": False} if config == "per-call" else {}
        for text, want in (("Celsius/meter", {"delta_degree_Celsius": 1, "meter": -1}), ("DEGC*second", {"delta_degree_Celsius": 1, "second": 1}), ("CELSIUS**2", {"delta_degree_Celsius": 2}), ("Kelvin/METER", {"kelvin": 1, "meter": -1}), ("Celsius", {"degree_Celsius": 1})):
            eng.prove(got(reg, text, **kw) == want, f"delta-reading:case-variant:{config}:{text}")
        if config == "registry-option":
            # conversion entry points follow the registry's case setting as parse_units does
            eng.prove(reg.convert(eng.num(1), "FOOT", "INCH") == 12, "registry-option:convert-case-variant-strings")
            eng.prove(reg.Quantity(eng.num(2), "foot").to("INCH").magnitude == 24, "registry-option:to-case-variant-string")
            eng.prove(reg.Quantity(eng.num(2), "foot").m_as("Inch") == 24, "registry-option:m_as-case-variant-string")
            eng.prove(reg.Quantity(eng.num(2), "foot").is_compatible_with("INCH"), "registry-option:is_compatible_with-case-variant-string")
            eng.prove({k: int(v) for k, v in reg.Quantity(eng.num(2), "kelvin/hour").to("degc/HOUR")._units.items()} == {"delta_degree_Celsius": 1, "hour": -1}, "registry-option:to-case-variant-compound-offset")


MIN_DISCHARGED = {"H08.a": 5000, "H08.b": 300, "H08.d": 3000}


def _all_strings(maxlen):
    out = []
    for n in range(1, maxlen + 1):
        out += ["".join(t) for t in itertools.product(ALPHABET, repeat=n)]
    return out


def cases(tier, seed):
    big = tier == "thorough"
    rnd = random.Random(f"c08:{seed}")
    out = []
    opts = {"hash_mode": "mixed"}
    strings = _all_strings(5 if big else 4)
    if not big:
        strings += rnd.sample(_all_strings(5)[len(strings) :], 1200)
    for which in ("A", "B"):
        for i in range(0, len(strings), 60):
            out.append(Case("H08.a", f"{which}:{i:05d}", M, "h_colliding", {"which": which, "strings": strings[i : i + 60]}, opts=opts, validate=1 if i % 600 == 0 else 0, weight=3.0))
    short = _all_strings(3)
    pairs = [(a, b) for a in rnd.sample(short, 25 if not big else 60) for b in rnd.sample(short, 12 if not big else 30)]
    for which in ("A", "B"):
        for a, b in pairs:
            out.append(Case("H08.b", f"{which}:{a}>{b}", M, "h_history", {"which": which, "first": a, "second": b}, opts=opts, validate=0))
    out.append(Case("H08.c", "case-insensitive-across-processes", M, "h_case_insensitive_across_processes", {}, kind="conc"))
    for which in ("A", "B"):
        for form in ("define", "load_definitions"):
            out.append(Case("H08.b", f"late-prefix:{which}:{form}", M, "h_late_prefix", {"which": which, "form": form}, opts=opts, validate=1))
    d = refdefs.default()
    spell = sorted(d.spellings)
    cross = []
    if big:
        for p in d.prefixes:
            for u in spell:
                for s in ("", "s"):
                    t = p + u + s
                    if t.isidentifier():
                        cross.append(t)
    else:
        while len(cross) < 6000:
            t = rnd.choice(list(d.prefixes)) + rnd.choice(spell) + rnd.choice(["", "s"])
            if t.isidentifier():
                cross.append(t)
        cross += [u + "s" for u in rnd.sample(spell, 300) if (u + "s").isidentifier()]
    # every defined spelling that also has a prefix / plural reading by the rule: exact names win
    exact_amb = []
    for sp in spell:
        other = False
        for suffix in ("", "s"):
            if suffix and not sp.endswith("s"):
                continue
            stem = sp[:-1] if suffix else sp
            if suffix and len(stem) > 1 and stem in d.spellings:
                other = True
            for p_ in d.prefixes:
                if stem.startswith(p_) and stem[len(p_) :] in d.spellings and not (suffix and len(stem[len(p_) :]) == 1):
                    other = True
        if other and sp.isidentifier():
            exact_amb.append(sp)
    for i in range(0, len(exact_amb), 100):
        out.append(Case("H08.d", f"exact-with-another-reading:{i:04d}", M, "h_default_cross", {"items": exact_amb[i : i + 100]}, validate=0, weight=4.0))
    for i in range(0, len(cross), 200):
        out.append(Case("H08.d", f"{i:06d}", M, "h_default_cross", {"items": cross[i : i + 200]}, validate=0, weight=4.0))
    # CrossHair: the string itself symbolic (all unicode strings up to the bound)
    CH = "pvlib.ch.kernels_c08"
    out.append(Case("H08.ch", "parse_unit_name_matches_rule", CH, "-", {"func": "parse_unit_name_matches_rule", "timeout": 400 if big else 240}, kind="ch", weight=500.0))
    out.append(Case("H08.ch", "reachability_twin", CH, "-", {"func": "reachability_twin", "timeout": 60, "expect": "refuted"}, kind="ch", weight=100.0))
    names = rnd.sample([s for s in spell if s.isascii() and s.isalpha() and len(s) > 2], 150 if big else 40)
    out.append(Case("H08.e", "case-insensitive", M, "h_case_insensitive", {"names": names}, kind="conc"))
    stems = ["volt", "inch", "farad", "pascal", "gram", "second", "kelvin", "calorie"] + rnd.sample([s for s in spell if s.isascii() and s.isalpha() and 3 < len(s) < 9], 12 if big else 2)
    for i in range(0, len(stems), 2):
        out.append(Case("H08.e", f"case-insensitive-history:{i}", M, "h_case_insensitive_history", {"stems": stems[i : i + 2]}, kind="conc"))
    out.append(Case("H08.f", "delta-reading", M, "h_delta_reading", {}, kind="conc"))
    out.append(Case("H08.e", "symbols-under-contexts", M, "h_symbols_under_contexts", {}, kind="conc"))
    out.append(Case("H08.obs", "observed", "pvlib.harness.observed", "h_c08", {}, kind="conc"))
    return out
