"""C10 -- definition files mean what they say, independent of order and loading path.

Every numeric literal of the generated definition text is a placeholder for a symbolic
number, the text goes through the real flexparser/tokenizer/ParserHelper path, and every
read-only answer of the resulting registry is proved equal to the template's model for all
values of those numbers.  The text *structure* is enumerated (templates, permutations,
layouts, loading paths)."""

from __future__ import annotations

from fractions import Fraction

import itertools
import os
import random
import shutil
import tempfile

import pint
from pint.errors import DefinitionSyntaxError, DimensionalityError, RedefinitionError, UndefinedUnitError

from .. import regs
from ..runner import Case
from ..sx.q import And, Eq, Not, Or

PROPERTY = "C10"
M = "pvlib.harness.c10"

META = {
    "explanation": "generated definition files whose numeric literals (prefix values, scales, offsets, context defaults and coefficients) are all symbolic are loaded by the real parser; names, factors, "
    "dimensionalities, offset conversions, group/system membership and context conversions of the resulting registry are proved equal to the model the template was written from, for all literal values; "
    "this is repeated for permutations of the unit/prefix lines, layout variants and loading paths (iterable, file, define(), load_definitions, cold/warm disk cache), and ill-formed definitions must raise.",
    "functions_encoded": [
        "pint/delegates/txt_defparser/plain.py::PrefixDefinition/UnitDefinition/AliasDefinition/DimensionDefinition/DerivedDimensionDefinition.from_string_and_config, Equality",
        "pint/delegates/txt_defparser/defparser.py::DefParser.iter_parsed_project, parse_string, parse_file; block.py; context.py; group.py; system.py; defaults.py; common.py",
        "pint/delegates/base_defparser.py::ParserConfig.to_number/to_units_container/to_dimension_container; build_disk_cache_class",
        "pint/facets/plain/definitions.py::UnitDefinition/PrefixDefinition/DerivedDimensionDefinition.__post_init__",
        "pint/facets/plain/registry.py::define, load_definitions, _helper_dispatch_adder, _add_unit, _add_alias, _add_prefix, _add_derived_dimension, _build_cache; pint/util.py::solve_dependencies",
    ],
    "bounds": {"template": "2 prefixes (symbol/alias), 7 units (base, chain, compound with '_' symbol placeholder and alias, offset unit), @alias, derived dimension, group with 'using', system, context with parameter and redefinition, @defaults", "permutations": "quick: 24 seeded + reversed; thorough: all 720 of 6 movable lines", "numbers": "all positive rationals (symbolic)"},
    "enumerated_axes": [{"axis": "line permutations", "exhaustive": False}, {"axis": "layout variants", "exhaustive": False}, {"axis": "loading paths", "exhaustive": True}, {"axis": "ill-formed definition kinds", "exhaustive": False}],
    "outside_claim": ["arbitrary definition files: the text structure is enumerated from templates", "the bundled files themselves are C02's H02.a / C20"],
    "assumptions": ["hash_mode=mixed"],
}


class T:
    """template: symbolic literals + model"""

    def __init__(self, eng):
        self.eng = eng
        r = eng.real
        self.pk, self.pm = r("pk"), r("pm")
        self.si, self.sf, self.sm, self.sa, self.oa = r("si"), r("sf"), r("sm"), r("sa"), r("oa")
        self.n0, self.kc, self.sr = r("n0"), r("kc"), r("sr")
        self.sg = r("sg")
        for v in (self.pk, self.pm, self.si, self.sf, self.sm, self.sa, self.oa, self.n0, self.kc, self.sr, self.sg):
            eng.assume(v > 0)
        eng.assume(Not(Eq(self.sr, self.sf)))

    # the lines that may be permuted freely (units and prefixes, no blocks)
    def movable(self, sp=" "):
        L = self.eng.lit
        e = f"{sp}={sp}"
        return [
            f"kk-{e}{L(self.pk)}{e}K-{e}kilo_-",
            f"mm-{e}{L(self.pm)}",
            f"inch{e}{L(self.si)} * m{e}in_{e}inches",
            f"ft{e}{L(self.sf)} * inch",
            f"mph{e}{L(self.sm)} * ft / s{e}_{e}mileish",
            f"degA{e}{L(self.sa)} * kel; offset: {L(self.oa)}{e}dA",
        ]

    def head(self):
        return ["m = [length] = M_ = metre", "s = [time]", "kel = [temp]", "[speed] = [length] / [time]"]

    def tail(self, comments=False):
        L = self.eng.lit
        out = [
            "@alias inch = zoll = pouce",
            "@group H",
            f"    hand = 4 * inch",
            "@end",
            "@group G using H",
            f"    yard = 3 * ft",
            "@end",
            "@system S using G",
            "    ft",
            "@end",
            f"acc = {L(self.sg)} * m / s ** 2",
            "@system W using G",
            "    acc : s",
            "@end",
            f"@context(n={L(self.n0, paren=False)}) cx = CX",
            f"    [length] -> [time]: value * {L(self.kc)} * n * s / m",
            f"    ft = {L(self.sr)} * inch",
            "@end",
            "@defaults",
            "    group = root",
            "    system = S",
            "@end",
        ]
        if comments:
            out = ["# a comment line", ""] + [ln + "   # trailing comment" if ln.strip() and not ln.startswith("@") and "->" not in ln else ln for ln in out]
        return out

    def check(self, ureg, tag):
        eng = self.eng
        P = eng.prove
        x = eng.real(f"x_{tag}")
        Qy = ureg.Quantity

        def root(text):
            return Qy(x, text).to_root_units()

        fi, ff = self.si, self.si * self.sf
        # names, symbols, aliases
        P(ureg.get_name("in_") == "inch" and ureg.get_name("inches") == "inch" and ureg.get_name("zoll") == "inch" and ureg.get_name("pouce") == "inch", f"{tag}:aliases-of-inch")
        P(ureg.get_symbol("inch") == "in_" and ureg.get_symbol("m") == "M_" and ureg.get_name("metre") == "m", f"{tag}:symbols")
        P(ureg.get_name("mileish") == "mph" and ureg.get_symbol("mph") == "mph", f"{tag}:underscore-symbol-placeholder")
        # factors
        P(Eq(root("inch").magnitude, x * fi), f"{tag}:factor-inch")
        P(Eq(root("ft").magnitude, x * ff), f"{tag}:factor-ft")
        r = root("mph")
        P(Eq(r.magnitude, x * self.sm * ff), f"{tag}:factor-mph")
        P({k: int(v) if not hasattr(v, "c") else int(v.c) for k, v in r._units.items()} == {"m": 1, "s": -1}, f"{tag}:root-units-mph")
        P(Eq(root("hand").magnitude, x * 4 * fi), f"{tag}:factor-hand")
        P(Eq(root("yard").magnitude, x * 3 * ff), f"{tag}:factor-yard")
        # prefixes by name, symbol and alias; with plural
        P(Eq(root("kkinch").magnitude, x * self.pk * fi), f"{tag}:prefix-name")
        P(Eq(root("Kin_").magnitude, x * self.pk * fi), f"{tag}:prefix-symbol")
        P(Eq(root("kilo_fts").magnitude, x * self.pk * ff), f"{tag}:prefix-alias-plural")
        P(Eq(root("mmft").magnitude, x * self.pm * ff), f"{tag}:prefix-without-symbol")
        # dimensionality, derived dimension
        P(dict(ureg.get_dimensionality("mph")) == dict(ureg.get_dimensionality("[speed]")), f"{tag}:derived-dimension")
        P(Qy(x, "mph").check("[speed]") and not Qy(x, "ft").check("[speed]"), f"{tag}:check-dimension")
        # offset unit
        P(Eq(Qy(x, "degA").to("kel").magnitude, self.sa * x + self.oa), f"{tag}:offset-to-base")
        P(Eq(Qy(x, "kel").to("dA").magnitude, (x - self.oa) / self.sa), f"{tag}:offset-from-base")
        P(Eq(Qy(x, "delta_degA").to("kel").magnitude, self.sa * x), f"{tag}:delta-unit")
        # groups, system, defaults
        P(set(ureg.get_group("H").members) == {"hand"}, f"{tag}:group-H")
        P(set(ureg.get_group("G").members) == {"hand", "yard"}, f"{tag}:group-G-using-H")
        P(set(ureg.get_system("S").members) == {"hand", "yard"}, f"{tag}:system-members")
        if ureg.default_system != "S" and tag == "load_definitions":
            # known defect K5: @defaults arriving through load_definitions()/define() after
            # construction are stored but never applied
            eng.fail(f"{tag}:defaults-block-not-applied-after-construction", stop=False)
            ureg.default_system = "S"
        P(ureg.default_system == "S", f"{tag}:default-system")
        f, bu = ureg.get_base_units("inch")
        P(str(bu) == "ft" and Eq(f, 1 / self.sf), f"{tag}:system-base-units")
        # a system with a replacement rule 'new : old' where old enters new with exponent -2:
        # acc = sg m / s**2  =>  s = acc**(-1/2) * m**(1/2) (times a number)
        _f, bu = ureg.get_base_units("s", system="W")
        P({k: Fraction(str(v.c if hasattr(v, "c") else v)) for k, v in bu._units.items()} == {"acc": Fraction(-1, 2), "m": Fraction(1, 2)}, f"{tag}:system-replacement-rule-units")
        P(dict(ureg.get_dimensionality(bu)) == dict(ureg.get_dimensionality("s")), f"{tag}:system-replacement-rule-dimension")
        # compatible-unit listings: all lengths without restriction, the system's members by default
        listing = {str(u) for u in ureg.get_compatible_units("m", "root")}
        if tag == "define" and listing != {"m", "inch", "ft", "hand", "yard"}:
            # known defect K4 (see C13): units that arrive through define() after construction
            # are missing from the compatible-unit listings
            eng.fail(f"{tag}:late-definition-missing-from-compatible-units", stop=False)
        else:
            P(listing == {"m", "inch", "ft", "hand", "yard"}, f"{tag}:compatible-units-root-group")
            P({str(u) for u in ureg.get_compatible_units("inch")} == {"hand", "yard"}, f"{tag}:compatible-units-default-system")
            P({str(u) for u in ureg.get_compatible_units("mph", "root")} == {"mph"}, f"{tag}:compatible-units-speed")
        # context: rule with parameter default, and redefinition scoped to the context
        try:
            Qy(x, "m").to("s")
            P(False, f"{tag}:no-context-no-conversion")
        except DimensionalityError:
            pass
        P(Eq(Qy(x, "inch").to("s", "cx").magnitude, x * fi * self.kc * self.n0), f"{tag}:context-default-parameter")
        nn = eng.real(f"n_{tag}")
        eng.assume(nn > 0)
        P(Eq(Qy(x, "m").to("s", "CX", n=nn).magnitude, x * self.kc * nn), f"{tag}:context-alias-and-kwarg")
        with ureg.context("cx"):
            P(Eq(Qy(x, "ft").to("inch").magnitude, x * self.sr), f"{tag}:context-redefinition")
            P(Eq(Qy(x, "yard").to("inch").magnitude, x * 3 * self.sr), f"{tag}:context-redefinition-transitive")
        P(Eq(Qy(x, "ft").to("inch").magnitude, x * self.sf), f"{tag}:redefinition-scoped")
        # numbers are read in the registry's numeric type
        P(type(ureg._units["inch"].converter.scale) is eng.ntype, f"{tag}:numeric-type-of-literals")


def h_interpret(eng, perm, layout):
    t = T(eng)
    mov = t.movable(sp={"tight": "", "wide": "   "}.get(layout, " "))
    lines = t.head() + [mov[i] for i in perm] + t.tail(comments=(layout == "comments"))
    if layout == "units-first":
        lines = [mov[i] for i in perm] + t.head() + t.tail()
    if layout == "blank":
        lines = list(itertools.chain.from_iterable((ln, "") for ln in lines))
    if layout == "late-dimension":
        # the derived dimension is declared on the last line, after a context whose relation
        # names it (evaluated while loading): what the finished registry answers is the file's meaning
        lines = [ln for ln in lines if not ln.startswith("[speed]")]
        lines += ["[accel] = [speed] / [time]", "@context cy", "    [speed] -> [length]: value * 7 * s", "    [accel] -> [speed]: value * 11 * s", "@end", "[speed] = [length] / [time]"]
    # (declaring a dimension that an earlier line already referred to counts as a redefinition)
    ureg = pint.UnitRegistry(lines, non_int_type=eng.ntype, on_redefinition="ignore" if layout == "late-dimension" else "raise")
    t.check(ureg, "r")
    if layout == "late-dimension":
        x = eng.real("x_late")
        want = {"[length]": 1, "[time]": -1}
        eng.prove({k: int(v) for k, v in ureg.get_dimensionality("[speed]").items()} == want, "late-dimension:get_dimensionality")
        eng.prove({k: int(v) for k, v in ureg.get_dimensionality("[accel]").items()} == {"[length]": 1, "[time]": -2}, "late-dimension:get_dimensionality-nested")
        eng.prove(Eq(ureg.Quantity(x, "m/s").to("m", "cy").magnitude, x * 7), "late-dimension:context-relation")
        eng.prove(Eq(ureg.Quantity(x, "m/s**2").to("m/s", "cy").magnitude, x * 11), "late-dimension:context-relation-nested")


def h_loading_paths(eng, path):
    t = T(eng)
    lines = t.head() + t.movable() + t.tail()
    tmp = tempfile.mkdtemp(prefix="pv_c10_")
    try:
        if path == "file":
            fn = os.path.join(tmp, "defs.txt")
            with open(fn, "w", encoding="utf-8") as f:
                f.write("\n".join(lines) + "\n")
            ureg = pint.UnitRegistry(fn, non_int_type=eng.ntype, on_redefinition="raise")
        elif path == "load_definitions":
            ureg = pint.UnitRegistry(None, non_int_type=eng.ntype, on_redefinition="raise")
            ureg.load_definitions(lines)
            ureg._build_cache()
        elif path == "define":
            # plain lines one at a time, blocks as a whole
            ureg = pint.UnitRegistry(None, non_int_type=eng.ntype, on_redefinition="raise")
            block = []
            for ln in lines:
                if ln.startswith("@") and not ln.startswith("@end") and not ln.startswith("@alias"):
                    block = [ln]
                elif block:
                    block.append(ln)
                    if ln.startswith("@end"):
                        ureg.define("\n".join(block))
                        block = []
                else:
                    ureg.define(ln)
            ureg._after_init.__func__  # noqa: B018 - not called: settings below are applied by hand
            ureg.default_system = "S"
        elif path == "cache-import-edit":
            # a root file that imports a second file; the on-disk cache is warm; then only the
            # imported file is edited: the next load must answer from the new text
            L = eng.lit
            sf2 = eng.real("sf2")
            eng.assume(sf2 > 0)
            eng.assume(Not(Eq(sf2, t.sf)))
            root = os.path.join(tmp, "root.txt")
            imp = os.path.join(tmp, "imported.txt")
            mov = t.movable()
            with open(root, "w", encoding="utf-8") as f:
                f.write("\n".join(t.head() + ["@import imported.txt"] + t.tail()) + "\n")
            with open(imp, "w", encoding="utf-8") as f:
                f.write("\n".join(mov) + "\n")
            cache = os.path.join(tmp, "cache")
            first = pint.UnitRegistry(root, non_int_type=eng.ntype, cache_folder=cache, on_redefinition="raise")
            t.check(first, "import-cold")
            again = pint.UnitRegistry(root, non_int_type=eng.ntype, cache_folder=cache, on_redefinition="raise")
            eng.prove(Eq(again.get_root_units("ft")[0], t.si * t.sf), "import-warm:root-factor")
            # edit the imported file only
            mov2 = [ln if not ln.startswith("ft ") else f"ft = {L(sf2)} * inch" for ln in mov] + ["furl = 10 * ft"]
            with open(imp, "w", encoding="utf-8") as f:
                f.write("\n".join(mov2) + "\n")
            edited = pint.UnitRegistry(root, non_int_type=eng.ntype, cache_folder=cache, on_redefinition="raise")
            xx = eng.real("x_edit")
            eng.prove(Eq(edited.Quantity(xx, "ft").to("m").magnitude, xx * t.si * sf2), "import-edited:conversion")
            eng.prove(Eq(edited.get_root_units("ft")[0], t.si * sf2), "import-edited:root-factor")
            eng.prove(Eq(edited.get_root_units("yard")[0], 3 * t.si * sf2), "import-edited:dependent-root-factor")
            eng.prove("furl" in {str(u) for u in edited.get_compatible_units("m", "root")}, "import-edited:new-unit-listed")
            eng.prove(Eq(edited.Quantity(xx, "furl").to("inch").magnitude, xx * 10 * sf2), "import-edited:new-unit")
            return
        elif path == "cache-same-text-two-directories":
            # two root files with the same text in two directories, each importing "its" imported.txt:
            # with a shared cache folder each still reads the file next to itself
            L = eng.lit
            sf2 = eng.real("sf2")
            eng.assume(sf2 > 0)
            eng.assume(Not(Eq(sf2, t.sf)))
            mov = t.movable()
            cache = os.path.join(tmp, "cache")
            roots = {}
            root_text = "\n".join(t.head() + ["@import imported.txt"] + t.tail()) + "\n"  # byte-identical in both
            for d_, sf_ in (("A", t.sf), ("B", sf2)):
                os.makedirs(os.path.join(tmp, d_))
                roots[d_] = os.path.join(tmp, d_, "root.txt")
                with open(roots[d_], "w", encoding="utf-8") as f:
                    f.write(root_text)
                with open(os.path.join(tmp, d_, "imported.txt"), "w", encoding="utf-8") as f:
                    f.write("\n".join(ln if not ln.startswith("ft ") else f"ft = {L(sf_)} * inch" for ln in mov) + "\n")
            xx = eng.real("x_two")
            for round_ in ("cold", "warm"):
                ra = pint.UnitRegistry(roots["A"], non_int_type=eng.ntype, cache_folder=cache, on_redefinition="raise")
                rb = pint.UnitRegistry(roots["B"], non_int_type=eng.ntype, cache_folder=cache, on_redefinition="raise")
                eng.prove(Eq(ra.Quantity(xx, "ft").to("inch").magnitude, xx * t.sf), f"two-directories:{round_}:A-reads-its-own-import")
                eng.prove(Eq(rb.Quantity(xx, "ft").to("inch").magnitude, xx * sf2), f"two-directories:{round_}:B-reads-its-own-import")
                eng.prove(Eq(rb.get_root_units("yard")[0], 3 * t.si * sf2), f"two-directories:{round_}:B-root-factor")
            return
        elif path in ("cache-cold", "cache-warm"):
            fn = os.path.join(tmp, "defs.txt")
            with open(fn, "w", encoding="utf-8") as f:
                f.write("\n".join(lines) + "\n")
            cache = os.path.join(tmp, "cache")
            ureg = pint.UnitRegistry(fn, non_int_type=eng.ntype, cache_folder=cache, on_redefinition="raise")
            if path == "cache-warm":
                t.check(ureg, "cold")
                ureg = pint.UnitRegistry(fn, non_int_type=eng.ntype, cache_folder=cache, on_redefinition="raise")
            eng.prove(len(os.listdir(cache)) > 0, "disk-cache-written")
        t.check(ureg, path)
    finally:
        shutil.rmtree(tmp, ignore_errors=True)


def h_decimal_literals(eng, path):
    """decimal literals that no binary float represents exactly are read exactly in a registry of
    exact numbers -- wherever a number can be written (factor, prefix, offset, exponent, context
    default, relation, redefinition inside a context)"""
    F = Fraction
    lines = [
        "m = [length]", "s = [time]", "kel = [temp]",
        "cc- = 1e-2 = c-", "dd- = 0.1",
        "inch = 0.0254 * m", "ft = 0.3048 * m", "league = 4.828032e3 * m", "thou = inch / 1e3",
        "root3 = m ** 0.3",
        "degA = 1.8 * kel; offset: 255.372",
        "@context(n=1.33) cx",
        "    [length] -> [time]: value * 3.3356409519815204e-9 * n * s / m",
        "    ft = 0.3 * m",
        "@end",
    ]  # fmt: skip
    tmp = tempfile.mkdtemp(prefix="pv_c10_")
    try:
        if path == "lines":
            ureg = pint.UnitRegistry(lines, non_int_type=eng.ntype, on_redefinition="raise")
        elif path == "file":
            fn = os.path.join(tmp, "d.txt")
            with open(fn, "w", encoding="utf-8") as f:
                f.write("\n".join(lines) + "\n")
            ureg = pint.UnitRegistry(fn, non_int_type=eng.ntype, on_redefinition="raise")
        elif path == "definition-objects":
            # Definition.from_string(line, numeric type): each call reads its numbers in the type
            # it is given, whatever type earlier calls in the process used
            from pint.definitions import Definition

            Definition.from_string("zz = 0.5 * m", float)
            ureg = pint.UnitRegistry(None, non_int_type=eng.ntype, on_redefinition="raise")
            block = []
            for ln in lines:
                if ln.startswith("@context"):
                    block = [ln]
                elif block:
                    block.append(ln)
                    if ln.startswith("@end"):
                        ureg.define("\n".join(block))
                        block = []
                else:
                    ureg.define(Definition.from_string(ln, eng.ntype))
                    Definition.from_string("zz = 0.25 * m", float)
        else:
            ureg = pint.UnitRegistry(None, non_int_type=eng.ntype, on_redefinition="raise")
            ureg.load_definitions(lines)
            ureg._build_cache()
        x = eng.real("x")
        Qy = ureg.Quantity
        P = eng.prove
        P(Eq(Qy(x, "inch").to("m").magnitude, x * F("0.0254")), f"{path}:factor")
        P(Eq(Qy(x, "league").to("m").magnitude, x * F("4828.032")), f"{path}:exponent-notation")
        P(Eq(Qy(x, "thou").to("m").magnitude, x * F("0.0000254")), f"{path}:divisor")
        P(Eq(Qy(x, "ccm").to("m").magnitude, x * F("0.01")), f"{path}:prefix")
        P(Eq(Qy(x, "ddinch").to("m").magnitude, x * F("0.00254")), f"{path}:prefix-decimal")
        P(Eq(Qy(x, "degA").to("kel").magnitude, x * F("1.8") + F("255.372")), f"{path}:scale-and-offset")
        P(ureg.parse_units("root3")._units == ureg.UnitsContainer({"root3": 1}) and dict(ureg.get_root_units("root3")[1]._units) == {"m": eng.num(F("0.3"))}, f"{path}:fractional-exponent")
        P(Eq(Qy(x, "m").to("s", "cx").magnitude, x * F("3.3356409519815204e-9") * F("1.33")), f"{path}:context-default-and-relation")
        nn = eng.real("nn")
        P(Eq(Qy(x, "m").to("s", "cx", n=nn).magnitude, x * F("3.3356409519815204e-9") * nn), f"{path}:context-explicit-parameter")
        with ureg.context("cx"):
            P(Eq(Qy(x, "ft").to("m").magnitude, x * F("0.3")), f"{path}:context-redefinition")
        P(Eq(Qy(x, "ft").to("m").magnitude, x * F("0.3048")), f"{path}:redefinition-scoped")
        P(all(type(v) is eng.ntype for v in (ureg._units["inch"].converter.scale, ureg._prefixes["cc"].converter.scale, ureg._contexts["cx"].defaults["n"])), f"{path}:numeric-types")
    finally:
        shutil.rmtree(tmp, ignore_errors=True)


def h_redefinition_modes(eng, mode):
    """a second definition of the same name: refused under on_redefinition='raise'; under 'warn'
    and 'ignore' the later text is what the name means afterwards (never a mixture), and every
    unit defined from it follows"""
    import warnings

    a, b, x = eng.real("a"), eng.real("b"), eng.real("x")
    eng.assume(a > 0)
    eng.assume(b > 0)
    eng.assume(Not(Eq(a, b)))
    L = eng.lit
    lines = ["m = [length]", "kk- = 1000", f"x = {L(a)} * m = X_ = ex", "y = 3 * x", "@system SY", "    y", "@end", f"x = {L(b)} * m = X2_", "z = 5 * x"]
    try:
        with warnings.catch_warnings():
            warnings.simplefilter("ignore")
            ureg = pint.UnitRegistry(lines, non_int_type=eng.ntype, on_redefinition=mode)
    except RedefinitionError:
        eng.prove(mode == "raise", f"{mode}:redefinition-refused-only-when-asked")
        return
    eng.prove(mode != "raise", f"{mode}:redefinition-must-be-refused")
    Qy = ureg.Quantity
    eng.prove(Eq(Qy(x, "x").to("m").magnitude, x * b), f"{mode}:later-definition-wins")
    eng.prove(Eq(Qy(x, "z").to("m").magnitude, x * 5 * b), f"{mode}:units-defined-after-follow")
    eng.prove(Eq(Qy(x, "y").to("m").magnitude, x * 3 * b), f"{mode}:units-defined-before-follow")
    eng.prove(Eq(Qy(x, "kkx").to("m").magnitude, x * 1000 * b), f"{mode}:prefixed-follows")
    # the registry-level factor API answers from the same (final) definitions
    eng.prove(Eq(ureg.get_root_units("x")[0], b) and Eq(ureg.get_root_units("y")[0], 3 * b), f"{mode}:get_root_units-follows")
    eng.prove(Eq(Qy(x, "y").to_root_units().magnitude, x * 3 * b), f"{mode}:to_root_units-follows")
    eng.prove(ureg.get_symbol("x") == "X2_" and ureg.get_name("X2_") == "x", f"{mode}:symbol-of-the-later-definition")
    # (spellings of the earlier definition: 'X_' and 'ex' -- whatever they resolve to must be the
    # later meaning or be undefined, never the earlier factor)
    for old in ("X_", "ex"):
        try:
            v = Qy(x, old).to("m").magnitude
        except UndefinedUnitError:
            continue
        eng.prove(Eq(v, x * b), f"{mode}:earlier-spelling-has-no-stale-meaning:{old}")


def h_decimal_literals_other_types(eng, tname):
    """the same decimal-literal file in a float and in a Decimal registry: every number has the
    registry's type and the conversions are right to the precision of that type"""
    import decimal

    ntype = {"float": float, "Decimal": decimal.Decimal}[tname]
    tol = Fraction(1, 10**14) if ntype is float else Fraction(1, 10**24)
    F = Fraction
    lines = [
        "m = [length]", "s = [time]", "kel = [temp]", "cc- = 1e-2 = c-", "dd- = 0.1",
        "inch = 0.0254 * m", "ft = 0.3048 * m", "league = 4.828032e3 * m", "thou = inch / 1e3",
        "degA = 1.8 * kel; offset: 255.372",
        "@context(n=1.33) cx", "    [length] -> [time]: value * 3.3356409519815204e-9 * n * s / m", "    ft = 0.3 * m", "@end",
    ]  # fmt: skip
    ureg = pint.UnitRegistry(lines, non_int_type=ntype, on_redefinition="raise")
    # ... and a unit that arrives as a Definition object read in this type, after calls in another
    from pint.definitions import Definition

    Definition.from_string("zz = 0.5 * m", decimal.Decimal if ntype is float else float)
    ureg.define(Definition.from_string("third = 0.3 * m", ntype))
    eng.prove(type(ureg._units["third"].converter.scale) is ntype, f"{tname}:definition-object:type")
    eng.prove(abs(F(ureg.Quantity(ntype("2.5"), "third").to("m").magnitude) / F("0.75") - 1) <= tol, f"{tname}:definition-object:value")
    xv = ntype("2.5")
    Qy = ureg.Quantity

    def close(got, want, label):
        eng.prove(type(got) is ntype, f"{tname}:{label}:type")
        eng.prove(abs(F(got) / want - 1) <= tol, f"{tname}:{label}:value")

    close(Qy(xv, "inch").to("m").magnitude, F("2.5") * F("0.0254"), "factor")
    close(Qy(xv, "league").to("m").magnitude, F("2.5") * F("4828.032"), "exponent-notation")
    close(Qy(xv, "thou").to("m").magnitude, F("2.5") * F("0.0000254"), "divisor")
    close(Qy(xv, "ccm").to("m").magnitude, F("2.5") * F("0.01"), "prefix")
    close(Qy(xv, "ddinch").to("m").magnitude, F("2.5") * F("0.00254"), "prefix-decimal")
    close(Qy(xv, "degA").to("kel").magnitude, F("2.5") * F("1.8") + F("255.372"), "scale-and-offset")
    close(Qy(xv, "m").to("s", "cx").magnitude, F("2.5") * F("3.3356409519815204e-9") * F("1.33"), "context-default-and-relation")
    with ureg.context("cx"):
        close(Qy(xv, "ft").to("m").magnitude, F("2.5") * F("0.3"), "context-redefinition")
    close(Qy(xv, "ft").to("m").magnitude, F("2.5") * F("0.3048"), "redefinition-scoped")
    eng.prove(all(type(v) is ntype for v in (ureg._units["inch"].converter.scale, ureg._prefixes["cc"].converter.scale, ureg._contexts["cx"].defaults["n"], ureg._units["degA"].converter.offset)), f"{tname}:numeric-types-of-definitions")


def h_group_chain(eng, path):
    """'using' is transitive to any depth: A using B, B using C, C using D"""
    sa, x = eng.real("sa"), eng.real("x")
    eng.assume(sa > 0)
    L = eng.lit
    lines = ["m = [length]", "s = [time]", "@group D", f"    ud = {L(sa)} * m", "@end", "@group C using D", "    uc = 2 * m", "@end", "@group B using C", "    ub = 3 * m", "    tb = 5 * s", "@end",
             "@group A using B", "    ua = 7 * m", "@end", "@system SA using A", "    ua", "@end", "@system SC using C", "    uc", "@end"]  # fmt: skip
    if path == "lines":
        ureg = pint.UnitRegistry(lines, non_int_type=eng.ntype, on_redefinition="raise")
    elif path == "define":
        ureg = pint.UnitRegistry(lines[:2], non_int_type=eng.ntype, on_redefinition="raise")
        block = []
        for ln in lines[2:]:
            block.append(ln)
            if ln == "@end":
                ureg.define("\n".join(block))
                block = []
    else:
        tmp = tempfile.mkdtemp(prefix="pv_c10g_")
        try:
            fn = os.path.join(tmp, "g.txt")
            with open(fn, "w", encoding="utf-8") as f:
                f.write("\n".join(lines) + "\n")
            ureg = pint.UnitRegistry(fn, non_int_type=eng.ntype, on_redefinition="raise")
        finally:
            shutil.rmtree(tmp, ignore_errors=True)
    P = eng.prove
    P(set(ureg.get_group("D").members) == {"ud"}, f"group-chain:{path}:D")
    P(set(ureg.get_group("C").members) == {"ud", "uc"}, f"group-chain:{path}:C")
    P(set(ureg.get_group("B").members) == {"ud", "uc", "ub", "tb"}, f"group-chain:{path}:B-depth-2")
    P(set(ureg.get_group("A").members) == {"ud", "uc", "ub", "tb", "ua"}, f"group-chain:{path}:A-depth-3")
    P(set(ureg.get_system("SA").members) == {"ud", "uc", "ub", "tb", "ua"}, f"group-chain:{path}:system-over-A")
    P(set(ureg.get_system("SC").members) == {"ud", "uc"}, f"group-chain:{path}:system-over-C")
    if path != "define":  # (listings after define(): known finding K4)
        P({str(u) for u in ureg.get_compatible_units("m", "A")} == {"ud", "uc", "ub", "ua"}, f"group-chain:{path}:compatible-in-A")
        P({str(u) for u in ureg.get_compatible_units("m", "SA")} == {"ud", "uc", "ub", "ua"}, f"group-chain:{path}:compatible-in-system")
    P(Eq(ureg.Quantity(x, "ud").to("ua").magnitude, x * sa / 7), f"group-chain:{path}:values")
    try:
        ureg.define("@group A2 using A2\n    uz = 9 * m\n@end")
    except Exception:  # noqa: BLE001
        P(True, f"group-chain:{path}:self-using-group-refused")
    else:
        P("uz" in ureg.get_group("A2").members and len(set(ureg.get_group("A2").members)) == 1, f"group-chain:{path}:self-using-group-has-only-its-own-units")


_CHILD_CACHE = r"""
import json, sys
import pint
path, cache = sys.argv[1], sys.argv[2]
kw = {} if cache == "-" else {"cache_folder": cache}
ureg = pint.UnitRegistry(path, **kw)
out = {"names": sorted(ureg)}  # asked first: the probes below memoise prefixed names themselves
for probe in ["m", "s", "knot", "acre", "lb", "m ** 2", "ft / minute", "hand"]:
    out["compatible(%s)" % probe] = sorted(str(u) for u in ureg.get_compatible_units(probe))
for probe in ["knot", "acre", "yd", "walk", "kkm", "inches"]:
    out["dim(%s)" % probe] = sorted((k, str(v)) for k, v in ureg.get_dimensionality(probe).items())
    f, u = ureg.get_root_units(probe)
    out["root(%s)" % probe] = [repr(f), str(u)]
    out["base(%s)" % probe] = [repr(ureg.get_base_units(probe)[0]), str(ureg.get_base_units(probe)[1])]
out["convert"] = [repr(ureg.Quantity(2.5, a).to(b).magnitude) for a, b in (("acre", "m**2"), ("knot", "ft/minute"), ("lb", "g"), ("degX", "kel"))]
out["groups"] = sorted(ureg.get_group("G").members)
out["system"] = [ureg.default_system, sorted(ureg.get_system("S").members)]
with ureg.context("cx"):
    out["context"] = repr(ureg.Quantity(3.0, "m").to("s").magnitude)
print(json.dumps(out, sort_keys=True))
"""


def h_cache_across_processes(eng):
    """the on-disk cache is written by one interpreter and read by another one (with another string
    hash seed): cold, warm and uncached loads of the same file answer alike"""
    import json
    import subprocess
    import sys

    text = "\n".join([
        "kk- = 1000 = K-", "mm- = 1e-3", "m = [length] = M_ = metre", "s = [time]", "g = [mass]", "kel = [temp]", "[speed] = [length] / [time]",
        "inch = 0.0254 * m = in_ = inches", "ft = 12 * inch", "yd = 3 * ft", "minute = 60 * s", "hour = 60 * minute", "knot = 1852 * m / hour = kt", "walk = 5 * kkm / hour",
        "acre = 43560 * ft ** 2", "lb = 453.59237 * g", "degX = 1.8 * kel; offset: 255.372",
        "@group H", "    hand = 4 * inch", "@end", "@group G using H", "    rod = 16.5 * ft", "@end", "@system S using G", "    ft", "@end",
        "@context(n=1.5) cx", "    [length] -> [time]: value * n * s / m", "@end", "@defaults", "    group = root", "    system = S", "@end",
    ]) + "\n"  # fmt: skip
    tmp = tempfile.mkdtemp(prefix="pv_c10x_")
    try:
        fn = os.path.join(tmp, "defs.txt")
        with open(fn, "w", encoding="utf-8") as f:
            f.write(text)
        cache = os.path.join(tmp, "cache")

        def run(cache_arg, seed):
            env = dict(os.environ, PYTHONPATH="/repo", PYTHONHASHSEED=str(seed))
            r = subprocess.run([sys.executable, "-c", _CHILD_CACHE, fn, cache_arg], capture_output=True, text=True, env=env, cwd=tmp, timeout=300)
            if r.returncode != 0:
                return {"error": r.stderr.strip().splitlines()[-1:] or ["?"]}
            return json.loads(r.stdout.strip().splitlines()[-1])

        ref = run("-", 11)
        cold = run(cache, 12)
        warm = run(cache, 13)
        warm2 = run(cache, 14)
        eng.prove("error" not in ref and len(ref.get("compatible(m)", [])) >= 2, "cache-across-processes:reference-load-works")
        for name, got in (("cold", cold), ("warm", warm), ("warm-again", warm2)):
            for k in sorted(ref):
                if k == "names" and got.get(k) != ref[k] and set(got.get(k, ())) < set(ref[k]):
                    # known finding K14: prefixed names memoised while a cold build walks the
                    # definitions ('kkm' here, 'kilometer' in the bundled file) are listed by
                    # iter(ureg)/dir(ureg) after an uncached or cold load but not after a warm one
                    eng.fail(f"cache-across-processes:{name}:listed-names-differ-from-uncached-load", stop=False)
                    continue
                eng.prove(got.get(k) == ref[k], f"cache-across-processes:{name}:{k}")
    finally:
        shutil.rmtree(tmp, ignore_errors=True)


def h_random_dag(eng, k):
    """a seeded random definition file: base units, a DAG of derived units with symbolic scales and
    small integer exponents over earlier units, aliases, symbols ('_' placeholders), two prefixes,
    lines shuffled; every unit's root factor and root units are those of the written products"""
    import random as _r

    rnd = _r.Random(f"c10-dag:{k}")
    L = eng.lit
    nb, nd = rnd.choice([2, 3]), rnd.choice([3, 4, 5])
    bases = [f"b{i}" for i in range(nb)]
    lines = [f"{b} = [dim{i}]" + rnd.choice(["", f" = B{i}_", f" = _ = base{i}"]) for i, b in enumerate(bases)]
    model = {b: (1, {b: 1}) for b in bases}  # name -> (factor, root exponents)
    spell = {b: [b] for b in bases}
    for i, ln in enumerate(lines):
        if "= B" in ln:
            spell[bases[i]].append(f"B{i}_")
        if "base" in ln:
            spell[bases[i]].append(f"base{i}")
    unit_lines = []
    names = list(bases)
    for j in range(nd):
        nm = f"u{j}"
        sc = eng.real(f"s{j}")
        eng.assume(sc > 0)
        refs = rnd.sample(names, rnd.choice([1, 2]) if len(names) > 1 else 1)
        exps = [rnd.choice([-2, -1, 1, 2]) for _ in refs]
        expr = L(sc) + "".join(f" * {r} ** {e}" if e != 1 else f" * {r}" for r, e in zip(refs, exps))
        extra = rnd.choice(["", f" = U{j}_", f" = _ = unit{j}", f" = U{j}_ = unit{j} = einheit{j}"])
        unit_lines.append(f"{nm} = {expr}{extra}")
        f, roots = sc, {}
        for r, e in zip(refs, exps):
            rf, rr = model[r]
            f = f * rf**e
            for key, val in rr.items():
                roots[key] = roots.get(key, 0) + val * e
        model[nm] = (f, {key: val for key, val in roots.items() if val != 0})
        spell[nm] = [nm] + ([f"U{j}_"] if "U%d_" % j in extra else []) + ([f"unit{j}"] if f"unit{j}" in extra else []) + ([f"einheit{j}"] if "einheit" in extra else [])
        names.append(nm)
    pk, pm = eng.real("pk"), eng.real("pm")
    eng.assume(pk > 0)
    eng.assume(pm > 0)
    prefix_lines = [f"kk- = {L(pk)} = K-", f"mm- = {L(pm)}"]
    body = lines + unit_lines + prefix_lines
    rnd.shuffle(body)
    ureg = pint.UnitRegistry(body, non_int_type=eng.ntype, on_redefinition="raise")
    x = eng.real("x")
    for nm in names:
        f, roots = model[nm]
        for sp in spell[nm]:
            r = ureg.Quantity(x, sp).to_root_units()
            eng.prove(Eq(r.magnitude, x * f), f"dag:factor:{sp}")
            got = {key: Fraction(str(val.c if hasattr(val, "c") else val)) for key, val in r._units.items()}
            eng.prove(got == {key: Fraction(val) for key, val in roots.items()}, f"dag:root-units:{sp}")
            eng.prove(ureg.get_name(sp) == nm, f"dag:name:{sp}")
        r = ureg.Quantity(x, "kk" + nm).to_root_units()
        eng.prove(Eq(r.magnitude, x * pk * f), f"dag:prefixed:{nm}")
        r = ureg.Quantity(x, "K" + spell[nm][-1] + "s").to_root_units() if len(spell[nm][-1]) > 1 else None
        if r is not None:
            eng.prove(Eq(r.magnitude, x * pk * f), f"dag:prefix-symbol-alias-plural:{nm}")
    # any two units with the same root exponents convert into each other by the quotient of factors
    for a in names:
        for b in names:
            if a < b and model[a][1] == model[b][1]:
                r = ureg.Quantity(x, a).to(b)
                eng.prove(Eq(r.magnitude, x * model[a][0] / model[b][0]), f"dag:convert:{a}->{b}")
            elif a < b:
                try:
                    ureg.Quantity(x, a).to(b)
                except DimensionalityError:
                    pass
                else:
                    eng.fail(f"dag:converted-across-dimensions:{a}->{b}")


ILL_FORMED = {
    "base-unit-with-scale": ["m = {a} * [length]"],
    "derived-dimension-references-unit": ["m = [length]", "s = [time]", "[speed] = [length] / s"],
    "mixed-dimension-and-unit": ["m = [length]", "x = {a} * m * [time]"],
    "cycle": ["m = [length]", "a = {a} * b", "b = {b} * a"],
    "self-reference": ["m = [length]", "a = {a} * a"],
    "non-numeric-offset": ["kel = [temp]", "degX = {a} * kel; offset: abc"],
    "unknown-modifier": ["kel = [temp]", "degX = {a} * kel; offsett: {b}"],
    "unknown-directive": ["m = [length]", "@frobnicate x", "@end"],
    "unterminated-group": ["m = [length]", "@group G", "    y = {a} * m"],
    "unterminated-context": ["m = [length]", "s = [time]", "@context c", "    [length] -> [time]: value * {a} * s / m"],
    "invalid-unit-name": ["m = [length]", "1x = {a} * m"],
    "invalid-dimension-name": ["m = [1length]"],
    "undefined-reference": ["m = [length]", "x = {a} * nosuchunit"],
    "prefix-with-units": ["m = [length]", "kk- = {a} * m"],
    "duplicate-definition": ["m = [length]", "x = {a} * m", "x = {b} * m"],
    "context-parameter-unused": ["m = [length]", "s = [time]", "@context(q={a}) c", "    [length] -> [time]: value * s / m", "@end"],
    "system-unknown-unit": ["m = [length]", "@system S", "    nosuch", "@end"],
    # invalid names in the symbol position; fields left empty
    "unit-symbol-with-spaces": ["m = [length]", "x = {a} * m = bad sym"],
    "prefix-symbol-with-spaces": ["m = [length]", "kk- = {a} = k k-"],
    "double-equals": ["m = [length]", "x == {a} * m"],
    "empty-modifier-value": ["kel = [temp]", "degX = {a} * kel; offset:"],
    "empty-relation": ["m = [length]", "x ="],
    "empty-relation-with-modifier": ["kel = [temp]", "degX = ; offset: {a}"],
    "empty-prefix-value": ["m = [length]", "kk- ="],
    # block headers that are not of the documented form (invalid name, trailing junk)
    "header:group-invalid-name": ["m = [length]", "@group test-imperial", "    y = {a} * m", "@end"],
    "header:group-trailing-junk": ["m = [length]", "@group test junk", "    y = {a} * m", "@end"],
    "header:system-invalid-name": ["m = [length]", "@system test-x", "    m", "@end"],
    "header:system-trailing-junk": ["m = [length]", "@system test junk", "    m", "@end"],
    "header:context-invalid-name": ["m = [length]", "s = [time]", "@context test-x", "    [length] -> [time]: value * {a} * s / m", "@end"],
    "header:context-trailing-junk": ["m = [length]", "s = [time]", "@context test junk", "    [length] -> [time]: value * {a} * s / m", "@end"],
}


def h_ill_formed(eng, kind):
    if kind in ("cycle", "self-reference"):
        # deep recursion in the code under test: keep the solver out of the recursion
        a, b = eng.num(2), eng.num(3)
        eng.real("a"), eng.real("b")
    else:
        a, b = eng.real("a"), eng.real("b")
        eng.assume(a > 0)
        eng.assume(b > 0)
        eng.assume(Not(Eq(a, 1)))
        eng.assume(Not(Eq(a, b)))
    L = eng.lit
    lines = [ln.format(a=L(a), b=L(b)) for ln in ILL_FORMED[kind]]
    x = eng.real("x")
    try:
        ureg = pint.UnitRegistry(lines, non_int_type=eng.ntype, on_redefinition="raise")
    except (ValueError, TypeError, KeyError, AttributeError, DefinitionSyntaxError, RedefinitionError, RecursionError):
        eng.prove(True, f"{kind}:raises-at-load")
        return
    if kind.startswith("header:"):
        # loaded without complaint: then the block must not have been filed under a name that
        # was never written (the header cut off at the first character that does not fit)
        table = {"group": ureg._groups, "system": ureg._systems, "context": ureg._contexts}[kind.split(":")[1].split("-")[0]]
        eng.prove("test" not in table, f"{kind}:silently-accepted-under-a-truncated-name")
        return
    # ... or at the latest on first use of what was defined
    names = [ln.split("=")[0].strip() for ln in lines if "=" in ln and not ln.startswith(("@", "[", " "))]
    # a prefix is used through a prefixed unit
    names = [(n.rstrip("-") + "m") if n.endswith("-") else n for n in names]
    raised = False
    # (only names that the text defines: an undefined name raising would prove nothing)
    names = [n for n in dict.fromkeys(names) if n.isidentifier()]
    for n in names:
        try:
            q = ureg.Quantity(x, n)
            q.to_root_units()
            q.to_base_units()
        except (ValueError, TypeError, KeyError, UndefinedUnitError, RecursionError, AttributeError):
            raised = True
    if kind in ("context-parameter-unused", "unterminated-context"):
        try:
            ureg.enable_contexts("c")
            ureg.Quantity(x, "m").to("s")
        except (ValueError, TypeError, KeyError, RecursionError, DimensionalityError):
            raised = True
    if kind == "system-unknown-unit":
        try:
            ureg.get_base_units("m", system="S")
            ureg.get_system("S").members
            raised = raised or "nosuch" in str(ureg.get_system("S").base_units)
        except (ValueError, KeyError):
            raised = True
    eng.prove(raised, f"{kind}:silently-accepted")


MIN_DISCHARGED = {"H10.a": 40, "H10.b": 600, "H10.c": 100, "H10.e": 15, "H10.f": 100}


def cases(tier, seed):
    big = tier == "thorough"
    rnd = random.Random(f"c10:{seed}")
    out = []
    opts = {"hash_mode": "mixed", "max_paths": 200}
    ident = list(range(6))
    out.append(Case("H10.a", "identity", M, "h_interpret", {"perm": ident, "layout": "plain"}, opts=opts, validate=1, weight=5.0))
    for layout in ("tight", "wide", "comments", "blank", "units-first", "late-dimension"):
        out.append(Case("H10.d", layout, M, "h_interpret", {"perm": ident, "layout": layout}, opts=opts, validate=1, weight=5.0))
    perms = list(itertools.permutations(range(6)))
    chosen = perms if big else ([tuple(reversed(ident))] + rnd.sample(perms, 24))
    for p in chosen:
        out.append(Case("H10.b", "perm:" + "".join(map(str, p)), M, "h_interpret", {"perm": list(p), "layout": "plain"}, opts=opts, validate=0, weight=5.0))
    for p in rnd.sample(perms, 6 if not big else 40):
        out.append(Case("H10.b", "perm-units-first:" + "".join(map(str, p)), M, "h_interpret", {"perm": list(p), "layout": "units-first"}, opts=opts, validate=0, weight=5.0))
    for path in ("file", "load_definitions", "define", "cache-cold", "cache-warm", "cache-import-edit", "cache-same-text-two-directories"):
        out.append(Case("H10.c", path, M, "h_loading_paths", {"path": path}, opts=opts, validate=1 if path in ("file", "load_definitions") else 0, weight=6.0))
    out.append(Case("H10.c", "cache-across-processes", M, "h_cache_across_processes", {}, kind="conc"))
    # a spelling that had been read as prefix + unit before it arrives as an alias or a name
    # (load_definitions()/define() after first use mean what a file with the line in it means)
    for pre in ("alias:prefixed", "alias:plural", "alias-load:prefixed", "prefixed"):
        out.append(Case("H10.c", f"late-line-for-a-parsed-spelling:{pre}", "pvlib.harness.c13", "h_define_parsed_name", {"pre": pre}, opts={"hash_mode": "mixed", "max_paths": 300}, validate=1))
    for path in ("lines", "file", "define"):
        out.append(Case("H10.a", f"group-chain:{path}", M, "h_group_chain", {"path": path}, opts=opts, validate=1))
    for kind in ILL_FORMED:
        out.append(Case("H10.e", kind, M, "h_ill_formed", {"kind": kind}, opts=opts, validate=1))
    out.append(Case("H10.obs", "observed", "pvlib.harness.observed", "h_c10", {}, kind="conc"))
    for tname in ("float", "Decimal"):
        out.append(Case("H10.a", f"decimal-literals:{tname}-registry", M, "h_decimal_literals_other_types", {"tname": tname}, kind="conc"))
    for mode in ("raise", "warn", "ignore"):
        out.append(Case("H10.e", f"redefinition-mode:{mode}", M, "h_redefinition_modes", {"mode": mode}, opts=opts, validate=1))
    for path in ("lines", "file", "load_definitions", "definition-objects"):
        out.append(Case("H10.a", f"decimal-literals:{path}", M, "h_decimal_literals", {"path": path}, opts=opts, validate=1))
    for k in range(400 if big else 24):
        out.append(Case("H10.f", f"dag-{seed}-{k:03d}", M, "h_random_dag", {"k": seed * 1000 + k}, opts=opts, validate=1, weight=2.0))
    return out
