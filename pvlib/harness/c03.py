"""C03 -- arithmetic results do not depend on the units used to express the operands."""

from __future__ import annotations

import operator
import random
from fractions import Fraction

from pint.errors import DimensionalityError, OffsetUnitCalculusError

from .. import covers, regs
from ..runner import Case
from ..sx.q import And, Eq, Iff, Not, Or

PROPERTY = "C03"
M = "pvlib.harness.c03"

META = {
    "explanation": "every Quantity operator of the real code is run twice on symbolic magnitudes -- operands in units (u, v) and the same physical operands "
    "re-expressed in compatible units (u', v') -- and the two results are proved physically equal (same root units, equal root magnitude, equal truth value, "
    "or the same exception class) for all magnitudes; reflected and in-place forms are proved equal to the plain forms; admissibility of bare numbers "
    "is proved to be exactly 'dimensionless or zero' with the number symbolic.",
    "functions_encoded": [
        "pint/facets/plain/quantity.py::_add_sub, _iadd_sub, __rsub__, _mul_div, _imul_div, __truediv__, __rtruediv__, __floordiv__, __rfloordiv__, __ifloordiv__, __mod__, __rmod__, __imod__, __divmod__, __rdivmod__, __pow__, __ipow__, __rpow__, __neg__, __abs__, __eq__, compare",
        "pint/compat.py::zero_or_nan, eq, _to_magnitude",
        "pint/util.py::UnitsContainer arithmetic",
    ],
    "bounds": {"magnitudes": "all rationals (symbolic); divisors assumed non-zero", "powers": "integer exponents in [-3,3]", "units": "cover list + seeded compatible pairs, incl. prefixed units, percent/radian/count", "arrays": "object dtype, length 2 (in-place twins)"},
    "enumerated_axes": [{"axis": "operator x unit tuple", "exhaustive": False}],
    "outside_claim": ["int-typed magnitudes (_truedivide_cast_int) and float/Decimal magnitudes", "NaN", "ndarray of floats (C16)", "rational powers of magnitudes", "offset units (C06)"],
}

BINOPS = {
    "add": operator.add,
    "sub": operator.sub,
    "mul": operator.mul,
    "truediv": operator.truediv,
    "floordiv": operator.floordiv,
    "mod": operator.mod,
    "eq": operator.eq,
    "ne": operator.ne,
    "lt": operator.lt,
    "le": operator.le,
    "gt": operator.gt,
    "ge": operator.ge,
}


def _root(q):
    r = q.to_root_units()
    return r.magnitude, {k: (v.c if hasattr(v, "c") else Fraction(v)) for k, v in r._units.items()}


def _same(eng, r1, r2, label):
    """two results are physically equal"""
    if isinstance(r1, tuple):
        eng.prove(isinstance(r2, tuple) and len(r1) == len(r2), label + ":tuple-shape")
        for i, (a, b) in enumerate(zip(r1, r2)):
            _same(eng, a, b, f"{label}[{i}]")
        return
    if hasattr(r1, "to_root_units") or hasattr(r2, "to_root_units"):
        eng.prove(hasattr(r1, "to_root_units") and hasattr(r2, "to_root_units"), label + ":both-quantities")
        m1, u1 = _root(r1)
        m2, u2 = _root(r2)
        # compatible units may differ in dimensionless root units (radian, count, bit):
        # physical equality is dimensionality + root magnitude
        eng.prove(r1.dimensionality == r2.dimensionality, label + ":dimensionality")
        strip = lambda d: {k: e for k, e in d.items() if k not in _dimensionless_roots()}
        eng.prove(strip(u1) == strip(u2), label + ":root-units")
        eng.prove(Eq(m1, m2), label + ":value")
    else:
        # booleans (possibly symbolic) or bare numbers
        try:
            eng.prove(Iff(r1, r2), label + ":truth")
        except TypeError:
            eng.prove(Eq(r1, r2), label + ":number")


def _dimensionless_roots():
    from ..ref import refdefs

    d = refdefs.default()
    return {n for n, u in d.units.items() if u.is_base and u.dim == "[]"}


def _run(fn):
    try:
        return "ok", fn()
    except (DimensionalityError, OffsetUnitCalculusError, ValueError, ZeroDivisionError) as e:
        return type(e).__name__, None


def h_binop(eng, op, u, u2, v, v2):
    ureg = regs.default(eng)
    x, y = eng.real("x"), eng.real("y")
    if op in ("truediv", "floordiv", "mod", "divmod"):
        eng.assume(Not(Eq(y, 0)))
    a, b = ureg.Quantity(x, u), ureg.Quantity(y, v)
    a2, b2 = a.to(u2), b.to(v2)
    f = BINOPS.get(op) or divmod
    s1, r1 = _run(lambda: f(a, b))
    s2, r2 = _run(lambda: f(a2, b2))
    eng.prove(s1 == s2, f"{op}:same-kind-of-outcome")
    if s1 == "ok" and s2 == "ok":
        _same(eng, r1, r2, op)
    # operands are never modified
    eng.prove(And(Eq(a.magnitude, x), Eq(b.magnitude, y)), f"{op}:operands-untouched")


def h_unop(eng, op, u, u2, k):
    ureg = regs.default(eng)
    x = eng.real("x")
    a = ureg.Quantity(x, u)
    a2 = a.to(u2)
    if op == "pow":
        if k < 0:
            eng.assume(Not(Eq(x, 0)))
        f = lambda q: q**k
    elif op == "neg":
        f = operator.neg
    elif op == "abs":
        f = abs
    else:
        f = operator.pos
    _same(eng, f(a), f(a2), f"{op}{k if op == 'pow' else ''}")
    eng.prove(Eq(a.magnitude, x), f"{op}:operand-untouched")


def h_forms(eng, op, u, v, form):
    """reflected and in-place forms agree with the plain form"""
    import numpy as np

    ureg = regs.default(eng)
    x, y = eng.real("x"), eng.real("y")
    if op in ("truediv", "floordiv", "mod"):
        eng.assume(Not(Eq(y, 0)))
    f = BINOPS[op]
    a, b = ureg.Quantity(x, u), ureg.Quantity(y, v)
    if form == "reflected":
        # a bare number on the left dispatches to b.__rop__: c op b must be Quantity(c, '') op b
        s0, plain = _run(lambda: f(ureg.Quantity(x, ""), b))
        s1, r = _run(lambda: f(x, b))
        eng.prove(s0 == s1, f"r{op}:same-kind-of-outcome")
        if s0 == "ok" and s1 == "ok":
            _same(eng, plain, r, f"r{op}")
        eng.prove(And(Eq(b.magnitude, y), b.units == ureg.Unit(v)), f"r{op}:other-untouched")
        return
    s0, plain = _run(lambda: f(a, b))
    iop = getattr(operator, "i" + op)

    def dim_follows(q, label):
        # the memoised dimensionality (read before the operation) must follow the new units
        fresh = ureg.Quantity(1, q._units)
        eng.prove(q.dimensionality == fresh.dimensionality, f"{label}:dimensionality-follows-units")
        eng.prove(q.check(fresh.dimensionality), f"{label}:check-follows-units")

    if form == "inplace-scalar":
        a_i = ureg.Quantity(x, u)
        a_i.dimensionality
        s1, r = _run(lambda: iop(a_i, b))
        eng.prove(s0 == s1, f"i{op}:same-kind-of-outcome")
        if s0 == "ok" and s1 == "ok":
            _same(eng, plain, r, f"i{op}")
            dim_follows(r, f"i{op}")
        eng.prove(And(Eq(b.magnitude, y), b.units == ureg.Unit(v)), f"i{op}:other-untouched")
    elif form == "inplace-array":  # in-place on object arrays: the duck-array twins
        x2 = eng.real("x2")
        arr = ureg.Quantity(np.array([x, x2], dtype=object), u)
        arr.dimensionality
        s1, r = _run(lambda: iop(arr, b))
        eng.prove(s0 == s1, f"i{op}-array:same-kind-of-outcome")
        if s0 == "ok" and s1 == "ok":
            first = ureg.Quantity(r.magnitude[0], r._units)
            _same(eng, plain, first, f"i{op}-array[0]")
            _, plain2 = _run(lambda: f(ureg.Quantity(x2, u), b))
            _same(eng, plain2, ureg.Quantity(r.magnitude[1], r._units), f"i{op}-array[1]")
            dim_follows(r, f"i{op}-array")
        eng.prove(And(Eq(b.magnitude, y), b.units == ureg.Unit(v)), f"i{op}-array:other-untouched")
    elif form in ("array-array", "inplace-array-array"):
        # both operands are object arrays: element-wise equal to the scalar form, right operand untouched
        x2, y2 = eng.real("x2"), eng.real("y2")
        if op in ("truediv", "floordiv", "mod"):
            eng.assume(Not(Eq(y2, 0)))
        arr = ureg.Quantity(np.array([x, x2], dtype=object), u)
        barr = ureg.Quantity(np.array([y, y2], dtype=object), v)
        arr.dimensionality
        tag = ("i" if form.startswith("inplace") else "") + f"{op}-array-array"
        s1, r = _run(lambda: (iop if form.startswith("inplace") else f)(arr, barr))
        eng.prove(s0 == s1, f"{tag}:same-kind-of-outcome")
        if s0 == "ok" and s1 == "ok":
            _same(eng, plain, ureg.Quantity(r.magnitude[0], r._units), f"{tag}[0]")
            _, plain2 = _run(lambda: f(ureg.Quantity(x2, u), ureg.Quantity(y2, v)))
            _same(eng, plain2, ureg.Quantity(r.magnitude[1], r._units), f"{tag}[1]")
            dim_follows(r, tag)
            if not form.startswith("inplace"):
                eng.prove(And(Eq(arr.magnitude[0], x), Eq(arr.magnitude[1], x2), arr.units == ureg.Unit(u)), f"{tag}:left-untouched")
                eng.prove(not np.shares_memory(r.magnitude, arr.magnitude) and not np.shares_memory(r.magnitude, barr.magnitude), f"{tag}:result-is-a-new-array")
        eng.prove(And(Eq(barr.magnitude[0], y), Eq(barr.magnitude[1], y2), barr.units == ureg.Unit(v)), f"{tag}:other-untouched")
    elif form in ("array-number", "inplace-array-number"):
        # a bare number as right operand of an object-array quantity (u is dimensionless here)
        x2 = eng.real("x2")
        s0, plain = _run(lambda: f(a, y))
        arr = ureg.Quantity(np.array([x, x2], dtype=object), u)
        arr.dimensionality
        tag = ("i" if form.startswith("inplace") else "") + f"{op}-array-number"
        s1, r = _run(lambda: (iop if form.startswith("inplace") else f)(arr, y))
        eng.prove(s0 == s1, f"{tag}:same-kind-of-outcome")
        if s0 == "ok" and s1 == "ok":
            _same(eng, plain, ureg.Quantity(r.magnitude[0], r._units), f"{tag}[0]")
            _, plain2 = _run(lambda: f(ureg.Quantity(x2, u), y))
            _same(eng, plain2, ureg.Quantity(r.magnitude[1], r._units), f"{tag}[1]")
            dim_follows(r, tag)
            if not form.startswith("inplace"):
                eng.prove(And(Eq(arr.magnitude[0], x), Eq(arr.magnitude[1], x2), arr.units == ureg.Unit(u)), f"{tag}:left-untouched")
                # asked again, the same expression gives the same answer
                s2, again = _run(lambda: f(arr, y))
                eng.prove(s2 == "ok", f"{tag}:again-same-kind-of-outcome")
                if s2 == "ok":
                    _same(eng, plain, ureg.Quantity(again.magnitude[0], again._units), f"{tag}:again[0]")
        if not form.startswith("inplace") and op in ("add", "sub", "mul", "truediv"):
            # the number on the left: element-wise the scalar reflected form; the array stays as it was
            arr2 = ureg.Quantity(np.array([x, x2], dtype=object), u)
            if op == "truediv":
                eng.assume(And(Not(Eq(x, 0)), Not(Eq(x2, 0))))
            s3, want = _run(lambda: f(y, ureg.Quantity(x, u)))
            s4, r4 = _run(lambda: f(y, arr2))
            eng.prove(s3 == s4, f"r{tag}:same-kind-of-outcome")
            if s3 == "ok" and s4 == "ok":
                _same(eng, want, ureg.Quantity(r4.magnitude[0], r4._units), f"r{tag}[0]")
            eng.prove(And(Eq(arr2.magnitude[0], x), Eq(arr2.magnitude[1], x2), arr2.units == ureg.Unit(u)), f"r{tag}:array-untouched")


def h_ipow(eng, u, k, form):
    """in-place power agrees with the plain form; the memoised dimensionality follows"""
    import numpy as np

    ureg = regs.default(eng)
    x = eng.real("x")
    if k < 0:
        eng.assume(Not(Eq(x, 0)))
    plain = ureg.Quantity(x, u) ** k
    if form == "scalar":
        a = ureg.Quantity(x, u)
        a.dimensionality
        a **= k
        _same(eng, plain, a, f"ipow{k}")
    else:
        x2 = eng.real("x2")
        if k < 0:
            eng.assume(Not(Eq(x2, 0)))
        a = ureg.Quantity(np.array([x, x2], dtype=object), u)
        a.dimensionality
        a **= k
        _same(eng, plain, ureg.Quantity(a.magnitude[0], a._units), f"ipow{k}-array[0]")
        _same(eng, ureg.Quantity(x2, u) ** k, ureg.Quantity(a.magnitude[1], a._units), f"ipow{k}-array[1]")
    fresh = ureg.Quantity(1, a._units)
    eng.prove(a.dimensionality == fresh.dimensionality, f"ipow{k}-{form}:dimensionality-follows-units")
    eng.prove(a.check(fresh.dimensionality), f"ipow{k}-{form}:check-follows-units")


def h_power_forms(eng, u, k):
    """exponents given as dimensionless quantities, and quantities as exponents of bare numbers"""
    ureg = regs.default(eng)
    x, c = eng.real("x"), eng.real("c")
    if k < 0:
        eng.assume(Not(Eq(x, 0)))
        eng.assume(Not(Eq(c, 0)))
    a = ureg.Quantity(x, u)
    want = a**k
    for label, e in (("plain", ureg.Quantity(k, "")), ("percent", ureg.Quantity(100 * k, "percent")), ("radian-free", ureg.Quantity(k, "meter/meter"))):
        s, r = _run(lambda: a**e)
        eng.prove(s == "ok", f"pow-quantity-exponent:{label}:accepted")
        if s == "ok":
            _same(eng, want, r, f"pow-quantity-exponent:{label}")
    if k != 0:
        s, r = _run(lambda: a ** ureg.Quantity(k, "second"))
        eng.prove(s == "DimensionalityError", "pow-dimensional-exponent-refused")
    # bare number to the power of a dimensionless quantity
    for label, e in (("plain", ureg.Quantity(k, "")), ("percent", ureg.Quantity(100 * k, "percent"))):
        # (the scaled exponent with a concrete base: a wrong reading would need base ** 200)
        cb = c if label == "plain" else eng.num(3)
        s, r = _run(lambda: cb**e)
        eng.prove(s == "ok", f"rpow:{label}:accepted")
        if s == "ok":
            m = r.to("").magnitude if hasattr(r, "to") else r
            # (a Fraction base gives a float here in a Fraction registry: compared within 1e-12)
            want_c = cb**k
            eng.prove(abs(m - want_c) <= abs(want_c) * Fraction(1, 10**12), f"rpow:{label}:value")
    if k != 0:
        s, r = _run(lambda: c ** ureg.Quantity(k, "second"))
        eng.prove(s == "DimensionalityError", "rpow-dimensional-exponent-refused")
    eng.prove(Eq(a.magnitude, x), "pow-operand-untouched")


def h_unary_misc(eng, u):
    """+q, abs, bool, round, int/float of dimensionless quantities"""
    ureg = regs.default(eng)
    iu = covers.info(u)
    x = eng.real("x")
    a = ureg.Quantity(x, u)
    p = +a
    eng.prove(And(Eq(p.magnitude, x), p.units == a.units), "pos")
    eng.prove(Iff(bool(a), Not(Eq(x, 0))), "bool-is-nonzero")
    for val, nd in ((Fraction(12345, 1000), 1), (Fraction(-5, 2), 0), (Fraction(7, 3), 2)):
        q = ureg.Quantity(eng.num(val), u)
        r = round(q, nd)
        eng.prove(Eq(r.magnitude, round(val, nd)) and r.units == q.units, f"round:{val}:{nd}")
    dimless = not iu.dims
    for val in (Fraction(250), Fraction(-7, 2)):
        q = ureg.Quantity(eng.num(val), u)
        for name, fn in (("int", int), ("float", float)):
            try:
                got = fn(q)
            except DimensionalityError:
                eng.prove(not dimless, f"{name}-refused-only-when-dimensional")
                continue
            eng.prove(dimless, f"{name}-accepted-only-when-dimensionless")
            if dimless and not iu.inexact:
                eng.prove(got == fn(val * iu.num), f"{name}:value:{val}")


def h_other_numeric_types(eng, tname, pairs):
    """float, int and Decimal magnitudes: the operators give physically equal results whatever
    compatible units the operands are written in (to the precision of the type); comparisons agree
    away from ties"""
    import decimal

    import pint

    if tname == "Decimal":
        ureg = getattr(h_other_numeric_types, "_dec", None)
        if ureg is None:
            ureg = h_other_numeric_types._dec = pint.UnitRegistry(non_int_type=decimal.Decimal)
        num, tol = (lambda v: decimal.Decimal(str(v))), Fraction(1, 10**22)
    else:
        ureg = regs.float_default()
        num, tol = ((lambda v: v) if tname == "float" else (lambda v: int(v))), Fraction(1, 10**12)
    inf = covers.infos()
    vals = [(7, 3), (-2, 5), (1000, 1)] if tname == "int" else [(2.5, 0.75), (-1.25e3, 3.5e-2), (1e-9, 4e5)]

    def phys(r):
        rr = r.to_root_units() if hasattr(r, "to_root_units") else r
        return Fraction(rr.magnitude if hasattr(rr, "magnitude") else rr), (dict(rr.dimensionality) if hasattr(rr, "dimensionality") else {})

    for u, u2, v, v2 in pairs:
        for xv, yv in vals:
            a, b = ureg.Quantity(num(xv), u), ureg.Quantity(num(yv), v)
            a2, b2 = a.to(u2), b.to(v2)
            for name in ("add", "sub", "mul", "truediv"):
                f = BINOPS[name]
                (m1, d1), (m2, d2) = phys(f(a, b)), phys(f(a2, b2))
                eng.prove(d1 == d2, f"{tname}:{name}:dimensionality:{u},{v}")
                scale = max(abs(m1), abs(m2), abs(Fraction(xv) * inf[u].num)) if name in ("add", "sub") else max(abs(m1), abs(m2))
                eng.prove(abs(m1 - m2) <= tol * scale, f"{tname}:{name}:value:{u},{v}")
            pa, pb = Fraction(xv) * inf[u].num, Fraction(yv) * inf[v].num
            if abs(pa - pb) > Fraction(1, 10**6) * max(abs(pa), abs(pb)):
                for name in ("lt", "le", "gt", "ge", "eq", "ne"):
                    f = BINOPS[name]
                    want = f(pa, pb)
                    eng.prove(bool(f(a, b)) == want and bool(f(a2, b2)) == want, f"{tname}:{name}:{u},{v}")
            (mn, dn), (mn2, dn2) = phys(-a), phys(-a2)
            eng.prove(abs(mn - mn2) <= tol * abs(mn) and dn == dn2, f"{tname}:neg:{u}")
            (mp, dp), (mp2, dp2) = phys(a**2), phys(a2**2)
            eng.prove(abs(mp - mp2) <= tol * abs(mp) and dp == dp2, f"{tname}:pow2:{u}")


def h_bare_number(eng, op, u, side):
    """a bare number is accepted by + and - iff the quantity is dimensionless or the number is zero"""
    ureg = regs.default(eng)
    x, c = eng.real("x"), eng.real("c")
    iu = covers.info(u)
    a = ureg.Quantity(x, u)
    f = BINOPS[op]
    fn = (lambda: f(a, c)) if side == "right" else (lambda: f(c, a))
    s, r = _run(fn)
    dimless = not iu.dims
    if s == "DimensionalityError":
        eng.prove(And(not dimless, Not(Eq(c, 0))), f"{op}-number:refused-only-when-dimensional-and-nonzero")
        return
    eng.prove(s == "ok", f"{op}-number:no-other-error")
    eng.prove(Or(dimless, Eq(c, 0)), f"{op}-number:accepted-only-when-dimensionless-or-zero")
    m, units = _root(r)
    base = iu.num * x
    if dimless:
        want = {"add": base + c, "sub": (base - c) if side == "right" else (c - base)}[op]
        # zero is added without conversion: the result keeps the unit (value base +/- 0)
        eng.prove(Eq(m, want), f"{op}-number:value")
    else:
        want = base if (op == "add" or side == "right") else -base
        eng.prove(Eq(m, want), f"{op}-number:zero-value")
    # the same with an array magnitude: the result is a new array -- writing into it afterwards
    # (total = 0; total += q ...) must not reach the operand
    import numpy as np

    x2 = eng.real("x2")
    arr = ureg.Quantity(np.array([x, x2], dtype=object), u)
    s2, r2 = _run((lambda: f(arr, c)) if side == "right" else (lambda: f(c, arr)))
    eng.prove(s2 == s, f"{op}-number-array:same-kind-of-outcome")
    if s2 == "ok":
        eng.prove(r2.magnitude is not arr.magnitude and not np.shares_memory(r2.magnitude, arr.magnitude), f"{op}-number-array:result-is-a-new-array")
        r2 *= 3
        r2 += r2
        eng.prove(And(Eq(arr.magnitude[0], x), Eq(arr.magnitude[1], x2), arr.units == ureg.Unit(u)), f"{op}-number-array:operand-untouched-by-later-in-place-use-of-the-result")


def h_cross_dimension(eng, op, u, v):
    ureg = regs.default(eng)
    x, y = eng.real("x"), eng.real("y")
    a, b = ureg.Quantity(x, u), ureg.Quantity(y, v)
    f = BINOPS[op]
    try:
        f(a, b)
    except DimensionalityError:
        eng.prove(True, f"{op}:cross-dimension-raises")
    else:
        eng.fail(f"{op}:cross-dimension-accepted")
    if op not in ("add", "sub", "floordiv", "mod"):
        return
    # the in-place and array forms refuse as well -- whatever the magnitudes, zero included --
    # and a refused in-place operation leaves its left operand as it was
    import numpy as np

    iop = getattr(operator, "i" + op)
    x2 = eng.real("x2")
    for tag, mk, fn in (
        ("inplace-array", lambda: ureg.Quantity(np.array([x, x2], dtype=object), u), lambda l: iop(l, b)),
        ("array", lambda: ureg.Quantity(np.array([x, x2], dtype=object), u), lambda l: f(l, b)),
        ("inplace-array-array", lambda: ureg.Quantity(np.array([x, x2], dtype=object), u), lambda l: iop(l, ureg.Quantity(np.array([y, y], dtype=object), v))),
        ("inplace-scalar", lambda: ureg.Quantity(x, u), lambda l: iop(l, b)),
    ):
        left = mk()
        try:
            fn(left)
        except DimensionalityError:
            eng.prove(True, f"{op}:{tag}:cross-dimension-raises")
        else:
            eng.fail(f"{op}:{tag}:cross-dimension-accepted")
        m0 = left.magnitude[0] if tag != "inplace-scalar" else left.magnitude
        eng.prove(And(Eq(m0, x), left.units == ureg.Unit(u)), f"{op}:{tag}:left-untouched-after-refusal")


def h_quantity_exponents_and_contexts(eng):
    """(concrete, float and Fraction registries) an exponent given as a dimensionless quantity
    counts with its value, not with its raw magnitude; + and - across dimensions are refused also
    while a context relates the two dimensions"""
    import math

    for rname, ureg, num in (("float", regs.float_default(), float), ("fraction", regs.fraction_default(), Fraction)):
        Qy = ureg.Quantity
        two = Qy(num(2), "")
        for eu, k in (("decacount", 10), ("", 1), ("count", 1), ("hectocount", 100)):
            r = two ** Qy(num(1), eu)
            eng.prove(getattr(r, "magnitude", r) == 2**k, f"{rname}:2**Q(1,{eu or 'dimensionless'})")
            rl = Qy(num(3), "meter") ** Qy(num(1), eu)
            eng.prove(dict(rl._units) == {"meter": k} and (rl.magnitude == 3**k or (rname == "float" and math.isclose(rl.magnitude, 3**k, rel_tol=1e-12))), f"{rname}:Q(3,m)**Q(1,{eu or 'dimensionless'})")
        r = Qy(num(2), "meter") ** Qy(num(100), "percent")
        eng.prove(dict(r._units) == {"meter": 1} and r.magnitude == 2, f"{rname}:Q(2,m)**Q(100,percent)-is-the-first-power")
        r = Qy(num(2), "meter") ** Qy(num(200), "percent")
        eng.prove(dict(r._units) == {"meter": 2} and r.magnitude == 4, f"{rname}:Q(2,m)**Q(200,percent)")
    ureg = regs.float_default()
    Qy = ureg.Quantity
    r = Qy(4.0, "") ** Qy(1.0, "percent")
    eng.prove(math.isclose(getattr(r, "magnitude", r), 4.0**0.01, rel_tol=1e-12), "float:4**Q(1,percent)")
    for ctx in ("sp", "boltzmann", "energy"):
        with ureg.context(ctx):
            for a, b in ((Qy(500.0, "nm"), Qy(600.0, "THz")), (Qy(1.0, "kelvin"), Qy(1.0, "joule")), (Qy(1.0, "gram"), Qy(1.0, "joule"))):
                for oname, fn in (("add", lambda: a + b), ("radd", lambda: b + a), ("sub", lambda: a - b), ("sum", lambda: sum([a, b])), ("floordiv", lambda: a // b), ("mod", lambda: a % b), ("lt", lambda: a < b)):
                    if oname in ("floordiv", "mod"):
                        continue  # (these two convert through the context on the unchanged tree: noted in DESIGN, not claimed)
                    try:
                        fn()
                    except DimensionalityError:
                        eng.prove(True, f"context:{ctx}:{oname}:{a.units},{b.units}:cross-dimension-raises")
                    else:
                        eng.fail(f"context:{ctx}:{oname}:{a.units},{b.units}:cross-dimension-accepted", stop=False)
            eng.prove((Qy(1.0, "m") + Qy(100.0, "cm")).magnitude == 2.0, f"context:{ctx}:same-dimension-as-usual")


MIN_DISCHARGED = {"H03.a": 600, "H03.b": 200, "H03.c": 60}


def cases(tier, seed):
    big = tier == "thorough"
    rnd = random.Random(f"c03:{seed}")
    inf = covers.infos()
    cl = covers.classes(kinds=("base", "mult", "dimensionless"))
    out = []

    def alt(u):
        # positively scaled alternatives only: the ordering clauses are stated for those
        members = [m for m in cl[inf[u].dims] if m != u and inf[m].num > 0]
        return rnd.choice(members) if members else u

    pairs = covers.same_dim_pairs(seed, 600 if big else 10, positive_only=True)
    extra = [("percent", "ppm"), ("radian", "degree"), ("count", "percent"), ("kilometer", "inch"), ("millisecond", "hour"), ("kilowatt_hour", "electron_volt")]
    # same-dimension operators
    for op in ("add", "sub", "floordiv", "mod", "divmod", "eq", "ne", "lt", "le", "gt", "ge"):
        for u, v in pairs + extra:
            cu, cv = _canon(u), _canon(v)
            u2, v2 = alt(cu), alt(cv)
            out.append(Case("H03.a", f"{op}:{u},{v}->{u2},{v2}", M, "h_binop", {"op": op, "u": u, "u2": u2, "v": v, "v2": v2}, weight=3.0 if op in ("mod", "divmod", "floordiv") else 1.0, opts={"query_timeout_ms": 20000}))
    # orderings and equality over offset temperature scales (the alternative units are other scales:
    # the sign of the magnitude says nothing about the order there)
    for op in ("eq", "ne", "lt", "le", "gt", "ge"):
        for u, v, u2, v2 in (("degree_Celsius", "kelvin", "degree_Fahrenheit", "degree_Rankine"), ("kelvin", "degree_Fahrenheit", "degree_Celsius", "kelvin"), ("degree_Celsius", "degree_Fahrenheit", "kelvin", "degree_Celsius"), ("degree_Reaumur", "degree_Celsius", "degree_Rankine", "degree_Fahrenheit")):
            out.append(Case("H03.a", f"{op}:{u},{v}->{u2},{v2}", M, "h_binop", {"op": op, "u": u, "u2": u2, "v": v, "v2": v2}, opts={"query_timeout_ms": 20000}))
    # any-dimension operators
    cov = covers.cover()
    for op in ("mul", "truediv"):
        for _ in range(400 if big else 10):
            u, v = rnd.sample(cov, 2)
            out.append(Case("H03.a", f"{op}:{u},{v}", M, "h_binop", {"op": op, "u": u, "u2": alt(u), "v": v, "v2": alt(v)}))
    for op, ks in (("pow", [-3, -2, -1, 0, 1, 2, 3]), ("neg", [0]), ("abs", [0])):
        for k in ks:
            for u in rnd.sample(cov, min(len(cov), 40) if big else 2) + ["percent"]:
                out.append(Case("H03.a", f"{op}{k}:{u}", M, "h_unop", {"op": op, "u": u, "u2": alt(_canon(u)), "k": k}))
    # H03.b operator forms
    for op in ("add", "sub", "mul", "truediv", "floordiv", "mod"):
        for u, v in pairs[: (60 if big else 3)] + [("percent", "ppm")]:
            for form in ("inplace-scalar", "inplace-array", "array-array", "inplace-array-array"):
                out.append(Case("H03.b", f"{form}:{op}:{u},{v}", M, "h_forms", {"op": op, "u": u, "v": v, "form": form}, weight=2.0, opts={"query_timeout_ms": 20000}))
        for u in ("percent", "ppm", "degree", "radian", "dimensionless") + (("count", "turn", "millimeter/meter") if big else ()):
            for form in ("array-number", "inplace-array-number"):
                out.append(Case("H03.b", f"{form}:{op}:{u}", M, "h_forms", {"op": op, "u": u, "v": "dimensionless", "form": form}, weight=2.0, opts={"query_timeout_ms": 20000}))
    for k in (-2, -1, 0, 1, 2, 3):
        for u in ("meter", "percent", "newton") + (tuple(rnd.sample(cov, 4)) if big else ()):
            for form in ("scalar", "array"):
                out.append(Case("H03.b", f"ipow{k}:{form}:{u}", M, "h_ipow", {"u": u, "k": k, "form": form}))
    for op in ("add", "sub", "mul", "truediv", "floordiv", "mod"):
        for v in ("percent", "radian", "count", "meter", "ppm"):
            if v == "meter" and op in ("add", "sub"):
                continue  # bare numbers with dimensional quantities: H03.c
            out.append(Case("H03.b", f"reflected:{op}:number,{v}", M, "h_forms", {"op": op, "u": "meter", "v": v, "form": "reflected"}, weight=2.0, opts={"query_timeout_ms": 20000}))
    for k in (-2, -1, 0, 1, 2, 3):
        for u in ("meter", "percent") + (("newton", "inch") if big else ()):
            out.append(Case("H03.b", f"power-forms:{u}**{k}", M, "h_power_forms", {"u": u, "k": k}))
    for u in ("meter", "percent", "radian", "count", "ppm", "newton"):
        out.append(Case("H03.b", f"unary-misc:{u}", M, "h_unary_misc", {"u": u}))
    # H03.d other numeric types (concrete): float, int, Decimal
    quads = []
    for u, v in pairs[: (200 if big else 12)]:
        cu, cv = _canon(u), _canon(v)
        if not any(inf[n].inexact for n in (cu, cv)):
            u2, v2 = alt(cu), alt(cv)
            if not inf[u2].inexact and not inf[v2].inexact:
                quads.append([cu, u2, cv, v2])
    for tname in ("float", "int", "Decimal"):
        for i in range(0, len(quads), 6):
            out.append(Case("H03.d", f"{tname}:{i:04d}", M, "h_other_numeric_types", {"tname": tname, "pairs": quads[i : i + 6]}, kind="conc"))
    out.append(Case("H03.b", "quantity-exponents-and-contexts", M, "h_quantity_exponents_and_contexts", {}, kind="conc"))
    # H03.c admissibility
    for op in ("add", "sub"):
        for u in ("meter", "radian", "percent", "count", "newton", "ppm", "degree", "byte"):
            for side in ("right", "left"):
                out.append(Case("H03.c", f"{op}-number:{u}:{side}", M, "h_bare_number", {"op": op, "u": u, "side": side}))
    for op in ("add", "sub", "lt", "ge", "floordiv", "mod"):
        for u, v in covers.cross_dim_pairs(seed, 200 if big else 4):
            out.append(Case("H03.c", f"{op}-cross:{u},{v}", M, "h_cross_dimension", {"op": op, "u": u, "v": v}))
    out.append(Case("H03.obs", "observed", "pvlib.harness.observed", "h_c03", {}, kind="conc"))
    return out


def _canon(s):
    from ..ref import refdefs

    d = refdefs.default()
    if s in d.spellings:
        return d.spellings[s]
    r = d.resolve_name(s)
    return r[1] if r else s
