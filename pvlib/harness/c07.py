"""C07 -- string expressions evaluate like ordinary arithmetic on quantities.

Oracle: Python's own compiler.  The same string is evaluated by the real
parse_expression (names bound to symbolic dimensionless quantities through **values) and
by ``eval`` on the bare symbolic numbers; the two results are proved equal for all leaf
values.  Mis-grouping (precedence / associativity) yields a different polynomial and the
solver produces concrete leaf values that expose it."""

from __future__ import annotations

import ast
import itertools
import tokenize
import random
from fractions import Fraction

from pint.errors import DefinitionSyntaxError, DimensionalityError, UndefinedUnitError

from .. import regs
from ..runner import Case
from ..sx.q import And, Eq, Not

PROPERTY = "C07"
M = "pvlib.harness.c07"

META = {
    "explanation": "expression strings over + - * / // % ** unary signs and parentheses (all skeletons up to the bound) are evaluated by the real tokenizer / tree builder / evaluator with leaves bound to "
    "symbolic numbers and by Python's own compiler on the same symbolic numbers; the results are proved equal for all leaf values (exponent leaves range over small integers and are solver-realised). "
    "Spelling variants (juxtaposition, ^, unicode superscripts, per, squared/cubed, square/sq/cubic, redundant parentheses, whitespace) are proved equal to the canonical spelling with symbolic number "
    "literals; ill-formed token sequences (unbalanced parentheses, dangling operators) must raise.",
    "functions_encoded": [
        "pint/pint_eval.py::plain_tokenizer, _build_eval_tree, build_eval_tree, EvalTreeNode.evaluate, _BINARY_OPERATOR_MAP, _UNARY_OPERATOR_MAP, _OP_PRIORITY, _power",
        "pint/util.py::string_preprocessor, _subs_re_list, _pretty_exp_re; ParserHelper.from_string, eval_token",
        "pint/facets/plain/registry.py::parse_expression, _eval_token, preprocessors",
    ],
    "bounds": {"skeletons": "2 and 3 leaves exhaustively (operators x unary signs x parenthesisations), 4 leaves seeded sample (thorough: more)", "leaves": "all rationals (symbolic); leaves in exponent position: integers in [0,2] (realised)", "ill-formed": "all token sequences of length <= 4 (thorough 5) over a 9-symbol alphabet that a reference grammar with implicit multiplication rejects"},
    "enumerated_axes": [{"axis": "expression skeletons", "exhaustive": False}, {"axis": "spelling variants", "exhaustive": False}, {"axis": "ill-formed token sequences", "exhaustive": True}],
    "outside_claim": ["the no-execution clause is decided on a fixed list of hostile strings only (H07.e): the set of all strings is not enumerable and string inputs cannot be made symbolic", "uncertainty notation (C19)", "fuzz strings"],
}

# "%" is not an operator of parse_expression: the registry preprocesses it into the unit percent
BINOPS = ["+", "-", "*", "/", "//", "**"]
NAMES = ["a", "b", "c", "d"]


def _exponent_names(src):
    """names that occur inside an exponent (right operand of **) according to Python"""
    tree = ast.parse(src, mode="eval")
    out = set()

    def walk(node, in_exp):
        if isinstance(node, ast.Name) and in_exp:
            out.add(node.id)
        if isinstance(node, ast.BinOp) and isinstance(node.op, ast.Pow):
            walk(node.left, in_exp)
            walk(node.right, True)
            return
        for ch in ast.iter_child_nodes(node):
            walk(ch, in_exp)

    walk(tree, False)
    return out


def _exponents_integral(src):
    """every exponent sub-expression (per Python) is a small integer for all values of its
    leaves in [0,2]: otherwise the expression needs real powers of symbolic bases, which the
    rational encoding cannot express (such skeletons are skipped and counted)"""
    tree = ast.parse(src, mode="eval")
    exps = [n.right for n in ast.walk(tree) if isinstance(n, ast.BinOp) and isinstance(n.op, ast.Pow)]
    for e in exps:
        names = sorted({n.id for n in ast.walk(e) if isinstance(n, ast.Name)})
        code = compile(ast.Expression(e), "<exp>", "eval")
        for vals in itertools.product([Fraction(0), Fraction(1), Fraction(2)], repeat=len(names)):
            try:
                v = eval(code, {"__builtins__": {}}, dict(zip(names, vals)))  # noqa: S307
            except ZeroDivisionError:
                return False
            if not isinstance(v, (int, Fraction)) or Fraction(v).denominator != 1 or abs(v) > 6:
                return False
    return True


def h_expression(eng, exprs):
    """one string per path (chosen by an enumerated fork)"""
    ureg = regs.default(eng)
    src = eng.choice("expr", exprs)
    psrc = src
    if isinstance(src, (list, tuple)):
        # [text given to pint (with juxtaposition), the same expression with explicit '*']
        psrc, src = src
    exps = _exponent_names(src)
    vals = {}
    for n in NAMES:
        if n not in src:
            continue
        if n in exps:
            vals[n] = eng.integer(n, 0, 2)
        else:
            vals[n] = eng.real(n)
    # Python's meaning of the string
    try:
        want = eval(compile(ast.parse(src, mode="eval"), "<expr>", "eval"), {"__builtins__": {}}, dict(vals))  # noqa: S307
        want_exc = None
    except ZeroDivisionError:
        want, want_exc = None, ZeroDivisionError
    try:
        got = ureg.parse_expression(psrc, **vals)
        got_exc = None
    except ZeroDivisionError:
        got, got_exc = None, ZeroDivisionError
    eng.prove(got_exc is want_exc, f"same-exception:{psrc}")
    if got_exc is None and want_exc is None:
        m = got.to("").magnitude if hasattr(got, "to") else got
        eng.prove(Eq(m, want), f"same-value:{psrc}")
        if hasattr(got, "dimensionless"):
            eng.prove(got.dimensionless, f"dimensionless:{psrc}")


def h_parserhelper(eng, exprs):
    """the same through ParserHelper.from_string (numbers only: scale bookkeeping)"""
    from pint.util import ParserHelper

    src = eng.choice("expr", exprs)
    vals = {n: (eng.integer(n, 0, 2) if n in _exponent_names(src) else eng.real(n)) for n in NAMES if n in src}
    text = src
    for n, v in vals.items():
        eng.assume(v >= 0)  # literals carry no sign of their own
        text = text.replace(n, eng.lit(v))
    try:
        want = eval(compile(ast.parse(src, mode="eval"), "<expr>", "eval"), {"__builtins__": {}}, dict(vals))  # noqa: S307
    except ZeroDivisionError:
        return
    try:
        ph = ParserHelper.from_string(text, eng.ntype)
    except ZeroDivisionError:
        eng.fail(f"parserhelper-raises:{src}")
    eng.prove(len(ph) == 0, f"parserhelper-no-units:{src}")
    eng.prove(Eq(ph.scale, want), f"parserhelper-scale:{src}")


SPELLINGS = [
    # (canonical, variants) with {x}, {y} symbolic number literals
    ("{x} * meter", ["{x} meter", "{x}*meter", "{x}   meter", "({x}) meter", "{x} (meter)", "meter {x}", "{x} meters"]),
    ("{x} * meter ** 2", ["{x} meter^2", "{x} meter²", "{x} meter squared", "{x} square meter", "{x} sq meter", "{x} meter**2", "{x} * meter * meter"]),
    ("{x} * meter ** 3", ["{x} meter cubed", "{x} cubic meter", "{x} meter³", "{x} meter^3"]),
    ("{x} * meter / second", ["{x} meter per second", "{x} meter/second", "{x} meter second⁻¹", "{x} meter second^-1", "{x} meter * second ** -1", "({x} meter) / second"]),
    ("{x} * meter / second ** 2", ["{x} meter per second squared", "{x} meter/second²", "{x} meter / second / second", "{x} meter second⁻²"]),
    ("{x} * kilogram * meter ** 2 / second ** 2", ["{x} kilogram meter² / second²", "{x} kg m^2 s^-2", "{x} kg·m²·s⁻²", "{x} kilogram square meter per second squared"]),
    ("{x} * {y}", ["{x} {y}", "({x}) ({y})", "{x}*{y}", "{x} ({y})"]),
    ("{x} * meter + {y} * meter", ["{x} meter + {y} meter", "{x} m + {y} m", "({x} + {y}) meter"]),
    ("{x} * meter * {y}", ["{x} meter {y}", "{x} meter * {y}", "{y} {x} meter"]),
    ("{x} / meter", ["{x} per meter", "{x} meter⁻¹", "{x} / (meter)", "{x} meter^-1"]),
    ("{x} * 100 * meter", ["{x}e2 meter" if False else "{x} * 1e2 meter", "{x} hectometer", "{x} * 100 meters"]),
    ("2 * {x} * meter", ["2 {x} meter", "2{x}meter" if False else "2 * {x} meter", "{x} meter * 2"]),
]


def h_spelling(eng, idx):
    ureg = regs.default(eng)
    canon, variants = SPELLINGS[idx]
    x, y = eng.real("x"), eng.real("y")
    eng.assume(x > 0)
    eng.assume(y > 0)

    def render(t):
        return t.format(x=eng.lit(x), y=eng.lit(y))

    ref = ureg.parse_expression(render(canon))
    rroot = ref.to_root_units() if hasattr(ref, "to_root_units") else None
    for v in variants:
        got = ureg.parse_expression(render(v))
        if rroot is None:
            eng.prove(Eq(got if not hasattr(got, "magnitude") else got.to("").magnitude, ref), f"spelling:{v}")
            continue
        groot = got.to_root_units()
        eng.prove(groot.units == rroot.units, f"spelling-units:{v}")
        eng.prove(Eq(groot.magnitude, rroot.magnitude), f"spelling-value:{v}")
        # also through the Quantity constructor and the registry call
        q2 = ureg.Quantity(render(v))
        eng.prove(Eq(q2.to_root_units().magnitude, rroot.magnitude), f"Quantity(str):{v}")


def h_literal_types(eng):
    """numeric literals keep the registry's numeric type; integers stay integers"""
    import decimal

    import pint

    from pint.util import ParserHelper

    # the same strings in registries of different numeric types, in both orders: whatever is
    # memoised for one registry (ParserHelper.from_string) must not leak into another
    for ntype in (float, decimal.Decimal, Fraction, decimal.Decimal, float):
        ureg = regs.default(type("E", (), {"ntype": ntype})) if ntype is Fraction else pint.UnitRegistry(non_int_type=ntype)
        u = ureg.parse_units("meter ** 0.5 / second ** 1.5")
        eng.prove(all(type(e) is ntype for e in u._units.values()), f"fractional-exponent-type:{ntype.__name__}")
        eng.prove(u._units["meter"] == ntype("0.5") and u._units["second"] == ntype("-1.5"), f"fractional-exponent-value:{ntype.__name__}")
        ph = ParserHelper.from_string("2.5 meter ** 0.5", ntype)
        if ntype is Fraction and type(ph.scale) is float:
            # known finding K12: 1 ** Fraction(1, 2) is the float 1.0 in Python, and a unit enters
            # an expression as the number 1 times the unit
            eng.fail("fraction-registry:fractional-power-turns-literals-into-floats", stop=False)
        else:
            eng.prove(type(ph.scale) is ntype, f"parserhelper-scale-type:{ntype.__name__}")
        eng.prove(type(ph["meter"]) is ntype, f"parserhelper-exponent-type:{ntype.__name__}")
        q = ureg.parse_expression("0.1 meter ** 0.5")
        if ntype is Fraction and type(q.magnitude) is float:
            eng.fail("fraction-registry:fractional-power-turns-literals-into-floats", stop=False)
        else:
            eng.prove(type(q.magnitude) is ntype and q.magnitude == ntype("0.1"), f"literal-next-to-fractional-power:{ntype.__name__}")
        u = ureg.parse_units("meter ** 2")
        eng.prove(type(u._units["meter"]) in (int, ntype) and u._units["meter"] == 2, f"integer-exponent:{ntype.__name__}")
        q = ureg.parse_expression("3 meter")
        eng.prove(type(q.magnitude) is (int if ntype is float else ntype), f"integer-literal:{ntype.__name__}")
        # every spelling of an integer literal that the tokenizer accepts (digit groups, leading zeros)
        for lit_, val in (("1_000", 1000), ("10_000_000_000_000_001", 10**16 + 1), ("0", 0), ("1_0", 10)):
            for how, got in (("parse_expression", ureg.parse_expression(f"{lit_} meter").magnitude), ("Quantity", ureg.Quantity(f"{lit_} meter").magnitude), ("bare", ureg.parse_expression(lit_)), ("ParserHelper", ParserHelper.from_string(f"{lit_} meter", ntype).scale)):
                eng.prove(type(got) is (int if ntype is float else ntype) and got == val, f"integer-literal:{lit_}:{how}:{ntype.__name__}")
        q = ureg.parse_expression("2.5 meter")
        eng.prove(type(q.magnitude) is ntype, f"decimal-literal:{ntype.__name__}")
        q = ureg.parse_expression("1e-3 second")
        eng.prove(type(q.magnitude) is ntype, f"exponent-literal:{ntype.__name__}")
        q = ureg.parse_expression("7")
        eng.prove(type(q) is (int if ntype is float else ntype), f"bare-integer:{ntype.__name__}")


# ----------------------------------------------------------------------------- ill-formed input

TOK = ["a", "2", "+", "*", "/", "**", "(", ")", "-"]


def _collapse_plus_minus(tokens):
    """'+ / -' (also written with blanks) is the binary plus-minus operator of the
    uncertainty-aware tokenizer: for well-formedness it is one binary operator"""
    out, i = [], 0
    while i < len(tokens):
        if tokens[i : i + 3] == ["+", "/", "-"]:
            out.append("*")
            i += 3
        else:
            out.append(tokens[i])
            i += 1
    return out


def _well_formed(tokens):
    """reference grammar with implicit multiplication:
    expr := unary (binop? unary)*   ;  unary := ('+'|'-')* atom (('**') unary)? ;  atom := NAME | NUM | '(' expr ')'"""
    pos = 0

    def peek():
        return tokens[pos] if pos < len(tokens) else None

    def atom():
        nonlocal pos
        t = peek()
        if t in ("a", "2"):
            pos += 1
            return True
        if t == "(":
            pos += 1
            if not expr():
                return False
            if peek() != ")":
                return False
            pos += 1
            return True
        return False

    def unary():
        nonlocal pos
        while peek() in ("+", "-"):
            pos += 1
        if not atom():
            return False
        if peek() == "**":
            pos += 1
            return unary()
        return True

    def expr():
        nonlocal pos
        if not unary():
            return False
        while True:
            t = peek()
            if t in ("+", "-", "*", "/"):
                pos += 1
                if not unary():
                    return False
            elif t in ("a", "2", "("):
                if not unary():
                    return False
            else:
                return True

    ok = expr()
    return ok and pos == len(tokens)


def h_uncertain_groups(eng, sign):
    """a parenthesised '(v +/- e)' group is one operand: the text around it evaluates like Python
    arithmetic with the group replaced by the uncertain number (nominal value of either sign)"""
    import contextlib
    import math

    from ..sx.stubs import ufloat_stub

    if eng.symbolic:
        ureg = regs.default(eng)
        v, e = eng.real("v"), eng.real("e")
        lit, num = eng.lit, eng.num
    else:
        ureg = regs.float_default()
        v, e = float(eng.real("v")), float(eng.real("e"))
        lit, num = repr, float
    eng.assume(v > 0)
    eng.assume(e > 0)
    n = v if sign > 0 else -v
    g = f"({lit(v)} +/- {lit(e)})" if sign > 0 else f"(-{lit(v)} +/- {lit(e)})"
    g2 = g.replace("+/-", "±")
    two, three = num(2), num(3)
    # (text, nominal value, standard deviation) -- first-order propagation, exact for these forms
    forms = (
        ("G ** 2", n * n, two * v * e),
        ("G^2", n * n, two * v * e),
        ("G²", n * n, two * v * e),
        ("H ** 2", n * n, two * v * e),
        ("3G", three * n, three * e),
        ("3 G", three * n, three * e),
        ("G 3", three * n, three * e),
        ("3 * G", three * n, three * e),
        ("2 - G", two - n, e),
        ("2 + G", two + n, e),
        ("-G", -n, e),
        ("- G ** 2", -(n * n), two * v * e),
        ("3 G ** 2", three * n * n, three * two * v * e),
        ("G ** 2 * 3", three * n * n, three * two * v * e),
    )
    with ufloat_stub() if eng.symbolic else contextlib.nullcontext():
        for tmpl, nv, sv in forms:
            text = tmpl.replace("G", g).replace("H", g2)
            lab = f"{tmpl}:sign={sign}"
            try:
                q = ureg.parse_expression(text)
            except (IndexError, ValueError, TypeError, AssertionError, DefinitionSyntaxError) as ex:
                eng.fail(f"uncertain-group:{lab}:raises-{type(ex).__name__}", stop=False)
                continue
            mag = q.magnitude if hasattr(q, "magnitude") else q
            eng.prove(hasattr(mag, "nominal_value"), f"uncertain-group:{lab}:uncertain")
            if hasattr(mag, "nominal_value"):
                if eng.symbolic:
                    eng.prove(Eq(mag.nominal_value, nv), f"uncertain-group:{lab}:nominal")
                    eng.prove(Eq(mag.std_dev, sv), f"uncertain-group:{lab}:std")
                else:
                    eng.prove(math.isclose(float(mag.nominal_value), float(nv), rel_tol=1e-9, abs_tol=1e-12), f"uncertain-group:{lab}:nominal")
                    eng.prove(math.isclose(float(mag.std_dev), float(sv), rel_tol=1e-9, abs_tol=1e-12), f"uncertain-group:{lab}:std")


def h_ill_formed(eng, seqs):
    import contextlib

    from ..sx.stubs import ufloat_stub

    ureg = regs.default(eng)
    x = eng.real("x")
    for toks in seqs:
        src = " ".join(toks)
        try:
            # ('+/-' builds an uncertain number: the affine model stands in for ufloat)
            with ufloat_stub() if eng.symbolic else contextlib.nullcontext():
                r = ureg.parse_expression(src, a=x)
        except (DefinitionSyntaxError, ValueError, TypeError, AssertionError, SyntaxError, IndexError, ZeroDivisionError, UndefinedUnitError, AttributeError, DimensionalityError, tokenize.TokenError):
            eng.prove(True, "ill-formed-raises")
            continue
        eng.fail(f"ill-formed-yields-a-value:{src!r}", detail=repr(r))


def h_preprocessors(eng):
    """user preprocessors rewrite the text first, in list order, for expressions and for units"""
    import pint

    x = eng.real("x")
    eng.assume(x > 0)
    ureg = pint.UnitRegistry(non_int_type=eng.ntype, preprocessors=[lambda s: s.replace("EUR", "KM"), lambda s: s.replace("KM", "kilometer")])
    lit = eng.lit(x)
    r = ureg.parse_expression(f"{lit} EUR")
    eng.prove(And(str(r.units) == "kilometer", Eq(r.magnitude, x)), "preprocessors-applied-in-order:expression")
    r = ureg.Quantity(f"{lit} EUR / second")
    eng.prove(And(str(r.units) == "kilometer / second", Eq(r.magnitude, x)), "preprocessors-applied:Quantity")
    eng.prove(str(ureg.parse_units("EUR**2")) == "kilometer ** 2", "preprocessors-applied:parse_units")
    eng.prove(str(ureg.Unit("EUR")) == "kilometer", "preprocessors-applied:Unit")
    ureg.preprocessors.append(lambda s: s.replace("kilometer", "mile"))
    eng.prove(str(ureg.parse_expression(f"{lit} EUR").units) == "mile", "preprocessors-appended-later-apply")
    plain = pint.UnitRegistry(non_int_type=eng.ntype)
    try:
        plain.parse_expression(f"{lit} EUR")
    except pint.UndefinedUnitError:
        eng.prove(True, "preprocessors-are-per-registry")
    else:
        eng.fail("preprocessors-leak-between-registries")


class _Probe:
    """an operand that records being called, indexed or asked for the attribute named in the
    input string (arithmetic on it simply fails)"""

    def __init__(self, log):
        object.__setattr__(self, "_log", log)

    def __call__(self, *a, **k):
        self._log.append("called")
        return 1

    def __getitem__(self, k):
        self._log.append("indexed")
        return 1

    def __getattr__(self, name):
        if name.startswith("zz"):
            object.__getattribute__(self, "_log").append("attribute:" + name)
        raise AttributeError(name)


HOSTILE = [
    "f(2)", "f()", "f ()", "f (2)", "f[0]", "f [0]", "f.zzattr", "f . zzattr", "f.zzattr()", "f.zzattr(2)", "(f)(2)", "((f))()", "2 f()", "f(f(2))",
    "f.zzattr.zzother", "meter.zzattr", "(2).zzattr", "2 .zzattr", "f.zzattr * 2", "2 * f.zzattr", "f(2) meter", "meter f(2)",
    "__import__('os').system('touch {path}')", "open('{path}', 'w')", "exec(\"open('{path}','w')\")", "eval(\"open('{path}','w')\")", "().__class__.__bases__", "[f() for zz in (1,)]",
    "(lambda: f())()", "f(*[1])", "f(**{{}})", "getattr(f, 'zzattr')", "f.__call__(2)", "f.__class__", "type(f)", "f if 1 else 2", "1 if f() else 2", "f and f()", "not f()",
    "f; f()", "f\nf()", "f @ 2", "f |f()", "-f()", "f() ** 2", "2 ** f()", "f(2) +/- 1", "(f() +/- 1) meter", "f'{{f()}}'", "{{f()}}", "`f()`", "f$", "f()²", "f() per meter", "sq f()",
]  # fmt: skip


_CHILD_OPT = r"""
import json, sys
import pint
from fractions import Fraction
out = {}
for rname, reg in (("float", pint.UnitRegistry()), ("fraction", pint.UnitRegistry(non_int_type=Fraction))):
    for text in ["2 +", "2 -", "(2 -) m", "3 *", "4 /", "2 **", "* 3", "2 + (", "m /", "(3 +) / 2", "-", "2 m **", "2 // "]:
        for name, fn in (("parse_expression", reg.parse_expression), ("parse_units", reg.parse_units), ("Quantity", reg.Quantity)):
            try:
                r = fn(text)
                out[f"{rname}:{name}:{text}"] = "value:" + str(r)
            except Exception as ex:
                out[f"{rname}:{name}:{text}"] = "raises:" + type(ex).__name__
print(json.dumps(out, sort_keys=True))
"""


def h_dangling_operators_optimised(eng):
    """a dangling operator never yields a value -- also when Python runs with -O, which strips
    assert statements (child interpreters, with and without -O, must both refuse)"""
    import json
    import os
    import subprocess
    import sys

    for flag in ("", "-O", "-OO"):
        cmd = [sys.executable] + ([flag] if flag else []) + ["-c", _CHILD_OPT]
        r = subprocess.run(cmd, capture_output=True, text=True, env=dict(os.environ, PYTHONPATH="/repo"), cwd="/tmp", timeout=600)
        if r.returncode != 0:
            eng.fail(f"dangling-operator:python{flag or '-default'}:child-failed", stop=False)
            continue
        res = json.loads(r.stdout.strip().splitlines()[-1])
        for key, outcome in sorted(res.items()):
            eng.prove(outcome.startswith("raises:"), f"dangling-operator:python{flag or '-default'}:{key}:{outcome[:40]}")


def h_no_execution(eng):
    """no input string makes the parser call an operand, index it, look up an attribute named in
    the string, or touch the file system: it only does arithmetic and registry look-ups"""
    import os
    import tempfile

    ureg = regs.default(eng)
    from pint.util import ParserHelper

    tmp = tempfile.mkdtemp(prefix="pv_c07_")
    path = os.path.join(tmp, "sentinel")
    try:
        for i, raw in enumerate(HOSTILE):
            text = raw.format(path=path)
            for how in ("parse_expression", "registry-call", "Quantity", "parse_units", "ParserHelper"):
                log = []
                probe = _Probe(log)
                try:
                    if how == "parse_expression":
                        ureg.parse_expression(text, f=probe)
                    elif how == "registry-call":
                        ureg(text, f=probe)
                    elif how == "Quantity":
                        ureg.Quantity(text)
                    elif how == "parse_units":
                        ureg.parse_units(text)
                    else:
                        ParserHelper.from_string(text, eng.ntype)
                except Exception:  # noqa: BLE001 - refusing is fine, whatever the error
                    pass
                eng.prove(not log, f"no-execution:{how}:{i:02d}:{raw[:24]}")
                eng.prove(not os.path.exists(path), f"no-file-system-effect:{how}:{i:02d}")
    finally:
        import shutil

        shutil.rmtree(tmp, ignore_errors=True)


MIN_DISCHARGED = {"H07.a": 3000, "H07.b": 100, "H07.d": 500}


def _skeletons(n_leaves, rnd, limit=None):
    out = []
    leaves = NAMES[:n_leaves]
    signs = ["", "-"]
    for ops in itertools.product(BINOPS, repeat=n_leaves - 1):
        for sg in itertools.product(signs, repeat=n_leaves):
            terms = [s + l for s, l in zip(sg, leaves)]
            # parenthesisations: none, and every contiguous group of >= 2 terms (one group)
            variants = [None]
            for i in range(n_leaves):
                for j in range(i + 2, n_leaves + 1):
                    if (i, j) != (0, n_leaves):
                        variants.append((i, j))
            for grp in variants:
                parts = []
                for k, t in enumerate(terms):
                    s = t
                    if grp and k == grp[0]:
                        s = "(" + s
                    if grp and k == grp[1] - 1:
                        s = s + ")"
                    parts.append(s)
                    if k < n_leaves - 1:
                        parts.append(ops[k])
                src = " ".join(parts)
                out.append(src)
                if grp and grp[0] == 0:
                    out.append("-" + src)
    out = sorted(s for s in set(out) if _exponents_integral(s))
    if limit and len(out) > limit:
        out = rnd.sample(out, limit)
    return out


def cases(tier, seed):
    big = tier == "thorough"
    rnd = random.Random(f"c07:{seed}")
    out = []
    sk = _skeletons(2, rnd) + _skeletons(3, rnd, None if big else 1500) + _skeletons(4, rnd, 6000 if big else 400)
    # juxtaposition is equivalent to '*': replace a '*' whose right operand starts unsigned
    import re

    jux = []
    juxp = []
    juxw = []
    runs = ["  ", "\t", " \t", "\t\t", "   ", "\t "]
    for src in sk:
        for m in re.finditer(r" \* (?=[a-d(])", src):
            jux.append([src[: m.start()] + " " + src[m.end() :], src])
            # any run of blanks and tabs is one juxtaposition
            juxw.append([src[: m.start()] + rnd.choice(runs) + src[m.end() :], src])
        # without any space the string preprocessor inserts no '*': the evaluator's own
        # implicit operator is used, e.g. "a / b(c)"
        for m in re.finditer(r" \* (?=\()", src):
            glued = src[: m.start()] + src[m.end() :]
            # under known finding K7 the glued group binds to the value before it first; when that
            # value is an exponent, pint's reading needs a real power of a symbolic base, which the
            # rational encoding cannot express (likewise a floor division by it, which the solver
            # does not decide): such strings are outside the bounded claim
            if re.search(r"(\*\*|//)\s*-?\s*[a-d]\(", glued):
                continue
            juxp.append([glued, src])
        # a name directly after a closing parenthesis: "(a + b)c" -- the evaluator's implicit
        # operator with a NAME on the right
        for m in re.finditer(r"(?<=\)) \* (?=[a-d])", src):
            jux.append([src[: m.start()] + src[m.end() :], src])
    jux = rnd.sample(jux, min(len(jux), 3000 if big else 500))
    # targeted: a parenthesised group or a unicode exponent in the middle, followed directly by a
    # name, after every binary operator (the implicit product must not capture the left operator)
    for op1 in ("+", "-", "*", "/", "//"):
        for inner in ("b", "-b", "b + c", "b * c", "b / c"):
            jux.append([f"a {op1} ({inner})d", f"a {op1} ({inner}) * d"])
            jux.append([f"a {op1} ({inner})d / c", f"a {op1} ({inner}) * d / c"])
    for sup, n in (("²", 2), ("³", 3), ("⁻¹", -1), ("⁻²", -2)):
        for op1 in ("*", "/", "//", "+", "-"):
            jux.append([f"a {op1} b{sup}d", f"a {op1} b**({n}) * d"])
            jux.append([f"a{sup}d {op1} c", f"a**({n}) * d {op1} c"])
        jux.append([f"a{sup}b", f"a**({n}) * b"])
    juxp = rnd.sample(juxp, min(len(juxp), 1000 if big else 200))
    # runs of blanks: all those that follow a closing parenthesis, and a sample of the others
    after_paren = [j for j in juxw if re.search(r"\)[ \t]{2,}|\)\t", j[0])]
    juxw = rnd.sample(after_paren, min(len(after_paren), 1500 if big else 240)) + rnd.sample(juxw, min(len(juxw), 1500 if big else 160))
    for run in runs:
        for op1 in ("/", "//", "**", "*", "-"):
            juxw.append([f"a {op1} (b){run}(c)", f"a {op1} (b) * (c)"] if op1 != "**" else [f"(a + 1) ** (2){run}(c)", "(a + 1) ** (2) * (c)"])
            juxw.append([f"a {op1} (b){run}c", f"a {op1} (b) * c"] if op1 != "**" else [f"(a + 1) ** (2){run}c", "(a + 1) ** (2) * c"])
    for i in range(0, len(juxw), 40):
        out.append(Case("H07.a-jux", f"blanks:{i:05d}", M, "h_expression", {"exprs": juxw[i : i + 40]}, opts={"max_paths": 4000, "query_timeout_ms": 20000}, validate=2, weight=5.0))
    for i in range(0, len(jux), 40):
        out.append(Case("H07.a-jux", f"{i:05d}:{jux[i][0]}", M, "h_expression", {"exprs": jux[i : i + 40]}, opts={"max_paths": 4000, "query_timeout_ms": 20000}, validate=2, weight=5.0))
    for i in range(0, len(juxp), 40):
        out.append(Case("H07.a-jux-paren", f"{i:05d}:{juxp[i][0]}", M, "h_expression", {"exprs": juxp[i : i + 40]}, opts={"max_paths": 4000, "query_timeout_ms": 20000}, validate=2, weight=5.0))
    for i in range(0, len(sk), 40):
        out.append(Case("H07.a", f"{i:05d}:{sk[i]}", M, "h_expression", {"exprs": sk[i : i + 40]}, opts={"max_paths": 4000, "query_timeout_ms": 20000}, validate=2, weight=5.0))
    nums = [s for s in sk if "//" not in s]
    nums = rnd.sample(nums, min(len(nums), 2000 if big else 300))
    for i in range(0, len(nums), 40):
        out.append(Case("H07.a-ph", f"{i:05d}", M, "h_parserhelper", {"exprs": nums[i : i + 40]}, opts={"max_paths": 4000, "query_timeout_ms": 20000}, validate=2, weight=5.0))
    for idx in range(len(SPELLINGS)):
        out.append(Case("H07.b", f"{idx}:{SPELLINGS[idx][0]}", M, "h_spelling", {"idx": idx}, validate=1))
    out.append(Case("H07.c", "literal-types", M, "h_literal_types", {}, kind="conc"))
    seqs = []
    for n in range(1, (5 if big else 4) + 1):
        for t in itertools.product(TOK, repeat=n):
            if not _well_formed(_collapse_plus_minus(list(t))):
                seqs.append(list(t))
    if big and len(seqs) > 30000:
        seqs = seqs[:8000] + rnd.sample(seqs[8000:], 22000)
    for i in range(0, len(seqs), 400):
        out.append(Case("H07.d", f"{i:06d}", M, "h_ill_formed", {"seqs": seqs[i : i + 400]}, validate=0, weight=3.0))
    out.append(Case("H07.e", "no-execution", M, "h_no_execution", {}, kind="conc"))
    out.append(Case("H07.d", "dangling-operators-under-python-O", M, "h_dangling_operators_optimised", {}, kind="conc"))
    out.append(Case("H07.c", "preprocessors", M, "h_preprocessors", {}, validate=1))
    for sign in (1, -1):
        out.append(Case("H07.a", f"uncertain-groups:sign={sign}", M, "h_uncertain_groups", {"sign": sign}, validate=1))
    out.append(Case("H07.obs", "observed", "pvlib.harness.observed", "h_c07", {}, kind="conc"))
    return out
