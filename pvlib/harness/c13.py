"""C13 -- answers do not depend on query history: caches are transparent.

After every step of a sequence of queries and state changes, a battery of read-only
questions is put to the registry and to a registry *freshly built* from the same
definitions (the late definition included in its text) and brought to the same settings
(active contexts with the same parameters, default system).  Every pair of answers is
proved equal for all symbolic scales / factors / magnitudes."""

from __future__ import annotations

from fractions import Fraction

import itertools
import random

from pint.errors import DimensionalityError, UndefinedUnitError

from .. import regs
from ..ctxmodel import World
from ..runner import Case
from ..sx.q import And, Eq, Not, Or

PROPERTY = "C13"
M = "pvlib.harness.c13"

META = {
    "explanation": "history independence as bounded model checking: every sequence (up to the bound) of cache-populating queries and state changes is run on the real registry; after each step "
    "conversions, parsing, root/base units, compatible units, dimensionality (also of objects kept alive across the change) and unit formatting are proved equal to the answers of a freshly built registry "
    "in the same declarative state, for all symbolic scales, redefinition factors, context parameters and magnitudes.",
    "functions_encoded": [
        "pint/facets/plain/registry.py::RegistryCache, _get_dimensionality, _get_root_units, _get_conversion_factor, _parse_units_as_container, get_name (lazy prefixed units), define",
        "pint/facets/context/registry.py::ContextCacheOverlay, _switch_context_cache_and_units",
        "pint/facets/system/registry.py::_base_units_cache, default_system setter, _get_base_units",
        "pint/facets/plain/unit.py::dimensionality memo; pint/facets/plain/quantity.py::dimensionality memo",
        "pint/util.py::ParserHelper.from_string (lru_cache)",
    ],
    "bounds": {"sequence length": "<= 2 (quick: all pairs; thorough: all triples)", "alphabet": "5 query operations, define, enable c1/c3/c4, disable(1), disable(all), default_system in {sysA, sysB, None}, touch a second registry"},
    "enumerated_axes": [{"axis": "operation sequences", "exhaustive": True}],
    "outside_claim": ["sequences longer than the bound", "the default registry's full unit table (the generated registry has 8 units)", "to_compact (needs the log10 stub; covered in C15)"],
    "assumptions": ["hash_mode=mixed (unbounded symbolic numbers hash to a constant)"],
}

QUERIES = ["q:w->m", "q:base(w)", "q:parse(kkw)", "q:parse(Kw)", "q:compat(m)", "q:dim(w/s)", "q:compact", "q:parse-ci", "q:compat-group", "q:bogus-system"]
CHANGES = ["define", "enable:c1", "enable:c3", "enable:c4", "disable:1", "disable:all", "system:sysA", "system:sysB", "system:None", "other-registry"]


def _text(W, late):
    lines = W.text()
    # a second system whose base length unit is w
    i = lines.index("@defaults")
    lines[i:i] = ["@system sysB using grpA", "    w", "    s", "    g", "@end", "@group grpB", "    ww = 5 * m", "@end"]
    if late:
        lines.insert(6, f"nu = {W.eng.lit(W.sn)} * m")
    return lines


def _apply(ureg, state, W):
    for c in state["stack"]:
        ureg.enable_contexts(c)
    ureg.default_system = state["system"]


def _answers(eng, ureg, x, keep=None):
    """battery of read-only questions -> list of (label, kind, value)"""
    out = []

    def ask(label, fn):
        try:
            v = fn()
        except DimensionalityError:
            v = "DimensionalityError"
        except UndefinedUnitError:
            v = "UndefinedUnitError"
        except (ValueError, KeyError) as ex:
            v = type(ex).__name__
        out.append((label, v))

    Qy = ureg.Quantity
    # asked first, before this battery itself looks any prefixed name up: case-insensitive
    # look-ups of doubly prefixed and case-variant spellings (memoised prefixed names are not names)
    for text in ("kkkkw", "kkkku", "KKW", "Kkw", "kkKw", "KKKW", "kkkkuu", "kkkkws"):
        ask(f"first:parse({text},case_sensitive=False)", lambda text=text: dict(ureg.parse_units(text, case_sensitive=False)._units))
    ask("first:kkkkw-in-registry", lambda: ("kkkkw" in ureg, "kkkku" in ureg))
    ask("w->m", lambda: Qy(x, "w").to("m").magnitude)
    ask("kku->m", lambda: Qy(x, "kku").to("m").magnitude)
    ask("u->w", lambda: Qy(x, "u").to("w").magnitude)
    ask("m->s", lambda: Qy(x, "m").to("s").magnitude)
    ask("m->g", lambda: Qy(x, "m").to("g").magnitude)
    ask("nu->m", lambda: Qy(x, "nu").to("m").magnitude)
    ask("parse(kkw)", lambda: dict(ureg.parse_units("kkw")._units))
    ask("parse(w/s)", lambda: dict(ureg.parse_units("w/s")._units))
    ask("parse(nu)", lambda: dict(ureg.parse_units("nu")._units))
    ask("parse(W)", lambda: dict(ureg.parse_units("W")._units))
    ask("parse(W/S)", lambda: dict(ureg.parse_units("W/S")._units))
    ask("parse(W,case_sensitive=True)", lambda: dict(ureg.parse_units("W", case_sensitive=True)._units))
    ask("parse(W,case_sensitive=False)", lambda: dict(ureg.parse_units("W", case_sensitive=False)._units))
    ask("Quantity(KKW)", lambda: ureg.Quantity(x, "KKW").to("m").magnitude)
    ask("compat(m,root)", lambda: sorted(str(u) for u in ureg.get_compatible_units("m", "root")))
    ask("compat(w,grpA)", lambda: sorted(str(u) for u in ureg.get_compatible_units("w", "grpA")))
    ask("compat(w,grpB)", lambda: sorted(str(u) for u in ureg.get_compatible_units("w", "grpB")))
    ask("compat(m,root)-again", lambda: sorted(str(u) for u in ureg.get_compatible_units("m", "root")))
    ask("Unit(m).compatible_units()", lambda: sorted(str(u) for u in ureg.Unit("m").compatible_units()))
    ask("parse(Kw)", lambda: dict(ureg.parse_units("Kw")._units))
    ask("parse(Kws)", lambda: dict(ureg.parse_units("Kws")._units))
    ask("parse(kkKw)", lambda: dict(ureg.parse_units("kkKw")._units))
    ask("parse(KU_s)", lambda: dict(ureg.parse_units("KU_s")._units))
    ask("name+symbol(KU_)", lambda: (ureg.get_name("KU_"), ureg.get_symbol("KU_"), ureg.get_name("uus")))
    ask("KU_->m", lambda: Qy(x, "KU_").to("m").magnitude)
    ask("nu-in-registry", lambda: "nu" in ureg)
    ask("root(w)", lambda: ureg.get_root_units("w"))
    ask("base(w)", lambda: ureg.get_base_units("w"))
    ask("base(kku)", lambda: ureg.get_base_units("kku"))
    ask("base(m/s)", lambda: ureg.get_base_units("m/s"))
    ask("to_base(w)", lambda: (lambda r: (r.magnitude, r.units))(Qy(x, "w").to_base_units()))
    ask("compat(m)", lambda: sorted(str(u) for u in ureg.get_compatible_units("m")))
    ask("compat(s)", lambda: sorted(str(u) for u in ureg.get_compatible_units("s")))
    ask("dim(w/s)", lambda: dict(ureg.get_dimensionality("w/s")))
    ask("format(w/s)", lambda: f"{ureg.Unit('w/s'):~P}|{ureg.Unit('kku'):D}")
    ask("compatible(m,s)", lambda: Qy(x, "m").is_compatible_with("s"))
    # to_compact (concrete magnitude: the prefix choice needs a number), registers prefixed units
    ask("compact(1500 w)", lambda: (lambda r: (r.magnitude, str(r.units)))(Qy(eng.num(1500), "w").to_compact()))
    ask("compact(3/2000 m/s)", lambda: (lambda r: (r.magnitude, str(r.units)))(Qy(eng.num(Fraction(3, 2000)), "m/s").to_compact()))
    ask("reduced(w*m/u)", lambda: (lambda r: (r.magnitude, str(r.units)))(Qy(x, "w*m/u").to_reduced_units()))
    ask("system-names", lambda: sorted(n for n in dir(ureg.sys)))
    ask("compat(w,nosuchsystem)", lambda: sorted(str(u) for u in ureg.get_compatible_units("w", "nosuchsystem")))
    # a conversion through a context gives an object of the new dimension, whatever its source
    # had been asked before
    def through_context():
        src = Qy(x, "m")
        src.dimensionality, src.check("[length]")
        r = src.to("s", "c2")
        return (dict(r.dimensionality), r.check("[time]"), r.is_compatible_with("m"))

    ask("to-through-context:dimensionality-of-the-result", through_context)
    if keep is not None:
        ask("kept.to(m)", lambda: keep["q"].to("m").magnitude)
        ask("kept.dimensionality", lambda: dict(keep["q"].dimensionality))
        ask("kept.to_base", lambda: (lambda r: (r.magnitude, str(r.units)))(keep["q"].to_base_units()))
        ask("kept-unit.dimensionality", lambda: dict(keep["u"].dimensionality))
    else:
        ask("kept.to(m)", lambda: Qy(x, "w").to("m").magnitude)
        ask("kept.dimensionality", lambda: dict(Qy(x, "w").dimensionality))
        ask("kept.to_base", lambda: (lambda r: (r.magnitude, str(r.units)))(Qy(x, "w").to_base_units()))
        ask("kept-unit.dimensionality", lambda: dict(ureg.Unit("w/s").dimensionality))
    return out


def _same(eng, a, b, label):
    """structural equality with numbers compared by the solver"""
    if isinstance(a, str) or isinstance(b, str) or a is None or b is None or isinstance(a, bool):
        eng.prove(a == b, label)
        return
    if isinstance(a, (list, tuple)):
        eng.prove(isinstance(b, (list, tuple)) and len(a) == len(b), label + ":shape")
        if isinstance(b, (list, tuple)) and len(a) == len(b):
            for i, (p, q) in enumerate(zip(a, b)):
                _same(eng, p, q, f"{label}[{i}]")
        return
    if isinstance(a, dict):
        eng.prove(isinstance(b, dict) and set(a) == set(b), label + ":keys")
        if isinstance(b, dict) and set(a) == set(b):
            for k in a:
                _same(eng, a[k], b[k], f"{label}[{k}]")
        return
    if hasattr(a, "_units") and hasattr(b, "_units"):
        _same(eng, dict(a._units), dict(b._units), label + ":units")
        return
    eng.prove(Eq(a, b), label)


def h_sequence(eng, ops, quiet=False):
    W = World(eng)
    ureg = regs.build(eng, _text(W, late=False))
    x = eng.real("x")
    state = {"late": False, "stack": [], "system": "sysA", "lost": False}
    keep = {"q": ureg.Quantity(x, "w"), "u": ureg.Unit("w/s")}
    keep["q"].dimensionality  # populate the per-object memo
    keep["u"].dimensionality
    other = None
    for i, op in enumerate(ops):
        if op == "q:w->m":
            ureg.Quantity(x, "w").to("m")
        elif op == "q:base(w)":
            ureg.get_base_units("w")
            ureg.Quantity(x, "kku").to_base_units()
        elif op == "q:parse(kkw)":
            ureg.parse_units("kkw")
            ureg.Quantity(x, "kku")
        elif op == "q:parse(Kw)":
            # prefixed units reached through other spellings (prefix symbol, unit symbol, alias, plural)
            ureg.parse_units("Kw")
            ureg.Quantity(x, "KU_").to("m")
            ureg.get_name("kkuus")
        elif op == "q:parse-ci":
            # one-off case-insensitive look-ups of spellings that do not exist case-sensitively
            for text in ("W", "W/S", "KKW", "Uu"):
                try:
                    ureg.parse_units(text, case_sensitive=False)
                except UndefinedUnitError:
                    pass
        elif op == "q:bogus-system":
            # read-only questions that name something that is not a system (a group, a typo)
            for bogus in ("grpA", "nosuchsystem"):
                try:
                    ureg.get_base_units("w", system=bogus)
                except (ValueError, KeyError):
                    pass
        elif op == "q:compat-group":
            for grp in ("root", "grpA", "grpB"):
                ureg.get_compatible_units("m", grp)
                ureg.get_compatible_units("w", grp)
        elif op == "q:compact":
            ureg.Quantity(eng.num(1500), "w").to_compact()
            ureg.Quantity(eng.num(Fraction(1, 2000)), "u").to_compact()
            ureg.Quantity(x, "w*m/u").to_reduced_units()
            format(ureg.Quantity(x, "kkw"), "~P")
        elif op == "q:compat(m)":
            ureg.get_compatible_units("m")
        elif op == "q:dim(w/s)":
            ureg.get_dimensionality("w/s")
            try:
                ureg.Quantity(x, "m").to("s")
            except DimensionalityError:
                pass
        elif op == "define":
            if state["late"]:
                continue
            under = any(c in ("c3", "c4") for c in state["stack"])
            ureg.define(f"nu = {eng.lit(W.sn)} * m")
            state["late"] = True
            state["under_overlay"] = under
            state["stack_at_define"] = list(state["stack"])
        elif op.startswith("enable:"):
            c = op.split(":")[1]
            ureg.enable_contexts(c)
            state["stack"].append(c)
        elif op == "disable:1":
            ureg.disable_contexts(1)
            del state["stack"][-1:]
        elif op == "disable:all":
            ureg.disable_contexts()
            state["stack"] = []
        elif op.startswith("system:"):
            name = op.split(":")[1]
            state["system"] = None if name == "None" else name
            ureg.default_system = state["system"]
        elif op == "other-registry":
            other = regs.build(eng, _text(W, late=False))
            other.define(f"nu = {eng.lit(W.sn * 2)} * m")
            other.enable_contexts("c4")
            other.default_system = "sysB"
            other.Quantity(x, "kkw").to_base_units()
        if quiet and i < len(ops) - 1:
            # quiet runs ask nothing until the end: what is memoised depends on the operations alone
            continue
        # the oracle: a fresh registry with the same definitions, in the same state
        fresh = regs.build(eng, _text(W, late=state["late"]))
        _apply(fresh, state, W)
        got = _answers(eng, ureg, x, keep)
        want = _answers(eng, fresh, x, None)
        tag = f"step{i}:{op}"
        for (la, a), (lb, b) in zip(got, want):
            if state["late"] and state.get("under_overlay") and state["stack"] != state["stack_at_define"] and (a == "UndefinedUnitError" or (la == "nu-in-registry" and a is False)) and b != a:
                # known defect K2, reported under its own label; the other answers are still compared
                if not state.get("k2_reported"):
                    eng.fail(f"{tag}:{la}:unit-defined-under-context-overlay-is-lost", stop=False)
                    state["k2_reported"] = True
                continue
            if (la.startswith("compat(") or la.startswith("Unit(m).compatible")) and state["late"] and isinstance(a, list) and isinstance(b, list) and "nu" in b and "nu" not in a:
                # known defect K4; compare the rest of the listing
                if not state.get("k4_reported"):
                    eng.fail(f"{tag}:{la}:late-definition-missing-from-compatible-units", stop=False)
                    state["k4_reported"] = True
                b = [n for n in b if n != "nu"]
            _same(eng, a, b, f"{tag}:{la}")


def h_redefinition_history(eng, pre):
    """a unit redefined through define() (on_redefinition='ignore'/'warn' registries): afterwards
    every question is answered from the new definition, as by a registry built from the text with
    the second definition in it -- whatever had been asked, and so memoised, before"""
    W = World(eng)
    su2, x = eng.real("su2"), eng.real("x")
    eng.assume(su2 > 0)
    eng.assume(Not(Eq(su2, W.su)))
    lines = _text(W, late=False)
    line = f"u = {eng.lit(su2)} * m = U_ = uu"
    if pre == "context-redefinition-used-before":
        # a context whose own redefinition refers to the unit that is redefined later
        j = lines.index("@defaults")
        lines[j:j] = ["@context cr", "    w = 7 * u", "@end"]
    used = regs.build(eng, lines, on_redefinition="ignore")
    Qy = used.Quantity
    if pre == "context-redefinition-used-before":
        for _ in range(2):
            with used.context("cr"):
                Qy(x, "w").to("m")
                used.get_root_units("kkw")
        used.enable_contexts("cr")
        Qy(x, "w").to("u")
        used.disable_contexts()
    if pre in ("conversions", "all"):
        Qy(x, "u").to("m")
        Qy(x, "w").to("m")
        Qy(x, "kku").to("w")
    if pre in ("roots", "all"):
        used.get_root_units("u")
        used.get_root_units("w")
        Qy(x, "w").to_base_units()
        used.get_base_units("kku")
    if pre in ("names", "all"):
        used.parse_units("kkw")
        used.get_name("uus")
        used.get_compatible_units("w")
    if pre == "via-load_definitions":
        Qy(x, "u").to("m")
        used.get_root_units("w")
        used.load_definitions([line])
    else:
        used.define(line)
    i = lines.index("@defaults")
    fresh = regs.build(eng, lines[:i] + [line] + lines[i:], on_redefinition="ignore")
    for (la, a), (_lb, b) in zip(_answers(eng, used, x, None), _answers(eng, fresh, x, None)):
        _same(eng, a, b, f"redefinition:pre={pre}:{la}")
    eng.prove(Eq(used.Quantity(x, "w").to("m").magnitude, 3 * su2 * x), f"redefinition:pre={pre}:dependent-unit-follows")
    if pre == "context-redefinition-used-before":
        for form in ("with-block", "enable", "per-call"):
            if form == "with-block":
                with used.context("cr"):
                    got = (Qy(x, "w").to("m").magnitude, used.get_root_units("kkw")[0], Qy(x, "u").to("m").magnitude)
            elif form == "enable":
                used.enable_contexts("cr")
                got = (Qy(x, "w").to("m").magnitude, used.get_root_units("kkw")[0], Qy(x, "u").to("m").magnitude)
                used.disable_contexts()
            else:
                got = (Qy(x, "w").to("m", "cr").magnitude, 7000 * su2, x * su2)
            eng.prove(Eq(got[0], 7 * su2 * x), f"redefinition:pre={pre}:{form}:context-redefinition-follows-the-new-definition")
            eng.prove(Eq(got[1], 7000 * su2), f"redefinition:pre={pre}:{form}:root-factor-inside-the-context")
            eng.prove(Eq(got[2], x * su2), f"redefinition:pre={pre}:{form}:redefined-unit-inside-the-context")
        eng.prove(Eq(used.Quantity(x, "w").to("m").magnitude, 3 * su2 * x), f"redefinition:pre={pre}:outside-the-context-afterwards")
    eng.prove(Eq(used.get_root_units("w")[0], 3 * su2), f"redefinition:pre={pre}:get_root_units-follows")


def h_result_of_context_conversion(eng, asked):
    """the result of a conversion through a context is an object of the new dimension -- its own
    answers do not depend on what its source had been asked before the conversion"""
    W = World(eng)
    ureg = regs.build(eng, _text(W, late=False))
    x = eng.real("x")
    src = ureg.Quantity(x, "m")
    if asked in ("dimensionality", "all"):
        src.dimensionality
    if asked in ("check", "all"):
        src.check("[length]"), src.is_compatible_with("w")
    for form in ("per-call", "with-block", "ito"):
        if form == "per-call":
            r = src.to("s", "c2")
        elif form == "with-block":
            with ureg.context("c2"):
                r = src.to("s")
        else:
            r = ureg.Quantity(x, "m")
            r.dimensionality
            r.ito("s", "c2")
        eng.prove({k: int(v) for k, v in r.dimensionality.items()} == {"[time]": 1}, f"context-conversion:{asked}:{form}:dimensionality-of-the-result")
        eng.prove(r.check("[time]") and not r.check("[length]"), f"context-conversion:{asked}:{form}:check")
        eng.prove(r.is_compatible_with("s") and not r.is_compatible_with("m"), f"context-conversion:{asked}:{form}:is_compatible_with")
        eng.prove(Eq(r.magnitude, x * W.k2), f"context-conversion:{asked}:{form}:value")
    eng.prove({k: int(v) for k, v in src.dimensionality.items()} == {"[length]": 1}, f"context-conversion:{asked}:source-keeps-its-own")


def h_define_parsed_name(eng, pre):
    """a string that parsed as prefix + unit (or plural) before is then defined as a unit of its
    own: from then on the exact name wins, as in a registry that had the definition from the start"""
    W = World(eng)
    s7, x = eng.real("s7"), eng.real("x")
    eng.assume(s7 > 0)
    lines = _text(W, late=False)
    used = regs.build(eng, lines, on_redefinition="ignore")
    alias = pre.startswith("alias")
    name = {"prefixed": "kku", "plural": "uus", "prefixed-symbol": "KU_"}[pre.split(":")[-1]]
    used.parse_units(name)
    used.Quantity(x, name).to_root_units()
    used.get_name(name)
    # ... as a unit of its own, or as one more spelling of an existing unit
    line = f"@alias w = {name}" if alias else f"{name} = {eng.lit(s7)} * s"
    if pre.startswith("alias-load"):
        used.load_definitions([line])
    else:
        used.define(line)
    i = lines.index("@defaults")
    fresh = regs.build(eng, lines[:i] + [line] + lines[i:], on_redefinition="ignore")
    for label, fn in (("parse_units", lambda r: dict(r.parse_units(name)._units)), ("to_root_units", lambda r: (lambda q: (q.magnitude, dict(q._units)))(r.Quantity(x, name).to_root_units())), ("get_name", lambda r: r.get_name(name)),
                      ("dimensionality", lambda r: dict(r.get_dimensionality(name))), ("convert", lambda r: r.Quantity(x, name).to("s").magnitude)):
        try:
            a = fn(used)
        except (DimensionalityError, UndefinedUnitError) as ex:
            a = type(ex).__name__
        try:
            b = fn(fresh)
        except (DimensionalityError, UndefinedUnitError) as ex:
            b = type(ex).__name__
        _same(eng, a, b, f"define-parsed-name:{pre}:{label}")
    if alias:
        eng.prove(used.get_name(name) == "w" and dict(used.parse_units(name)._units) == {"w": 1}, f"define-parsed-name:{pre}:reads-as-the-aliased-unit")
        eng.prove(Eq(used.Quantity(x, name).to("u").magnitude, 3 * x), f"define-parsed-name:{pre}:value")
        return
    eng.prove(Eq(used.Quantity(x, name).to("s").magnitude, x * s7), f"define-parsed-name:{pre}:value")


def h_programmatic_context_history(eng, first, endpoints):
    """a Context object built in code (endpoints written as derived dimension names): what a plain
    activation answers does not depend on how the context was activated the first time"""
    from pint import Context

    k, n0, nv, x = eng.real("k"), eng.real("n0"), eng.real("nv"), eng.real("x")
    for v in (k, n0, nv):
        eng.assume(v > 0)
    eng.assume(Not(Eq(n0, nv)))
    lines = ["m = [length]", "s = [time]", "g = [mass]", "[frequency] = 1 / [time]", "[speed] = [length] / [time]", "hz = 1 / s", "kn = m / s",
             "@context(q=2) outer", "    [mass] -> [time]: value * q * s / g", "@end", "@context vac", "    [length] -> [frequency]: value * 5 * hz / m", "    [speed] -> [frequency]: value * 5 * hz / kn", "@end"]  # fmt: skip
    src_spec, src_unit = {"derived": ("[length]", "m"), "derived-both": ("[speed]", "kn")}[endpoints]

    def build():
        reg = regs.build(eng, lines)
        c = Context("p", defaults={"n": n0})

        def fwd(ureg_, value, n=None, **kw):
            return value * k * n * ureg_.Quantity(1, "hz") / ureg_.Quantity(1, src_unit)

        c.add_transformation(src_spec, "[frequency]", fwd)
        reg.add_context(c)
        return reg

    def battery(reg):
        out = []
        q = reg.Quantity(x, src_unit)

        def ask(label, fn):
            try:
                out.append((label, fn()))
            except DimensionalityError:
                out.append((label, "DimensionalityError"))
            except KeyError:
                out.append((label, "KeyError"))

        ask("to(hz,'p')", lambda: q.to("hz", "p").magnitude)
        ask("with p", lambda: _with(reg, ("p",), lambda: q.to("hz").magnitude))
        ask("with vac,p (p overrides)", lambda: _with(reg, ("vac", "p"), lambda: q.to("hz").magnitude))
        ask("with p: compatible", lambda: _with(reg, ("p",), lambda: q.is_compatible_with("hz")))
        ask("with p: compatible units", lambda: _with(reg, ("p",), lambda: sorted(str(u_) for u_ in reg.get_compatible_units(src_unit))))
        ask("to(hz,'p',n=nv)", lambda: q.to("hz", "p", n=nv).magnitude)
        return out

    def _with(reg, names, fn):
        with reg.context(*names):
            return fn()

    used = build()
    uq = used.Quantity(x, src_unit)
    if first == "per-call-kw":
        uq.to("hz", "p", n=nv)
    elif first == "with-kw":
        with used.context("p", n=nv):
            uq.to("hz")
    elif first == "enable-kw":
        used.enable_contexts("p", n=nv)
        used.disable_contexts()
    elif first == "nested-inherits":
        with used.context("outer"):
            with used.context("p"):
                uq.to("hz")
    elif first == "plain":
        with used.context("p"):
            uq.to("hz")
    got, want = battery(used), battery(build())
    for (la, a), (_lb, b) in zip(got, want):
        _same(eng, a, b, f"programmatic-context:{first}:{la}")
    eng.prove(Eq(got[0][1], x * k * n0) if not isinstance(got[0][1], str) else False, f"programmatic-context:{first}:value")


def h_float_history(eng, pairs):
    """float registry: what a conversion answers is bit-for-bit (and type-for-type) what a fresh
    registry answers, whatever was converted before -- the opposite direction of the same pair,
    other pairs of the same dimension, context activations in between"""

    def answers(reg, u, v):
        out = []

        def one(fn):
            try:
                r = fn()
            except Exception as ex:  # noqa: BLE001 - the kind of failure is part of the answer
                return ("raised", type(ex).__name__)
            return (type(r).__name__, repr(r))

        for val in (2, 2.0, 3.7):
            out.append(one(lambda: reg.Quantity(val, u).to(v).magnitude))
        out.append(one(lambda: reg.convert(1.5, u, v)))

        def inplace():
            f = reg.Quantity(5, u)
            f.ito(v)
            return f.magnitude

        out.append(one(inplace))
        return out

    for u, v in pairs:
        fresh = answers(regs.float_default(), u, v)
        for hist in ("opposite-first", "opposite-in-context", "via-root", "opposite-registry-level", "decimal-magnitudes-first", "fraction-magnitudes-first"):
            reg = regs.float_default()
            if hist == "opposite-first":
                reg.Quantity(1.0, v).to(u)
            elif hist == "opposite-in-context":
                with reg.context("sp"):
                    reg.Quantity(1.0, v).to(u)
                reg.Quantity(1.0, v).to(u)
            elif hist in ("decimal-magnitudes-first", "fraction-magnitudes-first"):
                # magnitudes of another numeric type went through the same pair before
                import decimal

                mk = decimal.Decimal if hist.startswith("decimal") else Fraction
                for val in ("1.5", "0.25"):
                    try:
                        reg.Quantity(mk(val), u).to(v)
                        reg.Quantity(mk(val), v).to(u)
                    except Exception:  # noqa: BLE001
                        pass
            elif hist == "via-root":
                reg.Quantity(1.0, v).to_root_units()
                reg.Quantity(1.0, u).to_base_units()
                reg.get_root_units(v)
            else:
                reg.convert(1, v, u)
                reg.Unit(v).from_(reg.Quantity(1, u))
            eng.prove(answers(reg, u, v) == fresh, f"float-history:{hist}:{u}->{v}")


MIN_DISCHARGED = {"H13": 20000}


def cases(tier, seed):
    big = tier == "thorough"
    rnd = random.Random(f"c13:{seed}")
    alpha = QUERIES + CHANGES
    seqs = [[a] for a in alpha] + [list(s) for s in itertools.product(alpha, repeat=2)]
    triples = [list(s) for s in itertools.product(alpha, repeat=3)]
    seqs += triples if big else rnd.sample(triples, 250)
    out = []
    qs = [list(s) for s in rnd.sample(triples, 600 if big else 80)] + [list(s) for s in itertools.product(alpha, repeat=2)]
    qs += [["enable:c3", "disable:1", "enable:c3", "disable:1"], ["enable:c4", "q:base(w)", "disable:all", "enable:c4", "disable:1"], ["system:sysB", "q:base(w)", "system:sysA"], ["enable:c3", "define", "disable:1", "enable:c3"]]
    for s in qs:
        out.append(Case("H13", "quiet:" + ";".join(s), M, "h_sequence", {"ops": s, "quiet": True}, opts={"hash_mode": "mixed", "max_paths": 300}, validate=0, weight=float(len(s))))
    from .. import covers

    fp = covers.same_dim_pairs(seed, 400 if big else 60) + [("minute", "second"), ("week", "day"), ("pound", "kilogram"), ("second", "minute"), ("inch", "yard"), ("hour", "millisecond")]
    for pre in ("nothing", "conversions", "roots", "names", "all", "via-load_definitions", "context-redefinition-used-before"):
        out.append(Case("H13", f"redefinition:pre={pre}", M, "h_redefinition_history", {"pre": pre}, opts={"hash_mode": "mixed", "max_paths": 300}, validate=1))
    for asked in ("nothing", "dimensionality", "check", "all"):
        out.append(Case("H13", f"context-conversion:{asked}", M, "h_result_of_context_conversion", {"asked": asked}, opts={"hash_mode": "mixed", "max_paths": 300}, validate=1))
    for pre in ("prefixed", "plural", "prefixed-symbol", "alias:prefixed", "alias:plural", "alias-load:prefixed"):
        out.append(Case("H13", f"define-parsed-name:{pre}", M, "h_define_parsed_name", {"pre": pre}, opts={"hash_mode": "mixed", "max_paths": 300}, validate=1))
    for first in ("per-call-kw", "with-kw", "enable-kw", "nested-inherits", "plain"):
        for ep in ("derived", "derived-both"):
            out.append(Case("H13", f"programmatic-context:{first}:{ep}", M, "h_programmatic_context_history", {"first": first, "endpoints": ep}, opts={"hash_mode": "mixed", "max_paths": 300}, validate=1))
    for i in range(0, len(fp), 12):
        out.append(Case("H13.float", f"history:{i:04d}", M, "h_float_history", {"pairs": fp[i : i + 12]}, kind="conc"))
    for i, s in enumerate(seqs):
        out.append(Case("H13", ";".join(s), M, "h_sequence", {"ops": s}, opts={"hash_mode": "mixed", "max_paths": 300}, validate=1 if i % 8 == 0 else 0, weight=float(len(s))))
    out.append(Case("H13.obs", "observed", "pvlib.harness.observed", "h_c13", {}, kind="conc"))
    return out
