"""C02 -- conversion factors equal the exact ratio implied by the written definitions."""

from __future__ import annotations

import random
from fractions import Fraction

import pint
import pint.util
from pint.errors import DimensionalityError, OffsetUnitCalculusError

from .. import covers, regs
from ..ref import refdefs
from ..runner import Case
from ..sx.q import And, Eq, Not, Or

PROPERTY = "C02"
M = "pvlib.harness.c02"

META = {
    "explanation": "the registry's conversion machinery (_get_root_units[_recurse], _get_conversion_factor, _convert, get_name's on-the-fly "
    "prefixed units, ScaleConverter/PrefixDefinition) run with a symbolic magnitude: the returned magnitude is proved equal to x times the "
    "exact factor computed by an independent reader (REF) of default_en.txt/constants_en.txt, for every x; generated registries "
    "have symbolic scales and prefix values as well (all numeric literals of the definition text are placeholders).",
    "functions_encoded": [
        "pint/facets/plain/registry.py::_get_root_units, _get_root_units_recurse, _get_conversion_factor, _convert, convert, get_name, get_root_units, parse_unit_name",
        "pint/facets/plain/quantity.py::to, ito, m_as, to_root_units",
        "pint/facets/plain/definitions.py::ScaleConverter, PrefixDefinition, UnitDefinition",
        "pint/util.py::ParserHelper.from_string, eval_token; UnitsContainer arithmetic",
        "pint/delegates/txt_defparser (generated registries)",
    ],
    "bounds": {
        "magnitudes": "all rationals (symbolic)",
        "H02.a": "every unit spelling known to REF (names, symbols, aliases) of the bundled files",
        "H02.b": "72 prefix spellings x seeded unit spellings (thorough: all multiplicative canonical units) x plural s",
        "H02.c": "seeded same-dimension ordered pairs (thorough: all ~8000), with round trip and a third unit for path independence",
        "H02.d": "chain templates of depth <= 4, reference exponents in [-2,2], all scales and the prefix value symbolic and non-zero",
    },
    "enumerated_axes": [{"axis": "unit spellings", "exhaustive": True}, {"axis": "prefix x unit", "exhaustive": False}, {"axis": "unit pairs", "exhaustive": False}, {"axis": "chain templates", "exhaustive": False}],
    "outside_claim": ["float 'few ulp' clause", "Decimal registries", "units whose factor involves a non-integer power (float arithmetic): only their root units are compared; they are counted in evidence as inexact"],
}


def _expect_root(eng, info, x):
    return info.num * x + info.off


def h_root_batch(eng, names):
    """Q(x, n).to_root_units() == x * F(n) in REF's root units, for every spelling n"""
    ureg = regs.default(eng)
    d = refdefs.default()
    inf = covers.infos()
    for i, n in enumerate(names):
        canon = d.spellings.get(n, n)
        info = inf[canon]
        x = eng.real(f"x{i}")
        q = ureg.Quantity(x, n)
        r = q.to_root_units()
        got_units = {k: Fraction(v if not hasattr(v, "c") else v.c) for k, v in r._units.items()}
        eng.prove(got_units == dict(info.roots), f"root-units:{n}")
        eng.prove(type(r.magnitude) is eng.ntype or isinstance(r.magnitude, (int, float)), f"numeric-type:{n}")
        if not info.inexact and info.kind != "log":
            eng.prove(Eq(r.magnitude, _expect_root(eng, info, x)), f"root-factor:{n}")
            if info.kind in ("base", "mult", "dimensionless", "delta"):
                f, u = ureg.get_root_units(n)
                eng.prove(Eq(f, info.num), f"get_root_units:{n}")


def _readings(d, s):
    """all (prefix, unit) readings of s under the documented rule; None if a defined spelling"""
    if s in d.spellings:
        return None
    out = set()
    for suffix in ("", "s"):
        if suffix and not s.endswith("s"):
            continue
        stem = s[:-1] if suffix else s
        for p, (pname, pv, _) in d.prefixes.items():
            if stem.startswith(p):
                u = stem[len(p) :]
                if suffix and len(u) == 1:
                    continue
                if u in d.spellings:
                    out.add((pname, d.spellings[u]))
        if suffix and len(stem) > 1 and stem in d.spellings:
            out.add(("", d.spellings[stem]))
    return out


def h_prefix_batch(eng, items):
    """Q(x, prefix+unit[+s]) has root magnitude x * P * F(unit): the prefix is applied once"""
    ureg = regs.default(eng)
    d = refdefs.default()
    inf = covers.infos()
    for i, (p, u, s) in enumerate(items):
        text = p + u + s
        pname, pval, _ = d.prefixes[p]
        info = inf[d.spellings[u]]
        x = eng.real(f"x{i}")
        q = ureg.Quantity(x, text)
        r = q.to_root_units()
        eng.prove(Eq(r.magnitude, x * pval * info.num), f"prefix-factor:{text}")
        got_units = {k: Fraction(v if not hasattr(v, "c") else v.c) for k, v in r._units.items()}
        eng.prove(got_units == dict(info.roots), f"prefix-root-units:{text}")
        # second use: the prefixed unit is now registered in the unit table
        r2 = ureg.Quantity(x, text).to_root_units()
        eng.prove(Eq(r2.magnitude, r.magnitude), f"prefix-second-use:{text}")
        # the registry-level factor API (answers from the registry's own tables)
        f, ru = ureg.get_root_units(text)
        eng.prove(Eq(f, pval * info.num), f"prefix-get_root_units:{text}")
        fb, bu = ureg.get_base_units(text)
        eng.prove(Eq(ureg.Quantity(fb, bu).to_root_units().magnitude, pval * info.num), f"prefix-get_base_units:{text}")


def h_prefix_case_insensitive(eng, mode):
    """case-insensitive lookup folds the case of the *unit* name only: prefix symbols that differ
    by case alone (M/m, P/p, Z/z, Y/y, R/r, Q/q) keep their own values"""
    d = refdefs.default()
    ureg = regs.default(eng, case_sensitive=False) if mode == "registry-option" else regs.default(eng)
    kw = {} if mode == "registry-option" else {"case_sensitive": False}
    x = eng.real("x")
    twins = [p for p in d.prefixes if len(p) == 1 and p.swapcase() in d.prefixes and p != p.swapcase()]
    for p in sorted(twins):
        pval = d.prefixes[p][1]
        for usp, canon in (("W", "watt"), ("Hz", "hertz"), ("J", "joule"), ("watt", "watt"), ("WATT", "watt"), ("hz", "hertz"), ("Joule", "joule"), ("N", "newton"), ("newtons", "newton")):
            text = p + usp
            if text in d.spellings or text.lower() in {s_.lower() for s_ in d.spellings}:
                continue  # some defined name matches when case is ignored: C08's subject
            try:
                units = ureg.parse_units(text, **kw)
            except Exception as ex:  # noqa: BLE001
                eng.fail(f"ci-prefix:{mode}:{text}:raises-{type(ex).__name__}", stop=False)
                continue
            r = ureg.Quantity(x, units).to(canon)
            eng.prove(Eq(r.magnitude, x * pval), f"ci-prefix:{mode}:{text}:factor")
            if mode == "registry-option":
                eng.prove(Eq(ureg.Quantity(x, text).to(canon).magnitude, x * pval), f"ci-prefix:{mode}:{text}:Quantity")
                eng.prove(Eq(ureg.convert(x, text, canon), x * pval), f"ci-prefix:{mode}:{text}:convert")


def h_pair(eng, u, v, w):
    ureg = regs.default(eng)
    inf = covers.infos()
    iu, iv, iw = inf[u], inf[v], inf[w]
    x = eng.real("x")
    q = ureg.Quantity(x, u)
    r = q.to(v)
    eng.prove(Eq(r.magnitude, x * iu.num / iv.num), "pair-factor")
    eng.prove(type(r.magnitude) is eng.ntype, "pair-numeric-type")
    back = r.to(u)
    eng.prove(Eq(back.magnitude, x), "pair-round-trip")
    # swapped cache key: v -> u asked directly
    y = eng.real("y")
    r2 = ureg.Quantity(y, v).to(u)
    eng.prove(Eq(r2.magnitude, y * iv.num / iu.num), "pair-swapped")
    # identity
    eng.prove(Eq(q.to(u).magnitude, x), "pair-identity")
    # path independence through a third unit
    via = q.to(w).to(v)
    eng.prove(Eq(via.magnitude, r.magnitude), "pair-path-independent")
    eng.prove(Eq(ureg.convert(x, u, v), r.magnitude), "registry-convert")
    eng.prove(Eq(q.m_as(v), r.magnitude), "m_as")
    q2 = ureg.Quantity(x, u)
    q2.ito(v)
    eng.prove(And(Eq(q2.magnitude, r.magnitude), q2.units == r.units), "ito")
    eng.prove(Eq(q.magnitude, x), "source-untouched")
    # every way of writing the target and of building the source means the same
    want = r.magnitude
    targets = {"Unit": ureg.Unit(v), "UnitsContainer": ureg.UnitsContainer({v: 1}), "Quantity": ureg.Quantity(7, v), "dict": {v: 1}, "expression": f"{v}**2/{v}"}
    for tn, tv in targets.items():
        eng.prove(Eq(q.to(tv).magnitude, want), f"target-as-{tn}")
        if tn != "dict":
            eng.prove(Eq(ureg.convert(x, u, tv), want), f"convert-target-as-{tn}")
    sources = {
        "string": lambda: ureg.Quantity(f"{eng.lit(x)} {u}"),
        "call-registry": lambda: ureg(f"{eng.lit(x)} * {u}"),
        "number*Unit": lambda: x * ureg.Unit(u),
        "Unit*number": lambda: ureg.Unit(u) * x,
        "number*attr": lambda: x * getattr(ureg, u),
        "Quantity(Quantity)": lambda: ureg.Quantity(ureg.Quantity(x, u)),
        "Quantity(number, Quantity-units)": lambda: ureg.Quantity(x, ureg.Quantity(1, u).units),
        "from_tuple": lambda: ureg.Quantity.from_tuple((x, ((u, 1),))),
        "parse_expression": lambda: ureg.parse_expression(f"{eng.lit(x)} {u}"),
    }
    for sn, mk in sources.items():
        qs = mk()
        eng.prove(Eq(qs.to(v).magnitude, want), f"source-as-{sn}")
    # unit specifications given as Quantity objects: only their units count, whatever their
    # magnitudes (also when the two quantities happen to be physically equal)
    k_eq = iu.num / iv.num  # 1 u == k_eq v
    eng.prove(Eq(ureg.convert(x, ureg.Quantity(1, u), ureg.Quantity(k_eq, v)), want), "convert-specs-as-equal-quantities")
    eng.prove(Eq(ureg.convert(x, ureg.Quantity(5, u), ureg.Quantity(7, v)), want), "convert-specs-as-quantities")
    eng.prove(Eq(ureg.convert(x, ureg.Unit(u), ureg.Quantity(k_eq, v)), want), "convert-specs-unit-and-equal-quantity")
    eng.prove(Eq(q.to(ureg.Quantity(k_eq, v)).magnitude, want), "to-equal-quantity")
    # exponents that are integral in value but not in type (2.0, Fraction(2)): same exact factor,
    # and nothing inexact is left behind for the cleanly written units
    for etag, ee in (("float", 2.0), ("Fraction", Fraction(2)), ("registry-type", eng.num(2))):
        # (the source is written cleanly: a float-typed exponent on the source side makes the
        # factor a float in a Fraction registry by itself)
        dst2 = ureg.Unit(v) ** ee
        r2 = ureg.Quantity(x, f"{u}**2").to(dst2)
        eng.prove(Eq(r2.magnitude, x * (iu.num / iv.num) ** 2), f"exponent-typed-{etag}:factor")
        eng.prove(not isinstance(r2.magnitude, float) and not getattr(r2.magnitude, "inexact", False), f"exponent-typed-{etag}:stays-exact")
        r3 = ureg.Quantity(x, f"{u}**2").to(f"{v}**2")
        eng.prove(Eq(r3.magnitude, x * (iu.num / iv.num) ** 2), f"exponent-typed-{etag}:clean-units-afterwards")
        eng.prove(not isinstance(r3.magnitude, float) and not getattr(r3.magnitude, "inexact", False), f"exponent-typed-{etag}:clean-units-afterwards-exact")
        eng.prove(Eq(ureg.convert(x, ureg.UnitsContainer({u: 2}), pint.util.UnitsContainer({v: ee})), x * (iu.num / iv.num) ** 2), f"exponent-typed-{etag}:bare-container")
    # registry.convert on arrays: inplace=True rewrites the given array, inplace=False leaves it
    import numpy as np

    arr = np.array([x, y], dtype=object)
    out = ureg.convert(arr, u, v)
    eng.prove(And(Eq(out[0], want), Eq(out[1], y * iu.num / iv.num)), "convert-array")
    eng.prove(And(Eq(arr[0], x), Eq(arr[1], y)) and out is not arr, "convert-array-leaves-input")
    out = ureg.convert(arr, u, v, inplace=True)
    eng.prove(And(Eq(out[0], want), Eq(out[1], y * iu.num / iv.num)), "convert-array-inplace")
    eng.prove(out is arr, "convert-array-inplace-same-buffer")
    qa = ureg.Quantity(np.array([x, y], dtype=object), u)
    buf = qa.magnitude
    qa.ito(v)
    eng.prove(And(Eq(qa.magnitude[0], want), qa.magnitude is buf, qa.units == ureg.Unit(v)), "ito-array-in-place")
    # Unit.from_ / m_from: a quantity expressed in this unit; bare numbers are taken in this unit
    V = ureg.Unit(v)
    fr = V.from_(q)
    eng.prove(And(Eq(fr.magnitude, want), fr.units == V), "Unit.from_")
    eng.prove(Eq(V.m_from(q), want), "Unit.m_from")
    fr = V.from_(x, strict=False)
    eng.prove(And(Eq(fr.magnitude, x), fr.units == V), "Unit.from_-number-is-in-this-unit")
    try:
        V.from_(x)
    except ValueError:
        eng.prove(True, "Unit.from_-strict-refuses-numbers")
    else:
        eng.fail("Unit.from_-strict-accepts-number")
    # element access of sequences of quantities


def h_compound_twice(eng, u, u2, v, v2, bound):
    """two conversions of compound units in the same registry, with symbolic integer exponents:
    u^e v^f -> u2^e v2^f, then the same units with other exponents.  The factor of the second is
    its own, whatever was asked (and memoised) first.  hash_mode=const: every container over the
    same unit names hashes alike, so memo tables are exercised through __eq__ alone."""
    ureg = regs.default(eng)
    inf = covers.infos()
    x = eng.real("x")
    fu, fv = inf[u].num / inf[u2].num, inf[v].num / inf[v2].num
    for rnd_ in (0, 1):
        e = eng.integer(f"e{rnd_}", -bound, bound)
        f = eng.integer(f"f{rnd_}", -bound, bound)
        eng.assume(Not(Eq(e, 0)))
        eng.assume(Not(Eq(f, 0)))
        src = ureg.UnitsContainer({u: e, v: f})
        dst = ureg.UnitsContainer({u2: e, v2: f})
        r = ureg.convert(x, src, dst)
        rng = [k for k in range(-bound, bound + 1) if k]
        eng.prove(Or(*[And(Eq(e, k), Eq(f, l), Eq(r, x * fu**k * fv**l)) for k in rng for l in rng]), f"compound-factor-round{rnd_}")
        back = ureg.convert(r, dst, src)
        eng.prove(Eq(back, x), f"compound-round-trip-round{rnd_}")
        # the other memoised tables (root units, base units, dimensionality), same discipline
        q = ureg.Quantity(x, src)
        rr = q.to_root_units()
        fu_r, fv_r = inf[u].num, inf[v].num
        eng.prove(Or(*[And(Eq(e, k), Eq(f, l), Eq(rr.magnitude, x * fu_r**k * fv_r**l)) for k in rng for l in rng]), f"compound-root-factor-round{rnd_}")
        rb = q.to_base_units().to_root_units()
        eng.prove(Eq(rb.magnitude, rr.magnitude), f"compound-base-units-same-value-round{rnd_}")
        dims = {}
        for nm, ex in ((u, e), (v, f)):
            for dk, dv in inf[nm].dims:
                dims[dk] = dims.get(dk, 0) + dv * ex
        got = dict(q.dimensionality)
        eng.prove(And(*[Eq(got.get(dk, 0), dv) for dk, dv in dims.items()]) if dims else True, f"compound-dimensionality-round{rnd_}")
        eng.prove(And(*[Or(dk in dims, Eq(dv, 0)) for dk, dv in got.items()]) if got else True, f"compound-dimensionality-no-extra-round{rnd_}")


def h_spellings_after_lookups(eng, first, then):
    """every defined spelling keeps its meaning after prefixed units were looked up (and
    registered on the fly) under names whose composed name or symbol is itself a defined spelling"""
    ureg = regs.default(eng)
    inf = covers.infos()
    d = refdefs.default()
    for text in first:
        try:
            ureg.Quantity(1, text).to_root_units()
            ureg.get_symbol(text)
            format(ureg.Unit(text), "~")
        except Exception:  # noqa: BLE001 - what these lookups answer is H02.b's and C08's subject
            pass
    for i, sp in enumerate(then):
        x = eng.real(f"x{i}")
        info = inf[d.spellings[sp]]
        try:
            r = ureg.Quantity(x, sp).to_root_units()
        except (OffsetUnitCalculusError, DimensionalityError):
            continue
        got_units = {k: Fraction(v if not hasattr(v, "c") else v.c) for k, v in r._units.items()}
        eng.prove(got_units == dict(info.roots), f"spelling-root-units-after-lookups:{sp}")
        if info.kind in ("base", "mult", "dimensionless") and not info.inexact:
            eng.prove(Eq(r.magnitude, x * info.num), f"spelling-factor-after-lookups:{sp}")
        eng.prove(ureg.get_name(sp) == info.name, f"spelling-name-after-lookups:{sp}")


def h_other_numeric_types(eng, pairs):
    """the default registry built for floats and for Decimals: the factors of the same pairs agree
    with the exact ones to a few ulp / to the Decimal precision, magnitudes keep their type"""
    import decimal

    import pint

    inf = covers.infos()
    fl = regs.float_default()
    dec = getattr(h_other_numeric_types, "_dec", None)
    if dec is None:
        dec = h_other_numeric_types._dec = pint.UnitRegistry(non_int_type=decimal.Decimal)
    for u, v in pairs:
        exact = inf[u].num / inf[v].num
        r = fl.Quantity(1.0, u).to(v)
        rel = abs(Fraction(r.magnitude) / exact - 1)
        eng.prove(rel <= Fraction(1, 10**14), f"float-factor:{u}->{v}")
        eng.prove(type(r.magnitude) is float, f"float-type:{u}->{v}")
        back = r.to(u).magnitude
        eng.prove(abs(back - 1.0) <= 1e-14, f"float-round-trip:{u}->{v}")
        # magnitudes far from 1 (no absolute tolerance hides a lost factor)
        big = fl.Quantity(1e200, u).to(v).magnitude
        eng.prove(abs(Fraction(big) / (exact * Fraction(10) ** 200) - 1) <= Fraction(1, 10**13), f"float-factor-large-magnitude:{u}->{v}")
        rd = dec.Quantity(decimal.Decimal(1), u).to(v)
        eng.prove(type(rd.magnitude) is decimal.Decimal, f"decimal-type:{u}->{v}")
        reld = abs(Fraction(rd.magnitude) / exact - 1)
        eng.prove(reld <= Fraction(1, 10**24), f"decimal-factor:{u}->{v}")
        ri = fl.Quantity(3, u).to(v)
        eng.prove(abs(Fraction(ri.magnitude) / (3 * exact) - 1) <= Fraction(1, 10**14), f"int-magnitude:{u}->{v}")


def h_decimal_high_precision(eng):
    """a Decimal registry built under a working precision of 60 digits converts to that precision:
    the written definitions are evaluated in the caller's decimal context"""
    import decimal

    import pint
    from pint.util import ParserHelper

    ctx = decimal.getcontext()
    old_prec = ctx.prec
    try:
        ctx.prec = 60
        ParserHelper.from_string.cache_clear() if hasattr(ParserHelper.from_string, "cache_clear") else None
        reg = pint.UnitRegistry(non_int_type=decimal.Decimal)
        D = decimal.Decimal
        for src, dst, exact in (("inch", "meter", Fraction(254, 10000)), ("foot", "meter", Fraction(3048, 10000)), ("mile", "inch", Fraction(63360)), ("degree_Rankine", "kelvin", Fraction(5, 9)), ("pound", "gram", Fraction(45359237, 100000))):
            got = reg.Quantity(D(1), src).to(dst).magnitude
            err = abs(Fraction(got) / exact - 1)
            eng.prove(err <= Fraction(1, 10**55), f"decimal-prec-60:{src}->{dst}:accurate-to-the-working-precision")
        reg.define("third = meter / 3")
        got = reg.Quantity(D(1), "third").to("meter").magnitude
        eng.prove(abs(Fraction(got) * 3 - 1) <= Fraction(1, 10**55), "decimal-prec-60:user-definition")
    finally:
        ctx.prec = old_prec
        ParserHelper.from_string.cache_clear() if hasattr(ParserHelper.from_string, "cache_clear") else None


def h_inplace_narrow_arrays(eng):
    """in-place conversion of an array whose dtype cannot hold the result (integers, uint8): either
    refused (the array and the unit stay as they were) or numerically the converted values --
    never silently truncated or wrapped"""
    import numpy as np

    import pint

    fl = regs.float_default()
    forced = getattr(h_inplace_narrow_arrays, "_forced", None)
    if forced is None:
        forced = h_inplace_narrow_arrays._forced = pint.UnitRegistry(force_ndarray=True)
    rows = [
        (fl, np.array([1500, 2500, 999]), "meter", "kilometer", 1e-3),
        (fl, np.array([1, 2, 3]), "kilometer", "meter", 1e3),
        (fl, np.array([200, 17], dtype=np.uint8), "kilometer", "meter", 1e3),
        (fl, np.array([7, 9], dtype=np.int16), "inch", "centimeter", 2.54),
        (fl, np.array([1.5, 2.5], dtype=np.float32), "mile", "millimeter", 1609344.0),
        (forced, 1500, "meter", "kilometer", 1e-3),
        (forced, 3, "hour", "day", 1 / 24),
    ]
    for reg, data, u, v, k in rows:
        for form in ("ito", "ito_base_units", "ito_root_units"):
            if form != "ito" and (u, v) not in (("kilometer", "meter"), ("inch", "centimeter")):
                continue
            q = reg.Quantity(data.copy() if hasattr(data, "copy") else data, u)
            before = np.array(q.magnitude, dtype=float, copy=True)
            want = np.asarray(reg.Quantity(np.asarray(data, dtype=float), u).to(v if form == "ito" else "meter").magnitude, dtype=float)
            try:
                q.ito(v) if form == "ito" else getattr(q, form)()
            except Exception:  # noqa: BLE001
                same = bool(np.all(np.asarray(q.magnitude, dtype=float) == before)) and q.units == reg.Unit(u)
                eng.prove(same, f"narrow-array:{form}:{np.asarray(data).dtype}:{u}->{v}:refused-leaves-quantity")
                continue
            got = np.asarray(q.magnitude, dtype=float)
            rtol = 1e-6 if np.asarray(data).dtype == np.float32 else 1e-12
            eng.prove(bool(np.allclose(got, want, rtol=rtol, atol=0)), f"narrow-array:{form}:{np.asarray(data).dtype}:{u}->{v}:values-not-truncated")


TEMPLATES = [
    # (name, list of (unit, exponents over earlier units), queries)
    ("chain3", [("u1", {"b1": 1}), ("u2", {"u1": 1}), ("u3", {"u2": 1})]),
    ("square", [("u1", {"b1": 1}), ("u2", {"u1": 2}), ("u3", {"u2": -1, "u1": 1})]),
    ("mixed", [("u1", {"b1": 1, "b2": -1}), ("u2", {"u1": 2, "b2": 1}), ("u3", {"u2": -2, "u1": 1, "b1": 2}), ("u4", {"u3": 1, "u2": 1})]),
    ("inverse", [("u1", {"b2": -2}), ("u2", {"u1": -1}), ("u3", {"u2": 2, "b1": 1})]),
]


def _template_text(eng, tpl, scales, p):
    lines = ["b1 = [d1] = B1", "b2 = [d2] = B2", f"pp- = {eng.lit(p)} = P-"]
    for (name, ref), s in zip(tpl, scales):
        rhs = " * ".join(f"{k} ** {e}" if e >= 0 else f"{k} ** ({e})" for k, e in ref.items())
        lines.append(f"{name} = {eng.lit(s)} * {rhs} = {name.upper()}")
    return lines


def h_generated(eng, tname):
    tpl = dict((t[0], t[1]) for t in TEMPLATES)[tname]
    scales = [eng.real(f"s{i}") for i in range(len(tpl))]
    p = eng.real("p")
    x = eng.real("x")
    for s in scales + [p]:
        eng.assume(~Eq(s, 0))
    # scales are rendered into text: keep them positive so that the literal carries no sign
    # (negative literals are exercised in C10)
    for s in scales + [p]:
        eng.assume(s > 0)
    ureg = regs.build(eng, _template_text(eng, tpl, scales, p))
    # model: factor and base vector of every unit
    fac = {"b1": 1, "b2": 1}
    vec = {"b1": {"b1": 1}, "b2": {"b2": 1}}
    for (name, ref), s in zip(tpl, scales):
        f = s
        v = {}
        for k, e in ref.items():
            f = f * fac[k] ** e
            for kk, ee in vec[k].items():
                v[kk] = v.get(kk, 0) + ee * e
        fac[name] = f
        vec[name] = {k: e for k, e in v.items() if e != 0}
    for name, _ in tpl:
        r = ureg.Quantity(x, name).to_root_units()
        eng.prove(Eq(r.magnitude, x * fac[name]), f"gen-root:{name}")
        got = {k: (v.c if hasattr(v, "c") else Fraction(v)) for k, v in r._units.items()}
        eng.prove(got == {k: Fraction(e) for k, e in vec[name].items()}, f"gen-root-units:{name}")
        # prefixed spelling, registered on first use, then used again; symbol spelling
        for text in ("pp" + name, "P" + name.upper(), "pp" + name + "s"):
            r = ureg.Quantity(x, text).to_root_units()
            eng.prove(Eq(r.magnitude, x * p * fac[name]), f"gen-prefixed:{text}")
        r = ureg.Quantity(x, "pp" + name).to(name)
        eng.prove(Eq(r.magnitude, x * p), f"gen-prefixed-to-plain:{name}")
    last = tpl[-1][0]
    first = tpl[0][0]
    if vec[last] == vec[first]:
        r = ureg.Quantity(x, last).to(first)
        eng.prove(Eq(r.magnitude, x * fac[last] / fac[first]), "gen-pair")


MIN_DISCHARGED = {"H02.a": 1500, "H02.b": 300, "H02.c": 500, "H02.c-compound": 50, "H02.d": 40, "H02.e": 60}


def cases(tier, seed):
    big = tier == "thorough"
    rnd = random.Random(f"c02:{seed}")
    d = refdefs.default()
    inf = covers.infos()
    out = []
    # H02.a every spelling
    names = sorted(s for s in d.spellings if inf.get(d.spellings[s]) is not None)
    names += [n for n in inf if n.startswith("delta_")]
    for i in range(0, len(names), 16):
        chunk = names[i : i + 16]
        out.append(Case("H02.a", f"{i:04d}:{chunk[0]}", M, "h_root_batch", {"names": chunk}, validate=1))
    # H02.b prefix x unit (the prefixed names that exist in the unit table from the start, i.e.
    # those mentioned by @system blocks, are always included)
    mult = sorted(n for n, i in inf.items() if i.kind in ("base", "mult", "dimensionless") and not i.inexact)
    spell_by_canon = {}
    for s, c in d.spellings.items():
        spell_by_canon.setdefault(c, []).append(s)
    unit_spellings = []
    for c in mult if big else rnd.sample(mult, 40):
        unit_spellings += spell_by_canon[c] if big else rnd.sample(spell_by_canon[c], min(2, len(spell_by_canon[c])))
    items = []
    skipped_ambiguous = 0
    for p in sorted(d.prefixes):
        for u in unit_spellings:
            for s in ("", "s"):
                text = p + u + s
                rd = _readings(d, text)
                if rd is None:
                    continue  # a defined spelling: exact names win (C08)
                pn = d.prefixes[p][0]
                if rd != {(pn, d.spellings[u])}:
                    skipped_ambiguous += 1
                    continue  # several readings: which one wins is C08's subject
                if not text.isidentifier():
                    continue
                items.append((p, u, s))
    if not big:
        items = rnd.sample(items, min(len(items), 900))
    # always: the prefixed names that the bundled systems mention (they sit in the unit table from
    # the start) and a few everyday ones
    always = [("kilo", "gram", ""), ("centi", "meter", ""), ("milli", "gram", ""), ("kilo", "meter", ""), ("k", "g", ""), ("c", "m", ""), ("milli", "second", "s"), ("micro", "second", ""), ("kilo", "grams", "")]
    items = [it for it in always if it[1] in d.spellings and it[0] in d.prefixes and it not in items] + items
    for i in range(0, len(items), 12):
        chunk = items[i : i + 12]
        out.append(Case("H02.b", f"{i:05d}:{''.join(chunk[0])}", M, "h_prefix_batch", {"items": chunk}, validate=1))
    for mode in ("registry-option", "per-call"):
        out.append(Case("H02.b", f"case-insensitive-prefix-twins:{mode}", M, "h_prefix_case_insensitive", {"mode": mode}, validate=1))
    # H02.c pairs
    pairs = covers.all_same_dim_pairs() if big else covers.same_dim_pairs(seed, 300)
    cl = covers.classes(kinds=("base", "mult", "dimensionless"))
    for u, v in pairs:
        members = cl[inf[u].dims]
        w = rnd.choice(members)
        out.append(Case("H02.c", f"{u}~{v}~{w}", M, "h_pair", {"u": u, "v": v, "w": w}, validate=1))
    # H02.c compound units with symbolic exponents, twice in one registry
    cp = [("mile", "meter", "hour", "second"), ("yard", "meter", "minute", "second"), ("inch", "foot", "pound", "gram")]
    for _ in range(12 if big else 3):
        (a, a2), (b, b2) = covers.same_dim_pairs(rnd.randrange(10**6), 2, positive_only=True)[:2]
        if len({a, a2, b, b2}) == 4 and not any(inf[n].inexact for n in (a, a2, b, b2)):
            cp.append((a, a2, b, b2))
    for a, a2, b, b2 in cp:
        out.append(Case("H02.c-compound", f"{a}->{a2},{b}->{b2}", M, "h_compound_twice", {"u": a, "u2": a2, "v": b, "v2": b2, "bound": 3 if big else 2}, opts={"hash_mode": "const", "max_paths": 20000}, weight=30.0, validate=4))
    # H02.e defined spellings after adversarial prefixed lookups: prefix x unit whose composed long
    # name or composed symbol is a defined spelling of (another) unit
    adversarial = []
    pre = {}
    for sp_, (pname, _pv, _ps) in d.prefixes.items():
        pre.setdefault(pname, []).append(sp_)
    for pname, pspell in pre.items():
        psym = d.prefix_defs[pname][1] or pname
        for c in mult:
            usym = d.units[c].symbol or c
            if (psym + usym) in d.spellings and d.spellings[psym + usym] != c:
                adversarial.append((pname + c, psym + usym))
    adversarial.sort()
    if not big:
        adversarial = rnd.sample(adversarial, min(len(adversarial), 60))
    for i in range(0, len(adversarial), 10):
        chunk = adversarial[i : i + 10]
        first = [a for a, _ in chunk] + [a + "s" for a, _ in chunk[:3]]
        then = [b for _, b in chunk] + rnd.sample(names[: len(names) - 1], 6)
        then = [t for t in then if t in d.spellings and inf.get(d.spellings[t]) is not None]
        out.append(Case("H02.e", f"{i:04d}:{chunk[0][0]}", M, "h_spellings_after_lookups", {"first": first, "then": then}, validate=1))
    # H02.f the float and Decimal registries on the same pairs (concrete)
    exact_pairs = [(u, v) for u, v in pairs if not inf[u].inexact and not inf[v].inexact]
    for i in range(0, len(exact_pairs), 60):
        out.append(Case("H02.f", f"{i:05d}", M, "h_other_numeric_types", {"pairs": exact_pairs[i : i + 60]}, kind="conc"))
    out.append(Case("H02.f", "inplace-narrow-arrays", M, "h_inplace_narrow_arrays", {}, kind="conc"))
    out.append(Case("H02.f", "decimal-high-precision", M, "h_decimal_high_precision", {}, kind="conc"))
    # a definition replaced after the registry has been used (on_redefinition='ignore'): the
    # factors are those of the text as it now stands, whatever had been memoised before
    for pre in ("conversions", "roots", "all", "via-load_definitions"):
        out.append(Case("H02.e", f"replaced-definition:pre={pre}", "pvlib.harness.c13", "h_redefinition_history", {"pre": pre}, opts={"hash_mode": "mixed", "max_paths": 300}, validate=1))
    # H02.d generated registries with symbolic scales
    for t in TEMPLATES:
        out.append(Case("H02.d", t[0], M, "h_generated", {"tname": t[0]}, weight=5.0))
    return out
