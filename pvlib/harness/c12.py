"""C12 -- context activation is scoped, stack-like, atomic and leaves no residue.

Bounded model checking of the real registry against the reference stack model of
pvlib/ctxmodel.py: every operation sequence up to the bound is executed on a freshly
generated registry whose rule coefficients, parameters and redefinition factors are
symbolic, and after *every* step the whole probe vector is compared with the model."""

from __future__ import annotations

import itertools
import random

from pint.errors import DimensionalityError

from ..ctxmodel import Model, World, probe
from ..runner import Case
from ..sx.q import And, Eq, Not

PROPERTY = "C12"
M = "pvlib.harness.c12"

META = {
    "explanation": "enable_contexts / disable_contexts / context() with-blocks (incl. exit through an exception and activations that fail part-way) of the real registry are driven "
    "through every operation sequence up to the bound; after each step conversions, root/base units, compatible units and compatibility predicates are proved equal, for all symbolic "
    "rule coefficients / parameters / redefinition factors / magnitudes, to a reference stack model; shared Context objects are checked for mutation.",
    "functions_encoded": [
        "pint/facets/context/registry.py::enable_contexts, disable_contexts, context, _switch_context_cache_and_units, _redefine, _convert, _get_compatible_units, add_context",
        "pint/facets/context/objects.py::ContextChain.insert_contexts, remove_contexts, defaults, graph, transform, hashable; Context.from_context, hashable",
        "pint/facets/system/registry.py::_get_base_units (base-unit cache under contexts)",
        "pint/util.py::find_shortest_path, find_connected_nodes",
    ],
    "bounds": {"sequence length": "<= 3 operations (thorough 4), 'with c:' wraps the following operation", "alphabet": "enable(c) for c in c1..c5, enable(c1, n=v), enable(), disable(0), disable(1), disable(2), disable(all), with (no context):, with c:, with c: raise, enable(bad), with bad:, define(new unit)", "numbers": "all positive rationals (symbolic)"},
    "enumerated_axes": [{"axis": "operation sequences", "exhaustive": True}],
    "outside_claim": ["sequences longer than the bound", "contexts whose parameters appear in more than one active context with different values other than through explicit keywords"],
    "assumptions": ["hash_mode=mixed: unbounded symbolic numbers (context parameters, scales) hash to a constant; equality of cache keys is then decided by __eq__ (sound under the hash contract)"],
}

CTX = ["c1", "c2", "c3", "c4", "c5"]


class _Boom(Exception):
    pass


QUIET = [False]


def _probe(eng, ureg, model, x, tag, full=True):
    # in quiet runs nothing is asked until the very end: what the registry memoises then depends
    # on the operations alone (an answer given earlier can hide a stale table)
    if not QUIET[0]:
        probe(eng, ureg, model, x, tag, full)


def run_ops(eng, ureg, model, W, x, ops, pos, tag, shared, full):
    """execute ops[pos:] at the current nesting level; returns nothing"""
    i = pos
    while i < len(ops):
        op = ops[i]
        kind = op[0]
        t = f"{tag}{i}"
        if kind == "enable":
            c, pv = op[1], op[2]
            n = W.nv[pv] if pv is not None else None
            obj = shared if c == "c5" else c
            if n is None:
                ureg.enable_contexts(obj)
            else:
                ureg.enable_contexts(obj, n=n)
            model.enable(c, n)
        elif kind == "disable":
            ureg.disable_contexts(op[1])
            model.disable(op[1])
        elif kind == "enable_none":
            ureg.enable_contexts()
        elif kind == "with_none":
            # a with-block that names no context pushes nothing and pops nothing
            with ureg.context():
                _probe(eng, ureg, model, x, t + "in", False)
        elif kind == "define":
            ureg.define(f"nu = {eng.lit(W.sn)} * m")
            model.late_units["nu"] = W.sn
            model.under_overlay["nu"] = any(c in ("c3", "c4") for c, _p in model.stack)
        elif kind == "enable_twice":
            # one call naming the same context twice (by name and by alias where it has one):
            # two entries are pushed, as for two different contexts
            c = op[1]
            ureg.enable_contexts(c, "C1" if c == "c1" else c)
            model.enable(c, None)
            model.enable(c, None)
        elif kind == "call_twice":
            # contexts given per call are pushed for the call and popped after it -- all of them
            c = op[1]
            try:
                ureg.Quantity(x, "m").to("s", c, "C1" if c == "c1" else c)
            except DimensionalityError:
                pass
        elif kind == "with_twice":
            c = op[1]
            with ureg.context(c, "C1" if c == "c1" else c):
                model.enable(c, None)
                model.enable(c, None)
                _probe(eng, ureg, model, x, t + "in", full)
                if i + 1 < len(ops):
                    run_ops(eng, ureg, model, W, x, ops[: i + 2], i + 1, tag + "b", shared, full)
            model.disable(2)
            i += 1
        elif kind == "enable_unhashable":
            # an activation that fails for another reason than a refused redefinition: the
            # parameter of a redefining context cannot be hashed into the combination key
            try:
                ureg.enable_contexts(op[1], n=[1, 2])
            except TypeError:
                eng.prove(True, f"{t}:unhashable-parameter-raises")
            else:
                ureg.disable_contexts(1)
        elif kind == "with_unhashable":
            try:
                with ureg.context(op[1], n=[1, 2]):
                    pass
            except TypeError:
                eng.prove(True, f"{t}:unhashable-parameter-with-raises")
        elif kind == "enable_bad":
            try:
                ureg.enable_contexts("bad")
            except ValueError:
                eng.prove(True, f"{t}:bad-activation-raises")
            else:
                eng.fail(f"{t}:bad-activation-accepted")
        elif kind == "with_bad":
            try:
                with ureg.context("bad"):
                    eng.fail(f"{t}:bad-with-entered")
            except ValueError:
                eng.prove(True, f"{t}:bad-with-raises")
        elif kind in ("with", "with_raise"):
            c, pv = op[1], op[2]
            n = W.nv[pv] if pv is not None else None
            obj = shared if c == "c5" else c
            kw = {} if n is None else {"n": n}
            depth = len(model.stack)
            try:
                with ureg.context(obj, **kw):
                    model.enable(c, n)
                    _probe(eng, ureg, model, x, t + "in", full)
                    if kind == "with_raise":
                        raise _Boom()
                    # the body is the next operation (if any)
                    if i + 1 < len(ops):
                        run_ops(eng, ureg, model, W, x, ops[: i + 2], i + 1, tag + "b", shared, full)
            except _Boom:
                pass
            # stack discipline: leaving the block pops as many contexts as the block pushed
            # (one), whatever the body did to the stack in between
            model.disable(1)
            if kind == "with":
                i += 1
        _probe(eng, ureg, model, x, t, full)
        i += 1


def h_sequence(eng, ops, full, quiet=False):
    QUIET[0] = quiet
    W = World(eng)
    W.nv = {0: eng.real("nv0"), 1: eng.real("nv1")}
    for v in W.nv.values():
        eng.assume(v > 0)
    eng.assume(Not(Eq(W.nv[0], W.nv[1])))
    eng.assume(Not(Eq(W.nv[0], W.n1)))
    eng.assume(Not(Eq(W.k1 * W.nv[0], W.k2)))
    eng.assume(Not(Eq(W.k1 * W.nv[1], W.k2)))
    eng.assume(Not(Eq(W.k5, W.k2)))
    eng.assume(Not(Eq(W.k5, W.k1 * W.n1)))
    ureg = W.build()
    shared = W.shared_context()
    ureg.add_context(shared)
    # a second registry sharing the Context object
    other = W.build()
    other.add_context(shared)
    x = eng.real("x")
    model = Model(W)
    other_model = Model(W)
    snap = _ctx_snapshot(ureg, shared)
    _probe(eng, ureg, model, x, "init", full)
    run_ops(eng, ureg, model, W, x, [tuple(o) for o in ops], 0, "op", shared, full)
    # unwinding everything restores every answer
    ureg.disable_contexts()
    model.disable()
    probe(eng, ureg, model, x, "final", True)
    # the registry's own settings came back as well: built with on_redefinition='raise', it still
    # refuses to redefine an existing unit (activations suspend that setting internally)
    from pint.errors import RedefinitionError

    for line in ("w = 2 * m", "u = 3 * s"):
        try:
            ureg.define(line)
        except RedefinitionError:
            eng.prove(True, f"final:redefinition-still-refused:{line.split()[0]}")
        else:
            eng.fail(f"final:redefinition-accepted-after-the-sequence:{line.split()[0]}")
    # the other registry never noticed
    probe(eng, other, other_model, x, "other", False)
    # context objects are unchanged by being activated
    eng.prove(_ctx_snapshot(ureg, shared, against=snap), "context-objects-unmodified")


def _ctx_snapshot(ureg, shared, against=None):
    items = []
    for name in ("c1", "c2", "c3", "c4", "bad"):
        c = ureg._contexts[name]
        items.append((name, dict(c.defaults), tuple(c.redefinitions), len(c.funcs), c.name, tuple(c.aliases)))
    items.append(("c5", dict(shared.defaults), tuple(shared.redefinitions), len(shared.funcs), shared.name, tuple(shared.aliases)))
    if against is None:
        return items
    ok = True
    for (n1, d1, r1, f1, nm1, a1), (n2, d2, r2, f2, nm2, a2) in zip(items, against):
        same_defaults = set(d1) == set(d2) and all(bool(Eq(d1[k], d2[k])) if not isinstance(Eq(d1[k], d2[k]), bool) else Eq(d1[k], d2[k]) for k in d1)
        ok = ok and same_defaults and len(r1) == len(r2) and all(a is b for a, b in zip(r1, r2)) and f1 == f2 and nm1 == nm2 and a1 == a2
    return ok


MIN_DISCHARGED = {"H12": 5000}


def _alphabet():
    ops = []
    for c in CTX:
        ops.append(("enable", c, None))
    ops.append(("enable", "c1", 0))
    ops.append(("enable", "c1", 1))
    ops.append(("enable", "c2", 0))
    ops.append(("disable", 1))
    ops.append(("disable", None))
    ops.append(("disable", 0))
    ops.append(("disable", 2))
    ops.append(("enable_none",))
    ops.append(("with_none",))
    for c in ("c1", "c3", "c4"):
        ops.append(("with", c, None))
        ops.append(("with_raise", c, None))
    ops.append(("with", "c1", 1))
    ops.append(("enable_bad",))
    ops.append(("with_bad",))
    ops.append(("define",))
    for c in ("c3", "c4"):
        ops.append(("enable_unhashable", c))
        ops.append(("with_unhashable", c))
    for c in ("c1", "c3"):
        ops.append(("enable_twice", c))
        ops.append(("call_twice", c))
        ops.append(("with_twice", c))
    return ops


def _ok(seq):
    if sum(1 for o in seq if o[0] == "define") > 1:
        return False
    return True


def cases(tier, seed):
    big = tier == "thorough"
    rnd = random.Random(f"c12:{seed}")
    alpha = _alphabet()
    seqs = [[o] for o in alpha]
    seqs += [list(s) for s in itertools.product(alpha, repeat=2) if _ok(s)]
    triples = [list(s) for s in itertools.product(alpha, repeat=3) if _ok(s)]
    if big:
        seqs += triples
        quads = [list(s) for s in itertools.product(alpha, repeat=4) if _ok(s)]
        seqs += rnd.sample(quads, 3000)
    else:
        seqs += rnd.sample(triples, 500)
    out = []
    # quiet sequences: nothing is asked before the end (re-activations of the same combination,
    # repeated enter/leave, failures in between)
    quiet = []
    for c in ("c3", "c4", "c1"):
        quiet.append([("enable", c, None), ("disable", 1), ("enable", c, None), ("disable", 1)])
        quiet.append([("with", c, None), ("disable", 0), ("with", c, None)])
        quiet.append([("enable", c, None), ("disable", None), ("enable", c, None)])
        quiet.append([("enable", c, None), ("enable_bad",), ("disable", 1), ("enable", c, None), ("disable", 1)])
        quiet.append([("enable", "c3", None), ("enable", c, None), ("disable", 2), ("enable", "c3", None), ("enable", c, None), ("disable", 1)])
    quiet += [list(s) for s in rnd.sample(triples, 400 if big else 60)]
    for s in quiet:
        sig = "quiet:" + ";".join(":".join(str(x) for x in o) for o in s)
        out.append(Case("H12", sig, M, "h_sequence", {"ops": [list(o) for o in s], "full": True, "quiet": True}, opts={"hash_mode": "mixed", "max_paths": 400}, validate=0, weight=float(len(s))))
    for i, s in enumerate(seqs):
        sig = ";".join(":".join(str(x) for x in o) for o in s)
        out.append(Case("H12", sig, M, "h_sequence", {"ops": [list(o) for o in s], "full": True}, opts={"hash_mode": "mixed", "max_paths": 400}, validate=1 if i % 10 == 0 else 0, weight=float(len(s))))
    return out
