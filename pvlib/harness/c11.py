"""C11 -- context conversions apply the declared rules along a shortest chain."""

from __future__ import annotations

import itertools
import random
from collections import deque
from fractions import Fraction

from pint.errors import DimensionalityError
from pint.util import find_connected_nodes, find_shortest_path

from .. import covers, regs
from ..ctxmodel import Model, World, probe
from ..ref import refdefs
from ..runner import Case
from ..sx.q import And, Eq, Iff, Not, Or

PROPERTY = "C11"
M = "pvlib.harness.c11"

META = {
    "explanation": "bundled contexts: the real registry converts a symbolic magnitude under a context and the result is proved equal to an independent evaluation of the equation text written "
    "in default_en.txt (own parser and quantity algebra) for all magnitudes and all parameter values; generated contexts: every activation form and stacks up to 3 against the reference model "
    "(last enabled wins, shortest chain, parameter sources); path search: find_shortest_path / find_connected_nodes on every directed graph with <= 4 nodes against an independent BFS.",
    "functions_encoded": [
        "pint/facets/context/registry.py::_convert, enable_contexts, context, with_context, _redefine, _switch_context_cache_and_units, _get_compatible_units",
        "pint/facets/context/objects.py::ContextChain.graph, transform, insert_contexts, defaults; Context.transform, from_context, from_definition",
        "pint/facets/context/definitions.py::Relation.transformation",
        "pint/util.py::find_shortest_path, find_connected_nodes",
        "pint/facets/plain/quantity.py::to, is_compatible_with (context arguments), compatible_units",
    ],
    "bounds": {"bundled": "sp, boltzmann, energy, chemistry, textile (values); Gaussian, ESU (reachability and inverse consistency only: constants with ** 0.5 are inexact)", "generated": "stacks <= 3 of 5 contexts, all activation forms", "graphs": "all directed graphs on 4 nodes (4096), start/end fixed plus the reflexive case"},
    "enumerated_axes": [{"axis": "relations of the bundled contexts x representative unit pairs", "exhaustive": False}, {"axis": "directed graphs with 4 nodes", "exhaustive": True}, {"axis": "activation forms x stacks", "exhaustive": False}],
    "outside_claim": ["numeric value of Gaussian/ESU constants (float powers)", "stacks of four contexts in quick tier", "tie-breaking between equally short chains is not constrained (any shortest chain is accepted)"],
}


# ----------------------------------------------------------------------------- bundled contexts

# (context, chain of (src, dst) relation headers to apply, source unit, target unit, parameters)
BUNDLED = [
    ("sp", [("[length]", "[frequency]")], "nanometer", "terahertz", {"n": "num"}),
    ("sp", [("[length]", "[frequency]")], "micron", "hertz", {}),
    ("sp", [("[frequency]", "[length]")], "gigahertz", "centimeter", {"n": "num"}),
    ("sp", [("[frequency]", "[energy]")], "terahertz", "electron_volt", {}),
    ("sp", [("[energy]", "[frequency]")], "joule", "hertz", {}),
    ("sp", [("[wavenumber]", "[length]")], "reciprocal_centimeter", "micron", {}),
    ("sp", [("[length]", "[wavenumber]")], "nanometer", "reciprocal_centimeter", {}),
    ("sp", [("[length]", "[frequency]"), ("[frequency]", "[energy]")], "nanometer", "electron_volt", {"n": "num"}),
    ("sp", [("[wavenumber]", "[length]"), ("[length]", "[frequency]")], "reciprocal_centimeter", "terahertz", {}),
    ("sp", [("[energy]", "[frequency]"), ("[frequency]", "[length]")], "electron_volt", "nanometer", {}),
    ("boltzmann", [("[temperature]", "[energy]")], "kelvin", "electron_volt", {}),
    ("boltzmann", [("[energy]", "[temperature]")], "joule", "kelvin", {}),
    ("energy", [("[energy]", "[energy] / [substance]")], "electron_volt", "joule / mole", {}),
    ("energy", [("[energy] / [substance]", "[energy]")], "calorie / mole", "electron_volt", {}),
    ("energy", [("[energy]", "[mass]")], "joule", "gram", {}),
    ("energy", [("[mass]", "[energy]")], "gram", "electron_volt", {}),
    ("chemistry", [("[substance]", "[mass]")], "mole", "gram", {"mw": "gram / mole"}),
    ("chemistry", [("[mass]", "[substance]")], "pound", "mole", {"mw": "gram / mole"}),
    ("chemistry", [("[substance] / [volume]", "[mass] / [volume]")], "mole / liter", "gram / liter", {"mw": "gram / mole"}),
    ("chemistry", [("[mass] / [volume]", "[substance] / [volume]")], "gram / liter", "molar", {"mw": "gram / mole"}),
    ("chemistry", [("[substance] / [volume]", "[substance]")], "molar", "mole", {"volume": "liter"}),
    ("chemistry", [("[substance]", "[substance] / [volume]")], "mole", "molar", {"volume": "liter"}),
    ("chemistry", [("[substance] / [mass]", "[substance]")], "mole / gram", "mole", {"solvent_mass": "gram"}),
    ("textile", [("[mass] / [length]", "[length] / [mass]")], "tex", "number_meter", {}),
    ("textile", [("[length] / [mass]", "[mass] / [length]")], "number_english", "denier", {}),
]


def _ref_unit_val(d, expr):
    return d.value_of_expr(expr)


def h_bundled(eng, ctx, chain, src, dst, params):
    ureg = regs.default(eng)
    d = refdefs.default()
    x = eng.real("x")
    eng.assume(x > 0)
    kw = {}
    kwv = {}
    for i, (name, unit) in enumerate(sorted(params.items())):
        p = eng.real(f"p_{name}")
        eng.assume(p > 0)
        if unit == "num":
            kw[name] = p
            kwv[name] = refdefs.Val.mk(p)
        else:
            kw[name] = ureg.Quantity(p, unit)
            uv = _ref_unit_val(d, unit)
            kwv[name] = refdefs.Val.mk(uv.num * p, uv.udict(), uv.inexact)
    # independent evaluation of the written equations
    sv = _ref_unit_val(d, src)
    cur = refdefs.Val.mk(sv.num * x, sv.udict(), sv.inexact)
    rels = d.contexts[_ref_ctx_name(d, ctx)]
    defaults = {k: refdefs.Val.mk(refdefs.number(v)) for k, v in rels["defaults"].items()}
    for s, t in chain:
        eq = _find_relation(d, rels, s, t)

        def resolve(tok, _cur=cur):
            if tok == "value":
                return _cur
            if tok in kwv:
                return kwv[tok]
            if tok in defaults:
                return defaults[tok]
            return d._resolve_val(tok)

        cur = refdefs._Parser(refdefs.tokenize(eq), resolve).parse()
    dv = _ref_unit_val(d, dst)
    eng.prove(d.dim_vector(cur) == d.dim_vector(dv), "oracle-chain-reaches-target-dimension")
    want = cur.num / dv.num
    q = ureg.Quantity(x, src)
    r = q.to(dst, ctx, **kw)
    eng.prove(Eq(r.magnitude, want), "context-conversion-value")
    # other activation forms give the same answer
    with ureg.context(ctx, **kw):
        r2 = q.to(dst)
        eng.prove(q.is_compatible_with(dst), "compatible-inside-context")
        # same-dimension conversions are unchanged inside the context
        alt = covers.same_dim_pairs(0, 1)[0]
    eng.prove(Eq(r2.magnitude, want), "with-block-same-value")
    ureg.enable_contexts(ctx, **kw)
    try:
        r3 = ureg.convert(x, ureg.parse_units(src), ureg.parse_units(dst))
    finally:
        ureg.disable_contexts()
    eng.prove(Eq(r3, want), "enable_contexts-same-value")
    # outside any context the conversion is refused
    try:
        q.to(dst)
    except DimensionalityError:
        eng.prove(True, "refused-outside-context")
    else:
        eng.fail("converted-outside-context")
    eng.prove(q.is_compatible_with(dst, ctx, **kw), "is_compatible_with(ctx)")
    eng.prove(not q.is_compatible_with(dst), "not-compatible-without-context")


def _ref_ctx_name(d, ctx):
    for name, c in d.contexts.items():
        if ctx == name or ctx in c["aliases"]:
            return name
    raise KeyError(ctx)


def _find_relation(d, rels, s, t):
    ds, dt = d.dim_of_expr(s), d.dim_of_expr(t)
    for src, dst, bidir, eq in rels["relations"]:
        a, b = d.dim_of_expr(src), d.dim_of_expr(dst)
        if (a, b) == (ds, dt) or (bidir and (b, a) == (ds, dt)):
            return eq
    raise KeyError((s, t))


def h_gaussian(eng, ctx, src, dst):
    """Gaussian / ESU: constants involve ** 0.5 (inexact): reachability and inverse consistency"""
    ureg = regs.default(eng)
    x = eng.real("x")
    eng.assume(x > 0)
    q = ureg.Quantity(x, src)
    r = q.to(dst, ctx)
    back = r.to(src, ctx)
    # the constants are float-valued (** 0.5), so the two directions are inverse only up
    # to rounding of those constants: |back - x| <= 1e-9 x  (linear in x, decided exactly)
    eng.prove(abs(back.magnitude - x) <= x * Fraction(1, 10**9), "gaussian-inverse-consistent")
    y = eng.real("y")
    r2 = ureg.Quantity(y, src).to(dst, ctx)
    eng.prove(Eq(r2.magnitude * x, r.magnitude * y), "gaussian-linear")
    try:
        q.to(dst)
    except DimensionalityError:
        eng.prove(True, "gaussian-refused-outside")
    else:
        eng.fail("gaussian-converted-outside")


# ----------------------------------------------------------------------------- generated contexts: activation forms


def h_forms(eng, stack, form):
    """the same stack of contexts activated in different ways gives the model's answers"""
    W = World(eng)
    nv = eng.real("nv")
    eng.assume(nv > 0)
    eng.assume(Not(Eq(nv, W.n1)))
    eng.assume(Not(Eq(W.k1 * nv, W.k2)))
    eng.assume(Not(Eq(W.k5, W.k2)))
    eng.assume(Not(Eq(W.k5, W.k1 * W.n1)))
    eng.assume(Not(Eq(W.k5, W.k1 * nv)))
    ureg = W.build()
    shared = W.shared_context()
    ureg.add_context(shared)
    x = eng.real("x")
    model = Model(W)
    names = []
    for c, with_n in stack:
        model.enable(c, nv if with_n else None)

    def partial(i):
        # the model of the first i activations: conversions made while only part of the stack is
        # active (they must not influence what the full stack answers later)
        pm = Model(W)
        for c, with_n in stack[:i]:
            pm.enable(c, nv if with_n else None)
        return pm

    objs = {"c1": "c1", "c2": "c2", "c3": "c3", "c4": "c4", "c5": shared}
    alias = {"c1": "C1"}
    has_n = any(wn for _c, wn in stack)
    # pint applies keyword arguments of one call to every context of that call: only use the
    # multi-name forms when that is what the model's stack means
    uniform = all(wn == has_n for _c, wn in stack) or len(stack) == 1
    if form == "enable-each":
        for i, (c, wn) in enumerate(stack):
            if i:
                probe(eng, ureg, partial(i), x, f"enable-each@{i}", False)
            ureg.enable_contexts(objs[c], **({"n": nv} if wn else {}))
        probe(eng, ureg, model, x, "enable-each")
        # pop one at a time: the answers of the shorter stacks again
        for i in range(len(stack) - 1, 0, -1):
            ureg.disable_contexts(1)
            probe(eng, ureg, partial(i), x, f"enable-each-popped@{i}", False)
        ureg.disable_contexts()
    elif form == "enable-alias":
        for c, wn in stack:
            ureg.enable_contexts(alias.get(c, objs[c]), **({"n": nv} if wn else {}))
        probe(eng, ureg, model, x, "enable-alias")
        ureg.disable_contexts()
    elif form == "nested-with":

        def nest(i):
            if i == len(stack):
                probe(eng, ureg, model, x, "nested-with")
                return
            c, wn = stack[i]
            if i:
                probe(eng, ureg, partial(i), x, f"nested-with@{i}", False)
            with ureg.context(objs[c], **({"n": nv} if wn else {})):
                nest(i + 1)
            if i:
                probe(eng, ureg, partial(i), x, f"nested-with-left@{i}", False)

        nest(0)
    elif form == "per-call":
        if not uniform:
            return
        m2 = Model(W)
        for c, wn in stack:
            m2.enable(c, nv if has_n else None)
        args = [objs[c] for c, _ in stack]
        kw = {"n": nv} if has_n else {}
        for src, dst in (("m", "s"), ("m", "g"), ("w", "m"), ("s", "g")):
            want = m2.convert(x, src, dst)
            try:
                r = ureg.Quantity(x, src).to(dst, *args, **kw)
            except DimensionalityError:
                eng.prove(want is None, f"per-call:{src}->{dst}:error-only-when-unreachable")
                continue
            eng.prove(want is not None, f"per-call:{src}->{dst}:converted-only-when-reachable")
            if want is not None:
                eng.prove(Or(*[Eq(r.magnitude, w) for w in want]), f"per-call:{src}->{dst}:value")
        # compatibility questions with the contexts passed per call
        reach = m2.reachable("L")
        q = ureg.Quantity(x, "m")
        eng.prove(q.is_compatible_with("s", *args, **kw) == ("T" in reach), "per-call:Quantity.is_compatible_with(s)")
        eng.prove(ureg.Unit("m").is_compatible_with("g", *args, **kw) == ("M" in reach), "per-call:Unit.is_compatible_with(g)")
        eng.prove(ureg.is_compatible_with("m", "s", *args, **kw) == ("T" in reach), "per-call:registry.is_compatible_with")
        if not has_n:
            from ..ctxmodel import BASE_UNITS_BY_DIM

            want_names = set()
            for dname in reach:
                want_names |= BASE_UNITS_BY_DIM[dname]
            eng.prove({str(uu) for uu in q.compatible_units(*args)} - {"kku"} == want_names, "per-call:Quantity.compatible_units")
            eng.prove({str(uu) for uu in ureg.Unit("m").compatible_units(*args)} - {"kku"} == want_names, "per-call:Unit.compatible_units")
        try:
            q.to("s")
        except DimensionalityError:
            eng.prove(True, "per-call:nothing-left-active")
        else:
            eng.fail("per-call:context-left-active")
    elif form == "decorator":
        if len(stack) != 1 or stack[0][0] == "c5":
            return
        c, wn = stack[0]

        @ureg.with_context(c, **({"n": nv} if wn else {}))
        def f():
            probe(eng, ureg, model, x, "decorator")

        f()
    # everything is back to normal afterwards
    probe(eng, ureg, Model(W), x, "after", False)


# ----------------------------------------------------------------------------- contexts built in code


def h_programmatic(eng, endpoints, act, second):
    """a Context built with add_transformation (endpoints written as derived dimension names,
    base-dimension expressions or containers) applies its rule on the very first activation,
    whichever way it is activated and whether or not that activation carries parameters"""
    from pint import Context
    from pint.util import UnitsContainer

    k, n0, nv, x = eng.real("k"), eng.real("n0"), eng.real("nv"), eng.real("x")
    for v in (k, n0, nv):
        eng.assume(v > 0)
    eng.assume(Not(Eq(n0, nv)))
    L = eng.lit
    lines = ["m = [length]", "s = [time]", "g = [mass]", "[frequency] = 1 / [time]", "[speed] = [length] / [time]", "hz = 1 / s", "kn = m / s",
             f"@context(q={L(nv, paren=False)}) outer", "    [mass] -> [time]: value * q * s / g", "@end"]
    ureg = regs.build(eng, lines)
    src_spec, dst_spec = {
        "derived": ("[length]", "[frequency]"),
        "derived-both": ("[speed]", "[frequency]"),
        "base-expr": ("[length]", "1 / [time]"),
        "container": (UnitsContainer({"[length]": 1}), UnitsContainer({"[time]": -1})),
    }[endpoints]
    src_unit = "kn" if endpoints == "derived-both" else "m"
    c = Context("p", defaults={"n": n0})

    def fwd(ureg_, value, n=None, **kw):
        return value * k * n * ureg_.Quantity(1, "hz") / ureg_.Quantity(1, src_unit)

    c.add_transformation(src_spec, dst_spec, fwd)
    # "A>B": the first activation in form A, the second in form B
    acts = act.split(">") if ">" in act else [act, act]
    if acts != ["per-call-object", "per-call-object"]:
        ureg.add_context(c)
    q = ureg.Quantity(x, src_unit)

    def once(tag, act):
        want_n = None
        try:
            if act == "per-call-object":
                r, want_n = q.to("hz", c, n=nv), nv
            elif act == "per-call-name":
                r, want_n = q.to("hz", "p", n=nv), nv
            elif act == "per-call-default":
                r, want_n = q.to("hz", "p"), n0
            elif act == "ito-kw":
                r = ureg.Quantity(x, src_unit)
                r.ito("hz", "p", n=nv)
                want_n = nv
            elif act == "ito-default":
                r = ureg.Quantity(x, src_unit)
                r.ito("hz", "p")
                want_n = n0
            elif act == "ito-kw-inside-block":
                with ureg.context("p", n=n0 + nv):
                    r = ureg.Quantity(x, src_unit)
                    r.ito("hz", "p", n=nv)
                want_n = nv
            elif act == "with-kw":
                with ureg.context("p", n=nv):
                    r, want_n = q.to("hz"), nv
            elif act == "with-default":
                with ureg.context("p"):
                    r, want_n = q.to("hz"), n0
            elif act == "nested-inherits":
                # the enclosing context carries a parameter (q): the inner one is activated
                # with inherited keyword arguments although none is written
                with ureg.context("outer"):
                    with ureg.context("p"):
                        r, want_n = q.to("hz"), n0
            elif act == "enable-kw":
                ureg.enable_contexts("p", n=nv)
                try:
                    r, want_n = q.to("hz"), nv
                finally:
                    ureg.disable_contexts()
            else:
                raise AssertionError(act)
        except DimensionalityError:
            eng.fail(f"{tag}:rule-not-applied")
            return
        eng.prove(Eq(r.magnitude, x * k * want_n), f"{tag}:value")
        try:
            q.to("hz")
        except DimensionalityError:
            eng.prove(True, f"{tag}:inactive-afterwards")
        else:
            eng.fail(f"{tag}:still-active-afterwards")

    once("first", acts[0])
    if second:
        once("second", acts[1])
        if acts[0] != acts[1]:
            once("third", acts[0])


def h_offset_redefinition(eng, form):
    """a context that redefines an offset unit: the unit's difference unit (delta_), which the
    registry derives from it, follows the redefinition while the context is active"""
    from pint import Context

    s0, x, y = eng.real("s0"), eng.real("x"), eng.real("y")
    eng.assume(s0 > 0)
    L = eng.lit
    ureg = regs.build(eng, ["kel = [temp]", "s = [time]", "kk- = 1000", f"degA = {L(s0)} * kel; offset: 100 = dA", "@context cR", "    degA = 7 * kel; offset: 123", "@end"])
    cprog = Context("cP")
    cprog.redefine("degA = 7 * kel; offset: 123")
    ureg.add_context(cprog)
    name = {"text": "cR", "programmatic": "cP"}[form]
    Qy = ureg.Quantity

    def probe(scale, off, tag):
        P = eng.prove
        P(Eq(Qy(x, "degA").to("kel").magnitude, scale * x + off), f"offset-redefinition:{form}:{tag}:absolute")
        P(Eq(Qy(x, "delta_degA").to("kel").magnitude, scale * x), f"offset-redefinition:{form}:{tag}:delta-unit")
        P(Eq(Qy(x, "degA/s").to("kel/s").magnitude, scale * x), f"offset-redefinition:{form}:{tag}:delta-in-compound")
        d = Qy(x, "degA") - Qy(y, "degA")
        P(Eq(d.to("kel").magnitude, scale * (x - y)), f"offset-redefinition:{form}:{tag}:difference-of-two")
        P(Eq(Qy(x, "kkdelta_degA").to("kel").magnitude, 1000 * scale * x), f"offset-redefinition:{form}:{tag}:prefixed-delta")

    probe(s0, 100, "before")
    with ureg.context(name):
        probe(7, 123, "inside")
    probe(s0, 100, "after")
    ureg.enable_contexts(name)
    probe(7, 123, "enabled")
    ureg.disable_contexts()
    probe(s0, 100, "disabled")


def h_anonymous_redefinitions(eng, order):
    """contexts built in code that carry unit redefinitions: different context objects (unnamed,
    or with the same name) never share what was computed for one another, and a redefinition
    added after a first activation is honoured by the next one"""
    from pint import Context

    su, x = eng.real("su"), eng.real("x")
    eng.assume(su > 0)
    # (Context.redefine reads its text with the default numeric type, not the registry's: the
    # redefinition factors are concrete integers)
    ka, kb, kc = 7, 11, 13
    for v in (ka, kb, kc):
        eng.assume(Not(Eq(su, v)))
    L = lambda v: eng.lit(v) if not isinstance(v, int) else str(v)  # noqa: E731
    ureg = regs.build(eng, ["m = [length]", "s = [time]", "kk- = 1000", f"u = {L(su)} * m", "w = 3 * u"])
    ca, cb = Context(), Context()
    ca.redefine(f"u = {L(ka)} * m")
    cb.redefine(f"u = {L(kb)} * m")

    def w2m():
        return ureg.Quantity(x, "w").to("m").magnitude, ureg.Quantity(x, "kku").to("m").magnitude, ureg.get_root_units("w")[0]

    def expect(k, tag):
        a, b, c = w2m()
        eng.prove(Eq(a, 3 * k * x), tag + ":w->m")
        eng.prove(Eq(b, 1000 * k * x), tag + ":kku->m")
        eng.prove(Eq(c, 3 * k), tag + ":root(w)")

    seq = {"ab": [(ca, ka), (cb, kb), (ca, ka)], "ba": [(cb, kb), (ca, ka), (cb, kb)]}[order]
    expect(su, "before")
    for i, (ctx, k) in enumerate(seq):
        with ureg.context(ctx):
            expect(k, f"anonymous-context-{i}")
        expect(su, f"after-anonymous-context-{i}")
    # nested: the inner redefinition wins, the outer one is back afterwards
    with ureg.context(ca):
        with ureg.context(cb):
            expect(kb, "nested-inner")
        expect(ka, "nested-outer-again")
    # a redefinition added to a context that has been active before
    ca.redefine(f"w = {L(kc)} * m")
    with ureg.context(ca):
        a = ureg.Quantity(x, "w").to("m").magnitude
        b = ureg.Quantity(x, "u").to("m").magnitude
        eng.prove(And(Eq(a, kc * x), Eq(b, ka * x)), "redefinition-added-after-first-activation")
    expect(su, "final")
    # enable_contexts / disable_contexts with the same objects
    ureg.enable_contexts(cb)
    expect(kb, "enabled-b")
    ureg.disable_contexts()
    ureg.enable_contexts(ca)
    a = ureg.Quantity(x, "u").to("m").magnitude
    eng.prove(Eq(a, ka * x), "enabled-a-after-b")
    ureg.disable_contexts()
    expect(su, "all-disabled")


# ----------------------------------------------------------------------------- path search


def _bfs(graph, start, end):
    if start == end:
        return 0
    dist = {start: 0}
    dq = deque([start])
    while dq:
        n = dq.popleft()
        for m in graph.get(n, ()):
            if m not in dist:
                dist[m] = dist[n] + 1
                if m == end:
                    return dist[m]
                dq.append(m)
    return None


def h_graphs(eng, n, first_row):
    """every directed graph on n nodes whose first adjacency row is fixed (the rest is symbolic)"""
    graph = {i: set() for i in range(n)}
    for j, bit in enumerate(first_row):
        if bit:
            graph[0].add(j + 1)
    for i in range(1, n):
        for j in range(n):
            if i != j and bool(eng.boolean(f"e{i}{j}")):
                graph[i].add(j)
    import collections

    g = collections.defaultdict(set)
    for k, v in graph.items():
        if v:
            g[k] = set(v)
    for end in range(n):
        want = _bfs(graph, 0, end)
        path = find_shortest_path(g, 0, end) if (0 in g or end == 0) else (find_shortest_path(g, 0, end) if False else _safe_path(g, 0, end))
        if want is None:
            eng.prove(path is None, f"path-none-when-unreachable:{end}")
        else:
            eng.prove(path is not None, f"path-found-when-reachable:{end}")
            if path is not None:
                eng.prove(path[0] == 0 and path[-1] == end, f"path-endpoints:{end}")
                eng.prove(all(b in graph[a] for a, b in zip(path, path[1:])), f"path-follows-edges:{end}")
                eng.prove(len(path) - 1 == want, f"path-is-shortest:{end}")
    reach = {k for k in range(n) if _bfs(graph, 0, k) is not None}
    got = find_connected_nodes(g, 0)
    if 0 in g:
        eng.prove(got == reach, "connected-nodes=reachable")
    else:
        eng.prove(got is None, "connected-nodes-none-for-isolated-start")


def _safe_path(g, a, b):
    try:
        return find_shortest_path(g, a, b)
    except KeyError:
        return "KeyError"


MIN_DISCHARGED = {"H11.a": 150, "H11.b": 1000, "H11.c": 5000, "H11.d": 50}


def cases(tier, seed):
    big = tier == "thorough"
    rnd = random.Random(f"c11:{seed}")
    out = []
    mixed = {"hash_mode": "mixed", "max_paths": 400}
    for i, (ctx, chain, src, dst, params) in enumerate(BUNDLED):
        out.append(Case("H11.a", f"{ctx}:{src}->{dst}", M, "h_bundled", {"ctx": ctx, "chain": [list(c) for c in chain], "src": src, "dst": dst, "params": params}, opts=mixed, validate=1, weight=3.0))
    for ctx, src, dst in [("Gaussian", "franklin", "coulomb"), ("Gaussian", "ampere", "statampere"), ("Gaussian", "gauss", "tesla"), ("Gaussian", "ohm", "statohm"), ("ESU", "stattesla", "tesla"), ("ESU", "weber", "statweber")]:
        out.append(Case("H11.a-gaussian", f"{ctx}:{src}->{dst}", M, "h_gaussian", {"ctx": ctx, "src": src, "dst": dst}, opts=mixed, validate=0))
    # generated: stacks up to 3 x forms
    ctxs = [("c1", False), ("c1", True), ("c2", False), ("c3", False), ("c4", False), ("c5", False)]
    stacks = [[c] for c in ctxs] + [list(s) for s in itertools.product(ctxs, repeat=2)]
    triples = [list(s) for s in itertools.product(ctxs, repeat=3)]
    stacks += triples if big else rnd.sample(triples, 40)
    forms = ["enable-each", "enable-alias", "nested-with", "per-call", "decorator"]
    for st in stacks:
        for form in forms:
            if form == "decorator" and len(st) != 1:
                continue
            if not big and len(st) == 3 and form not in ("nested-with", "per-call"):
                continue
            sig = "+".join(c + ("(n)" if wn else "") for c, wn in st) + ":" + form
            out.append(Case("H11.b", sig, M, "h_forms", {"stack": [list(s) for s in st], "form": form}, opts=mixed, validate=1 if len(st) == 1 else 0, weight=float(len(st))))
    for ep in ("derived", "derived-both", "base-expr", "container"):
        for act in ("per-call-object", "per-call-name", "per-call-default", "with-kw", "with-default", "nested-inherits", "enable-kw", "ito-kw", "ito-default", "ito-kw-inside-block"):
            out.append(Case("H11.d", f"{ep}:{act}", M, "h_programmatic", {"endpoints": ep, "act": act, "second": True}, opts=mixed, validate=1))
    all_acts = ("per-call-object", "per-call-name", "per-call-default", "with-kw", "with-default", "nested-inherits", "enable-kw")
    for ep in ("derived", "derived-both", "base-expr", "container") if big else ("derived", "derived-both"):
        for a1, a2 in itertools.permutations(all_acts, 2):
            out.append(Case("H11.d", f"{ep}:{a1}>{a2}", M, "h_programmatic", {"endpoints": ep, "act": f"{a1}>{a2}", "second": True}, opts=mixed, validate=1 if (a1, a2) in (("with-kw", "with-default"), ("enable-kw", "per-call-default")) else 0))
    for form in ("text", "programmatic"):
        out.append(Case("H11.d", f"offset-redefinition:{form}", M, "h_offset_redefinition", {"form": form}, opts=mixed, validate=1))
    for order in ("ab", "ba"):
        out.append(Case("H11.d", f"anonymous-redefinitions:{order}", M, "h_anonymous_redefinitions", {"order": order}, opts=mixed, validate=1))
    # path search: all graphs with 4 nodes (first row enumerated by cases, the rest by forks)
    for n in (3, 4):
        for row in itertools.product([0, 1], repeat=n - 1):
            out.append(Case("H11.c", f"n={n}:row0={''.join(map(str, row))}", M, "h_graphs", {"n": n, "first_row": list(row)}, opts={"max_paths": 5000}, validate=2, weight=10.0))
    return out
