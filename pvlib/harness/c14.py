"""C14 -- systems and groups select base units and members exactly as declared."""

from __future__ import annotations

import itertools
import random
from fractions import Fraction

import pint
from pint.errors import DimensionalityError

from .. import covers, regs
from ..ref import refdefs
from ..runner import Case
from ..sx.q import And, Eq, Not

PROPERTY = "C14"
M = "pvlib.harness.c14"

META = {
    "explanation": "get_base_units / to_base_units of the real registry under every declared system on a symbolic magnitude: the result is proved to preserve the root magnitude for all magnitudes "
    "and to mention only the system's declared base units plus unreplaced root units (independent reader); generated systems with both rule forms and symbolic scales; group/system membership "
    "closure on generated group graphs whose edges and memberships are symbolic booleans, before and after every kind of edit, against a reference transitive closure.",
    "functions_encoded": [
        "pint/facets/system/registry.py::_get_base_units, get_base_units, default_system setter, _get_compatible_units, get_compatible_units, sys",
        "pint/facets/system/objects.py::System.from_definition, members, add_groups, remove_groups, invalidate_members, __getattr__; Lister",
        "pint/facets/group/objects.py::Group.members, invalidate_members, iter_used_groups, add_units, remove_units, add_groups (cycle check), remove_groups",
        "pint/facets/group/registry.py::_get_compatible_units, _after_init (default group)",
        "pint/facets/plain/quantity.py::to_base_units, ito_base_units",
    ],
    "bounds": {"H14.a": "canonical exact units (quick: seeded 120, thorough: all) x systems None, SI, mks, cgs, imperial, US (atomic, Planck: units only, their factors are float-valued)", "H14.b": "generated systems: rule forms 'new' and 'new:old', new units with exponents in {1,2,-1} over two root units, symbolic scales", "H14.c": "3 groups + 1 system over 4 units; 'using' edges and memberships symbolic booleans; one edit of each kind"},
    "enumerated_axes": [{"axis": "unit x system", "exhaustive": False}, {"axis": "group graphs (edges, memberships)", "exhaustive": True}],
    "outside_claim": ["numeric value under atomic/Planck systems (float powers)", "group graphs with more than 3 groups"],
}

SYSTEMS = ["SI", "mks", "cgs", "imperial", "US", "atomic", "Planck"]


def _allowed_units(d, system):
    """units a result may mention: the declared base units of the system plus root units"""
    roots = {n for n, u in d.units.items() if u.is_base}
    if system is None:
        return roots, {}
    replaced = {}
    for new, old in d.systems[system]["rules"]:
        v = d.value(d.spellings.get(new, new)) if new in d.spellings else d.value_of_spelling(new)
        if old is None:
            (root, e), = v.units
            replaced[root] = new
        else:
            replaced[old] = new
    replaced = {r: n for r, n in replaced.items() if d.spellings.get(n, n) != r}
    return (roots - set(replaced)) | set(replaced.values()), replaced


def h_units_systems(eng, names, system):
    ureg = regs.default(eng)
    d = refdefs.default()
    inf = covers.infos()
    if system is None:
        ureg.default_system = None  # no system at all: base units are the root units
    allowed, replaced = _allowed_units(d, system)
    inexact_system = system in ("atomic", "Planck")
    for i, n in enumerate(names):
        x = eng.real(f"x{i}")
        info = inf[n]
        f, bu = ureg.get_base_units(n, system=system)
        got = set(bu._units)
        eng.prove(got <= allowed, f"only-system-base-units:{n}")
        # every replaced root dimension is expressed in the system's unit
        eng.prove(not (got & set(replaced)), f"no-replaced-root-unit:{n}")
        eng.prove(dict(ureg.get_dimensionality(bu)) == dict(ureg.get_dimensionality(n)), f"dimensionality-kept:{n}")
        if not inexact_system and not info.inexact:
            bq = ureg.Quantity(f * x, bu)
            eng.prove(Eq(bq.to_root_units().magnitude, x * info.num), f"value-kept:{n}")
        # idempotent
        f2, bu2 = ureg.get_base_units(bu, system=system)
        eng.prove(bu2 == bu, f"idempotent-units:{n}")
        if not inexact_system and not info.inexact:
            eng.prove(Eq(f2, 1), f"idempotent-factor:{n}")


def h_default_system_switch(eng, n, s1, s2):
    """changing the default system takes effect immediately, in both directions"""
    ureg = regs.default(eng)
    x = eng.real("x")
    q = ureg.Quantity(x, n)
    ureg.default_system = s1
    a1 = q.to_base_units()
    e1 = ureg.get_base_units(n, system=s1)
    ureg.default_system = s2
    a2 = q.to_base_units()
    e2 = ureg.get_base_units(n, system=s2)
    ureg.default_system = s1
    a3 = q.to_base_units()
    eng.prove(a1.units == e1[1] and Eq(a1.magnitude, x * e1[0]), "first-system")
    eng.prove(a2.units == e2[1] and Eq(a2.magnitude, x * e2[0]), "second-system-immediately")
    eng.prove(a3.units == a1.units and Eq(a3.magnitude, a1.magnitude), "back-to-first-system")
    # explicit system argument does not disturb the default
    ureg.get_base_units(n, system=s2)
    a4 = q.to_base_units()
    eng.prove(a4.units == a1.units and Eq(a4.magnitude, a1.magnitude), "explicit-system-query-does-not-leak")
    q2 = ureg.Quantity(x, n)
    q2.ito_base_units()
    eng.prove(q2.units == a1.units and Eq(q2.magnitude, a1.magnitude), "ito_base_units-equals-to_base_units")


# ----------------------------------------------------------------------------- generated systems


def h_generated_system(eng, form):
    s1, s2, s3 = eng.real("s1"), eng.real("s2"), eng.real("s3")
    for s in (s1, s2, s3):
        eng.assume(s > 0)
    L = eng.lit
    lines = [
        "m = [length]",
        "t = [time]",
        "g = [mass]",
        f"speedy = {L(s3)} * m / t",
        "area2 = 4 * m ** 2 * t",  # concrete scale: its square root is float arithmetic
        "@group G",
        f"    ft = {L(s1)} * m",
        f"    hr = {L(s2)} * t",
        "@end",
    ]
    rules = {
        "simple": ["    ft", "    hr"],
        "replace": ["    ft : m", "    hr"],
        "compound": ["    speedy : m", "    hr"],
        "compound2": ["    area2 : m", "    t"],
    }[form]
    lines += ["@system S using G"] + rules + ["@end"]
    ureg = regs.build(eng, lines)
    x = eng.real("x")
    want = {
        # unit -> (expected base units, factor from root to that base expression)
        "simple": {"m": ({"ft": 1}, 1 / s1), "t": ({"hr": 1}, 1 / s2)},
        "replace": {"m": ({"ft": 1}, 1 / s1), "t": ({"hr": 1}, 1 / s2)},
        # speedy = s3 m/t  =>  m = speedy * t / s3 ; with t -> hr:  m = speedy * hr * s2 / s3 ... value factor below
        "compound": {"m": ({"speedy": 1, "hr": 1}, 1 / (s3 * s2)), "t": ({"hr": 1}, 1 / s2)},
        # area2 = s3 m^2 t  =>  m = area2^(1/2) t^(-1/2) s3^(-1/2): irrational scale, units only
        "compound2": {"m": ({"area2": Fraction(1, 2), "t": Fraction(-1, 2)}, None), "t": ({"t": 1}, 1)},
    }[form]
    for unit in ("m", "t", "ft", "speedy"):
        # expected: expand unit in roots, then substitute
        exp_units = {}
        roots = {"m": {"m": 1}, "t": {"t": 1}, "ft": {"m": 1}, "speedy": {"m": 1, "t": -1}}[unit]
        rootfac = {"m": 1, "t": 1, "ft": s1, "speedy": s3}[unit]
        fac = rootfac
        ok_value = True
        for r, e in roots.items():
            bu, f = want[r]
            for k, v in bu.items():
                exp_units[k] = exp_units.get(k, 0) + v * e
            if f is None:
                ok_value = False
            else:
                fac = fac * f**e
        exp_units = {k: v for k, v in exp_units.items() if v != 0}
        try:
            f, bu = ureg.get_base_units(unit, system="S")
        except DimensionalityError:
            eng.fail(f"get_base_units-raises:{form}:{unit}")
        got = {k: (v.c if hasattr(v, "c") else Fraction(v)) for k, v in bu._units.items()}
        if form == "compound" and got != {k: Fraction(v) for k, v in exp_units.items()} and "t" in got:
            # known defect K3: a root unit introduced by one replacement is not itself replaced
            eng.fail(f"system-substitution-not-transitive:{form}:{unit}")
        eng.prove(got == {k: Fraction(v) for k, v in exp_units.items()}, f"system-base-units:{form}:{unit}")
        if ok_value:
            eng.prove(Eq(f, fac), f"system-factor:{form}:{unit}")
        eng.prove(dict(ureg.get_dimensionality(bu)) == dict(ureg.get_dimensionality(unit)), f"system-dimensionality:{form}:{unit}")


# ----------------------------------------------------------------------------- membership closure

UNITS4 = ["ua", "ub", "uc", "ud"]


def h_membership(eng, edit, pre="all", order="by-user"):
    """3 groups G0..G2 ('using' edges i -> j for i < j) and a system over 4 units; every
    membership and edge is a symbolic boolean; one edit, then the closure again.  ``pre`` says
    which answers were read (and so memoised) before the edit: invalidation must not depend on
    what happened to be computed earlier."""
    lines = ["ua = [da]", "ub = [db]", "uc = [dc]", "ud = [dd]", "@system S", "@end"]
    ureg = pint.UnitRegistry(lines, non_int_type=eng.ntype)
    G = [ureg.Group(f"G{i}") for i in range(3)]
    mem = {i: set() for i in range(3)}
    uses = {i: set() for i in range(3)}
    # memberships: group i gets unit k
    plan = {0: ["ua", "ub"], 1: ["ub", "uc"], 2: ["uc", "ud"]}
    for i in range(3):
        for u in plan[i]:
            if bool(eng.boolean(f"m{i}{u}")):
                G[i].add_units(u)
                mem[i].add(u)
    # (order of the 'using' edges: by user, or the chain G0 -> G1 -> G2 first and the direct edge
    # G0 -> G2 last, when G2 is already reachable from G0)
    for i, j in ((0, 1), (0, 2), (1, 2)) if order == "by-user" else ((0, 1), (1, 2), (0, 2)):
        if bool(eng.boolean(f"e{i}{j}")):
            G[i].add_groups(f"G{j}")
            uses[i].add(j)
    S = ureg.get_system("S")
    S.remove_groups("root")  # a system declared without 'using' starts with the root group
    sys_groups = set()
    for i in (0, 1):
        if bool(eng.boolean(f"s{i}")):
            S.add_groups(f"G{i}")
            sys_groups.add(i)

    def closure(i, seen=None):
        seen = seen or set()
        out = set(mem[i])
        for j in uses[i]:
            if j not in seen:
                out |= closure(j, seen | {i})
        return out

    def check(tag, what="all"):
        want = set()
        for i in sys_groups:
            want |= closure(i)
        if what in ("all", "G0", "G1"):
            for i in range(3):
                if what == "all" or what == f"G{i}":
                    eng.prove(set(G[i].members) == closure(i), f"{tag}:group-members-G{i}")
        if what in ("all", "S"):
            eng.prove(set(S.members) == want, f"{tag}:system-members")
        # restricted compatible units = members of the group/system in that dimension
        if what in ("all", "compat"):
            for u in UNITS4:
                got = {str(x) for x in ureg.get_compatible_units(u, "G0")}
                eng.prove(got == ({u} & closure(0)), f"{tag}:compatible-in-group:{u}")
                got = {str(x) for x in ureg.get_compatible_units(u, "S")}
                eng.prove(got == ({u} & want), f"{tag}:compatible-in-system:{u}")
                eng.prove(set(ureg.Unit(u).systems) == ({"S"} if u in want else set()), f"{tag}:Unit.systems:{u}")

    if pre != "none":
        check("before", pre)  # also forces the memoised members
    kind, a, b = edit
    if kind == "add_units":
        G[a].add_units(b)
        mem[a].add(b)
    elif kind == "remove_units":
        if b not in mem[a]:
            return
        G[a].remove_units(b)
        mem[a].discard(b)
    elif kind == "add_groups":
        if b in uses[a]:
            return
        # cyclic additions must be refused
        if a > b:
            reaches = a in _reach(uses, b)
            try:
                G[a].add_groups(f"G{b}")
            except ValueError:
                eng.prove(reaches, "cycle-refused-only-when-cyclic")
                check("after-refused")
                return
            eng.prove(not reaches, "cycle-accepted-only-when-acyclic")
        else:
            G[a].add_groups(f"G{b}")
        uses[a].add(b)
    elif kind == "remove_groups":
        if b not in uses[a]:
            return
        G[a].remove_groups(f"G{b}")
        uses[a].discard(b)
    elif kind == "system_add":
        S.add_groups(f"G{a}")
        sys_groups.add(a)
    elif kind == "system_remove":
        if a not in sys_groups:
            return
        S.remove_groups(f"G{a}")
        sys_groups.discard(a)
    check("after")


def h_membership_text(eng, sep):
    """the same closure when groups, 'using' lists and the system are written in a definition
    file; the names in a 'using' list are separated by a comma with any blanks around it"""
    base = {"ga": "ua", "gb": "ub", "gc": "uc", "gd": "ud"}
    plan = {0: ["ga", "gb"], 1: ["gb2", "gc"], 2: ["gc2", "gd"]}
    mem = {i: {u for u in plan[i] if bool(eng.boolean(f"m{i}{u}"))} for i in range(3)}
    uses = {i: {j for j in range(i + 1, 3) if bool(eng.boolean(f"e{i}{j}"))} for i in range(3)}
    sys_groups = {i for i in range(3) if bool(eng.boolean(f"s{i}"))}
    lines = ["ua = [da]", "ub = [db]", "uc = [dc]", "ud = [dd]"]
    for i in (2, 1, 0):
        head = f"@group G{i}" + (" using " + sep.join(f"G{j}" for j in sorted(uses[i])) if uses[i] else "")
        lines += [head] + [f"    {u} = {i + 2} * {base[u[:2]]}" for u in sorted(mem[i])] + ["@end"]
    lines += ["@system S" + (" using " + sep.join(f"G{j}" for j in sorted(sys_groups)) if sys_groups else ""), "@end"]
    ureg = pint.UnitRegistry(lines, non_int_type=eng.ntype)

    def closure(i):
        out = set(mem[i])
        for j in uses[i]:
            out |= closure(j)
        return out

    everything = set(base.values()) | set().union(*mem.values())
    want = set()
    for i in sys_groups:
        want |= closure(i)
    if not sys_groups:
        want = everything  # a system declared without 'using' uses the root group
    for i in range(3):
        eng.prove(set(ureg.get_group(f"G{i}").members) == closure(i), f"text:group-members-G{i}")
    eng.prove(set(ureg.get_system("S").members) == want, "text:system-members")
    for u in sorted(everything):
        got = {str(x) for x in ureg.get_compatible_units(u, "S")}
        dim_mates = {m for m in everything if base.get(m[:2], m) == base.get(u[:2], u)}
        eng.prove(got == (dim_mates & want), f"text:compatible-in-system:{u}")
        eng.prove(set(ureg.Unit(u).systems) == ({"S"} if u in want else set()), f"text:Unit.systems:{u}")
    eng.prove(set(dir(ureg.sys.S)) >= want, "text:sys-attributes")


def h_failed_system_declaration(eng, where):
    """a @system block that is refused (a rule naming a unit that is not a root unit) leaves no
    system behind: not selectable, not listed, and the corrected block is accepted afterwards"""
    sf, sl, x = eng.real("sf"), eng.real("sl"), eng.real("x")
    eng.assume(sf > 0)
    eng.assume(sl > 0)
    L = eng.lit
    base = ["m = [length]", "s = [time]", "g = [mass]", f"ft = {L(sf)} * m", f"lb = {L(sl)} * g", "@group G", "    yd = 3 * ft", "@end", "@system good using G", "    ft", "@end"]
    rules = {"first": ["    lb : ft", "    ft"], "second": ["    ft", "    lb : ft"], "only": ["    lb : ft"]}[where]
    bad = ["@system W using G"] + rules + ["@end"]
    ureg = pint.UnitRegistry(base, non_int_type=eng.ntype)
    try:
        ureg.define("\n".join(bad))
    except ValueError:
        eng.prove(True, f"{where}:bad-system-refused")
    else:
        eng.fail(f"{where}:bad-system-accepted")
    eng.prove("W" not in dir(ureg.sys), f"{where}:not-listed")
    try:
        ureg.default_system = "W"
    except (ValueError, KeyError):
        eng.prove(True, f"{where}:not-selectable")
    else:
        eng.fail(f"{where}:half-built-system-selectable", stop=False)
        ureg.default_system = None
    try:
        ureg.get_base_units("ft", system="W")
    except (ValueError, KeyError):
        eng.prove(True, f"{where}:explicit-system-query-refused")
    else:
        eng.fail(f"{where}:half-built-system-answers", stop=False)
    eng.prove(set(ureg.Unit("yd").systems) == {"good"}, f"{where}:Unit.systems-unaffected")
    # the corrected declaration is accepted and works
    ureg.define("\n".join(["@system W using G", "    ft", "    lb", "@end"]))
    f, bu = ureg.get_base_units("m", system="W")
    eng.prove(str(bu) == "ft" and Eq(f, 1 / sf), f"{where}:corrected-declaration-works")
    f, bu = ureg.get_base_units("g", system="W")
    eng.prove(str(bu) == "lb" and Eq(f, 1 / sl), f"{where}:corrected-declaration-second-rule")
    eng.prove(set(ureg.get_system("W").members) == {"yd"}, f"{where}:corrected-declaration-members")


def h_late_group(eng, how):
    """a system may name a group that is declared later: once the group exists and has units,
    the system's members, restricted listings and Unit.systems include them -- whatever was read
    (and memoised) before"""
    base = ["m = [length]", "s = [time]", "ft = 3 * m", "minute = 60 * s", "@system S using Late", "    ft", "@end", "@group Early", "    yd = 3 * ft", "@end"]
    for pre in ("nothing", "system-members", "compatible", "all"):
        ureg = pint.UnitRegistry(base, non_int_type=eng.ntype)
        if pre in ("system-members", "all"):
            set(ureg.get_system("S").members)
        if pre in ("compatible", "all"):
            ureg.get_compatible_units("m", "S")
            ureg.Unit("yd").systems
        if how == "api":
            g = ureg.get_group("Late")
            g.add_units("yd")
            ureg.define("furl = 660 * ft")
            g.add_units("furl")
        elif how == "text-using":
            ureg.define("@group Late using Early\n    furl = 660 * ft\n@end")
        else:
            ureg.define("@group Late\n    furl = 660 * ft\n    yd2 = 3 * ft\n@end")
        want = {"api": {"yd", "furl"}, "text-using": {"yd", "furl"}, "text": {"furl", "yd2"}}[how]
        eng.prove(set(ureg.get_system("S").members) == want, f"late-group:{how}:pre={pre}:system-members")
        eng.prove(all("S" in ureg.Unit(u).systems for u in want), f"late-group:{how}:pre={pre}:Unit.systems")
        # (units that arrive through define() are missing from every compatible-unit listing: known
        # finding K4; the listings are compared on the units that existed from the start)
        old_units = want & {"yd"}
        eng.prove({str(u) for u in ureg.get_compatible_units("m", "S")} & {"yd", "ft", "m"} == old_units, f"late-group:{how}:pre={pre}:compatible-in-system")
        ureg.default_system = "S"
        eng.prove({str(u) for u in ureg.get_compatible_units("m")} & {"yd", "ft", "m"} == old_units, f"late-group:{how}:pre={pre}:compatible-under-default-system")


def h_root_group_listing(eng):
    """a compatible-unit query restricted to the group 'root' lists the members of root, like a
    query restricted to any other group"""
    ureg = pint.UnitRegistry(non_int_type=eng.ntype)
    root = ureg.get_group("root")
    for probe in ("kelvin", "meter", "second", "gram", "radian", "joule"):
        everything = {str(u) for u in ureg.get_compatible_units(probe, "")} if False else None
        got = {str(u) for u in ureg.get_compatible_units(probe, "root")}
        eng.prove(got <= set(root.members), f"root-group-listing:{probe}:only-members-of-root")
        ureg.default_system = None
        unrestricted = {str(u) for u in ureg.get_compatible_units(probe)}
        ureg.default_system = "mks"
        eng.prove(got == unrestricted & set(root.members), f"root-group-listing:{probe}:exactly-the-compatible-members")
        del everything
    ureg.get_group("international").remove_units("angstrom")
    root.remove_units("angstrom")
    eng.prove("angstrom" not in {str(u) for u in ureg.get_compatible_units("meter", "root")}, "root-group-listing:unit-removed-from-root-is-not-listed")


def h_group_edit_failures(eng):
    """an edit that is refused part-way leaves the memoised members in step with what was
    actually changed; a group cannot use itself"""
    lines = ["ua = [da]", "ub = [db]", "uc = [dc]", "@group G0", "    ga = 2 * ua", "    gb = 2 * ub", "@end", "@group G1 using G0", "    gc = 2 * uc", "@end", "@system S using G1", "@end"]
    for pre in ("read", "unread"):
        ureg = pint.UnitRegistry(lines, non_int_type=eng.ntype)
        g0, g1, S = ureg.get_group("G0"), ureg.get_group("G1"), ureg.get_system("S")
        if pre == "read":
            set(g0.members), set(g1.members), set(S.members)
        try:
            g0.remove_units("ga", "nosuchunit")
        except KeyError:
            eng.prove(True, f"group-edit:{pre}:unknown-unit-refused")
        # whatever the call did to the group's own names, the memoised closures say the same
        own = set(g0._unit_names)
        eng.prove(set(g0.members) == own, f"group-edit:{pre}:members-follow-own-names-after-partial-removal")
        eng.prove(set(g1.members) == own | {"gc"} and set(S.members) == own | {"gc"}, f"group-edit:{pre}:users-follow-after-partial-removal")
        try:
            g0.add_groups("G0")
        except ValueError:
            eng.prove(True, f"group-edit:{pre}:self-cycle-refused")
        except RecursionError:
            eng.fail(f"group-edit:{pre}:self-cycle-recursion", stop=False)
        else:
            eng.fail(f"group-edit:{pre}:self-cycle-accepted", stop=False)
        eng.prove("G0" not in g0._used_groups, f"group-edit:{pre}:self-cycle-leaves-no-edge")
        try:
            g1.remove_groups("G0", "nosuchgroup")
        except KeyError:
            pass
        eng.prove(set(g1.members) == ({"gc"} | (own if "G0" in g1._used_groups else set())), f"group-edit:{pre}:members-follow-after-partial-group-removal")


def _reach(uses, i):
    seen = set()
    todo = [i]
    while todo:
        n = todo.pop()
        for j in uses[n]:
            if j not in seen:
                seen.add(j)
                todo.append(j)
    return seen


def h_default_membership(eng):
    """default registry: group and system members equal the independent reader's closure"""
    ureg = regs.default(eng)
    d = refdefs.default()
    for g in d.groups:
        got = set(ureg.get_group(g, False).members)
        want = d.group_members(g)
        # automatically generated delta units are in no declared group
        eng.prove({x for x in got if not x.startswith("delta_")} == want, f"group-members:{g}")
    for s in d.systems:
        got = set(ureg.get_system(s, False).members)
        eng.prove({x for x in got if not x.startswith("delta_")} == d.system_members(s), f"system-members:{s}")


def h_sys_attr(eng):
    """attribute access through a system resolves that system's variant of a unit name first"""
    lines = ["m = [length]", "kk- = 1000 = K-", "pt = 2 * m = pint_ = pnt", "US_pt = 3 * m = US_pint_ = US_pnt", "UK_pt = 5 * m = UKp_ = UK_pnt", "@system US", "    m", "@end", "@system UK", "    m", "@end"]
    ureg = pint.UnitRegistry(lines, non_int_type=eng.ntype)
    x = eng.real("x")
    eng.prove(str(ureg.sys.US.pt) == "US_pt", "sys.US.pt")
    eng.prove(str(ureg.sys.UK.pt) == "UK_pt", "sys.UK.pt")
    eng.prove(str(ureg.sys.US.m) == "m", "sys.US.m-falls-back")
    eng.prove(sorted(dir(ureg.sys)) == ["UK", "US"], "sys-lists-systems")
    # every spelling that the registry resolves for '<system>_<name>' reaches the variant: alias,
    # symbol, plural and prefixed forms (the registry parses the composed string)
    for sysname, scale, canon in (("US", 3, "US_pt"), ("UK", 5, "UK_pt")):
        sy = getattr(ureg.sys, sysname)
        eng.prove(str(sy.pnt) == canon, f"sys.{sysname}.alias")
        eng.prove(str(sy.pts) == canon, f"sys.{sysname}.plural")
        eng.prove(str(sy.pnts) == canon, f"sys.{sysname}.alias-plural")
        eng.prove(Eq((x * sy.pnt).to("m").magnitude, x * scale), f"sys.{sysname}.alias-value")
    eng.prove(str(ureg.sys.US.pint_) == "US_pt", "sys.US.symbol")
    # a name without a variant in that system falls back to the plain unit, whatever its spelling
    eng.prove(str(ureg.sys.UK.pint_) == "pt", "sys.UK.symbol-falls-back")
    eng.prove(str(ureg.sys.US.kkm) == "kkm" and Eq((x * ureg.sys.US.Km).to("m").magnitude, 1000 * x), "sys.US.prefixed-falls-back")


MIN_DISCHARGED = {"H14.a": 1500, "H14.b": 20, "H14.c": 3000}


def cases(tier, seed):
    big = tier == "thorough"
    rnd = random.Random(f"c14:{seed}")
    inf = covers.infos()
    out = []
    canon = sorted(n for n, i in inf.items() if i.kind in ("base", "mult", "dimensionless"))
    names = canon if big else sorted(set(rnd.sample(canon, 110) + covers.cover()))
    for system in [None] + SYSTEMS:
        for i in range(0, len(names), 30):
            out.append(Case("H14.a", f"{system}:{i:04d}", M, "h_units_systems", {"names": names[i : i + 30], "system": system}, validate=1, weight=3.0))
    for n in ["inch", "joule", "pound", "liter", "knot"] + (rnd.sample(canon, 15) if big else rnd.sample(canon, 3)):
        for s1, s2 in [("mks", "cgs"), ("SI", "imperial"), ("US", "mks"), ("cgs", "US")]:
            out.append(Case("H14.a-switch", f"{n}:{s1}->{s2}", M, "h_default_system_switch", {"n": n, "s1": s1, "s2": s2}, validate=1))
    for form in ("simple", "replace", "compound", "compound2"):
        out.append(Case("H14.b", form, M, "h_generated_system", {"form": form}, opts={"hash_mode": "mixed"}, validate=1))
    edits = [("add_units", 0, "ud"), ("add_units", 2, "ua"), ("add_units", 1, "ua"), ("remove_units", 1, "ub"), ("remove_units", 2, "uc"), ("add_groups", 0, 2), ("add_groups", 2, 0), ("add_groups", 1, 0), ("remove_groups", 0, 1), ("remove_groups", 1, 2), ("system_add", 2, None), ("system_remove", 0, None)]
    for e in edits:
        for pre in ("all", "G0", "S", "compat") + (("G1", "none") if big else ()):
            out.append(Case("H14.c", f"{e[0]}:{e[1]}:{e[2]}:pre={pre}", M, "h_membership", {"edit": list(e), "pre": pre}, opts={"max_paths": 5000}, validate=2 if pre == "all" else 0, weight=40.0))
    for e in (("remove_groups", 1, 2), ("remove_groups", 0, 1), ("remove_units", 1, "ub"), ("add_groups", 2, 0)):
        for pre in ("all", "none"):
            out.append(Case("H14.c", f"chain-first:{e[0]}:{e[1]}:{e[2]}:pre={pre}", M, "h_membership", {"edit": list(e), "pre": pre, "order": "chain-first"}, opts={"max_paths": 5000}, validate=0, weight=40.0))
    for sep in (", ", ",", " , ", ",  ", " ,") if big else (", ", ",", ",  "):
        out.append(Case("H14.c", f"text:sep={sep!r}", M, "h_membership_text", {"sep": sep}, opts={"max_paths": 5000}, validate=2, weight=40.0))
    for where in ("first", "second", "only"):
        out.append(Case("H14.b", f"failed-system-declaration:{where}", M, "h_failed_system_declaration", {"where": where}, opts={"hash_mode": "mixed"}, validate=1))
    out.append(Case("H14.c", "group-edit-failures", M, "h_group_edit_failures", {}, validate=1))
    out.append(Case("H14.c", "root-group-listing", M, "h_root_group_listing", {}, validate=1))
    for how in ("api", "text-using", "text"):
        out.append(Case("H14.c", f"late-group:{how}", M, "h_late_group", {"how": how}, validate=1))
    out.append(Case("H14.c-default", "members", M, "h_default_membership", {}, kind="conc"))
    out.append(Case("H14.d", "sys-attr", M, "h_sys_attr", {}, validate=1))
    out.append(Case("H14.obs", "observed", "pvlib.harness.observed", "h_c14", {}, kind="conc"))
    return out
