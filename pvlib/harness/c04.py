"""C04 -- units form a commutative group under *, /, ** with a canonical representation."""

from __future__ import annotations

import itertools
import random
from fractions import Fraction

from pint.util import ParserHelper, UnitsContainer, column_echelon_form, pi_theorem

from .. import covers, regs
from ..runner import Case
from ..sx.q import And, Eq, Iff, Implies, Not, Or

PROPERTY = "C04"
M = "pvlib.harness.c04"

META = {
    "explanation": "UnitsContainer / ParserHelper / Unit operators of the real code run on symbolic integer exponents. Algebraic laws are proved for all exponent "
    "values in the bound with exponents kept symbolic (equality decided by the real __eq__, whose value comparisons fork); hashing laws (hash equal whenever ==, no stale "
    "cached hash in derived copies) run with real hashes after solver-driven realisation of the exponents; column_echelon_form runs with symbolic matrix entries and "
    "is checked against an independent minor-based rank encoding.",
    "functions_encoded": [
        "pint/util.py::UnitsContainer.__mul__, __truediv__, __rtruediv__, __pow__, add, remove, rename, __copy__, __eq__, __hash__",
        "pint/util.py::ParserHelper.__mul__, __truediv__, __pow__, __eq__, __hash__, operate",
        "pint/facets/plain/unit.py::PlainUnit.__mul__, __truediv__, __rtruediv__, __pow__, __eq__, __hash__",
        "pint/facets/plain/registry.py::_get_dimensionality (homomorphism)",
        "pint/util.py::column_echelon_form, pi_theorem",
    ],
    "bounds": {
        "alphabet": "unit names a, b, c; containers with 0-3 entries",
        "exponents": "symbolic non-zero integers in [-2,2] (thorough: [-3,3] and half-integers)",
        "matrices": "column_echelon_form: 2x2, 2x3, 3x2, 3x3 with symbolic integer entries in [-2,2]; pi_theorem: entries realised from [-1,1] (2x3; thorough 3x3)",
    },
    "enumerated_axes": [{"axis": "container shapes over {a,b,c}", "exhaustive": True}, {"axis": "matrix shapes", "exhaustive": False}],
    "outside_claim": ["float exponents with cancellation error", "Decimal exponents"],
}

NAMES = ("a", "b", "c")


def _mk(eng, tag, shape, bound, half=False):
    d = {}
    for n in shape:
        e = eng.halfint(f"{tag}_{n}", -2 * bound, 2 * bound) if half else eng.integer(f"{tag}_{n}", -bound, bound)
        eng.assume(Not(Eq(e, 0)))
        d[n] = e
    return UnitsContainer(d, non_int_type=eng.ntype), d


def _exp(uc, n):
    return uc._d[n] if n in uc._d else 0


def _is(eng, uc, want, label):
    """container has exactly the exponents ``want`` (dict name -> term) and no zero entry"""
    for n in NAMES:
        eng.prove(Eq(_exp(uc, n), want.get(n, 0)), f"{label}:exponent-{n}")
    for n, v in list(uc._d.items()):
        eng.prove(Not(Eq(v, 0)), f"{label}:no-zero-entry-{n}")


def h_algebra(eng, su, sv, sw, bound, half):
    u, du = _mk(eng, "u", su, bound, half)
    v, dv = _mk(eng, "v", sv, bound, half)
    w, dw = _mk(eng, "w", sw, bound, half)
    snap = [dict(x._d) for x in (u, v, w)]
    g = lambda d, n: d.get(n, 0)
    uv = u * v
    _is(eng, uv, {n: g(du, n) + g(dv, n) for n in NAMES}, "mul")
    eng.prove(uv == v * u, "mul-commutative")
    eng.prove((u * v) * w == u * (v * w), "mul-associative")
    q = u / v
    _is(eng, q, {n: g(du, n) - g(dv, n) for n in NAMES}, "div")
    eng.prove(len(u / u) == 0, "u/u-empty")
    eng.prove((u / u) == UnitsContainer(non_int_type=eng.ntype), "u/u-dimensionless")
    eng.prove((u * v) / v == u, "mul-div-inverse")
    inv = 1 / u
    _is(eng, inv, {n: -g(du, n) for n in NAMES}, "rtruediv")
    z = u**0
    eng.prove(len(z) == 0, "u**0-empty")
    e = eng.integer("e", -2, 2)
    f = eng.integer("f", -2, 2)
    p = u**e
    _is(eng, p, {n: g(du, n) * e for n in NAMES}, "pow")
    eng.prove((u**e) ** f == u ** (e * f), "pow-pow")
    eng.prove((u * v) ** e == (u**e) * (v**e), "pow-distributes")
    # equality is exactly equality of all exponents
    same = And(*[Eq(g(du, n), g(dv, n)) for n in NAMES])
    eng.prove(Iff(u == v, same), "eq-iff-same-exponents")
    eng.prove(Iff(u != v, Not(same)), "ne-iff-different")
    # add / remove / rename / copy
    k = eng.integer("k", -2, 2)
    ad = u.add("a", k)
    _is(eng, ad, {n: g(du, n) + (k if n == "a" else 0) for n in NAMES}, "add")
    if su:
        rm = u.remove([su[0]])
        _is(eng, rm, {n: (0 if n == su[0] else g(du, n)) for n in NAMES}, "remove")
        if "c" not in su:
            rn = u.rename(su[0], "c")
            want = {n: g(du, n) for n in NAMES if n != su[0]}
            want["c"] = g(du, su[0])
            _is(eng, rn, want, "rename")
    cp = u.copy()
    eng.prove(cp == u and cp is not u and cp._d is not u._d, "copy-equal-and-unshared")
    # nothing mutated
    for x, s0, name in zip((u, v, w), snap, "uvw"):
        eng.prove(set(x._d) == set(s0), f"operand-{name}-keys-unchanged")
        for n in s0:
            eng.prove(Eq(x._d[n], s0[n]), f"operand-{name}-{n}-unchanged")


def h_hash(eng, su, sv, bound):
    """real hashes (exponents realised): == implies equal hash, and derived copies never carry a
    stale cached hash (which __eq__ would trust)"""
    u, du = _mk(eng, "u", su, bound)
    v, dv = _mk(eng, "v", sv, bound)
    hu, hv = hash(u), hash(v)  # forces the cached hashes
    if u == v:
        eng.prove(hu == hv, "eq-implies-equal-hash")
    g = lambda d, n: d.get(n, 0)
    fresh = lambda d: UnitsContainer({n: x for n, x in d.items()}, non_int_type=eng.ntype)

    def realised(d):
        out = {}
        for n in NAMES:
            x = d.get(n, 0)
            x = x.realize() if hasattr(x, "realize") else Fraction(x)
            if x != 0:
                out[n] = int(x) if x.denominator == 1 else x
        return out

    cases = {
        "mul": (u * v, {n: g(du, n) + g(dv, n) for n in NAMES}),
        "div": (u / v, {n: g(du, n) - g(dv, n) for n in NAMES}),
        "pow": (u**2, {n: g(du, n) * 2 for n in NAMES}),
        "rtruediv": (1 / u, {n: -g(du, n) for n in NAMES}),
        "add": (u.add("a", 1), {n: g(du, n) + (1 if n == "a" else 0) for n in NAMES}),
        "copy": (u.copy(), dict(du)),
    }
    if su:
        cases["remove"] = (u.remove([su[0]]), {n: x for n, x in du.items() if n != su[0]})
        if "c" not in su:
            d2 = {n: x for n, x in du.items() if n != su[0]}
            d2["c"] = du[su[0]]
            cases["rename"] = (u.rename(su[0], "c"), d2)
    for name, (got, want) in cases.items():
        ref = fresh(realised(want))
        eng.prove(got == ref, f"derived-{name}-equals-fresh")
        eng.prove(hash(got) == hash(ref), f"derived-{name}-hash-equals-fresh")
    # used as dict keys
    table = {u: "u"}
    eng.prove(table.get(fresh(realised(du))) == "u", "dict-lookup-by-equal-key")


def h_parserhelper(eng, su, sv, bound):
    s1, s2 = eng.real("s1"), eng.real("s2")
    eng.assume(Not(Eq(s1, 0)))
    eng.assume(Not(Eq(s2, 0)))
    u0, du = _mk(eng, "u", su, bound)
    v0, dv = _mk(eng, "v", sv, bound)
    u = ParserHelper(s1, dict(u0._d), non_int_type=eng.ntype)
    v = ParserHelper(s2, dict(v0._d), non_int_type=eng.ntype)
    g = lambda d, n: d.get(n, 0)
    p = u * v
    eng.prove(Eq(p.scale, s1 * s2), "ph-mul-scale")
    _is(eng, p, {n: g(du, n) + g(dv, n) for n in NAMES}, "ph-mul")
    q = u / v
    eng.prove(Eq(q.scale, s1 / s2), "ph-div-scale")
    _is(eng, q, {n: g(du, n) - g(dv, n) for n in NAMES}, "ph-div")
    r = u**2
    eng.prove(Eq(r.scale, s1 * s1), "ph-pow-scale")
    _is(eng, r, {n: g(du, n) * 2 for n in NAMES}, "ph-pow")
    z = u**0
    eng.prove(And(Eq(z.scale, 1), len(z) == 0), "ph-pow0")
    rt = 3 / u
    eng.prove(Eq(rt.scale, 3 / s1), "ph-rtruediv-scale")
    _is(eng, rt, {n: -g(du, n) for n in NAMES}, "ph-rtruediv")
    same = And(Eq(s1, s2), *[Eq(g(du, n), g(dv, n)) for n in NAMES])
    eng.prove(Iff(u == v, same), "ph-eq-iff-scale-and-exponents")
    # a ParserHelper equals a plain container only with scale 1
    eng.prove(Iff(u == u0, Eq(s1, 1)), "ph-eq-container-iff-scale-1")
    # hashing is defined only for scale 1
    try:
        hash(u)
        hashed = True
    except ValueError:
        hashed = False
    eng.prove(Iff(hashed, Eq(s1, 1)), "ph-hash-only-scale-1")
    eng.prove(And(Eq(u.scale, s1), Eq(v.scale, s2)), "ph-operands-unchanged")


def h_unit_layer(eng, names, bound):
    """the same laws through Unit and Quantity.units of the default registry, and the
    dimensionality homomorphism against REF"""
    ureg = regs.default(eng)
    inf = covers.infos()
    n1, n2 = names
    e1, e2, f1, f2 = (eng.integer(x, -bound, bound) for x in ("e1", "e2", "f1", "f2"))
    for x in (e1, e2, f1, f2):
        eng.assume(Not(Eq(x, 0)))
    U1, U2 = ureg.Unit(n1), ureg.Unit(n2)
    u = U1**e1 * U2**e2
    v = U1**f1 * U2**f2
    eng.prove(u * v == v * u, "unit-mul-commutative")
    eng.prove((u / u) == ureg.Unit(""), "unit-u/u-dimensionless")
    eng.prove((u / u).dimensionless, "unit-u/u-flag")
    eng.prove(u**0 == ureg.Unit(""), "unit-u**0-dimensionless")
    eng.prove(Iff(u == v, And(Eq(e1, f1), Eq(e2, f2))), "unit-eq-iff-exponents")
    inv = 1 / u  # a number divided by a unit is a Quantity
    eng.prove(inv.units == u**-1, "unit-rtruediv")
    x = eng.real("x")
    q = ureg.Quantity(x, u)
    eng.prove(q.units == u, "quantity-units")
    eng.prove((q * ureg.Quantity(1, v)).units == u * v, "quantity-mul-units")
    eng.prove((q / ureg.Quantity(1, v)).units == u / v, "quantity-div-units")
    eng.prove((q**2).units == u**2, "quantity-pow-units")
    # a unit combined with a quantity, a number or a bare container
    r = u * q
    eng.prove(And(r.units == u * u, Eq(r.magnitude, x)), "unit*quantity")
    r = q * u
    eng.prove(And(r.units == u * u, Eq(r.magnitude, x)), "quantity*unit")
    r = v / q if not bool(Eq(x, 0)) else None
    if r is not None:
        eng.prove(And(r.units == v / u, Eq(r.magnitude, 1 / x)), "unit/quantity")
        r = u / x
        eng.prove(And(r.units == u, Eq(r.magnitude, 1 / x)), "unit/number")
        r = x / u
        eng.prove(And(r.units == u**-1, Eq(r.magnitude, x)), "number/unit")
    r = x * u
    eng.prove(And(r.units == u, Eq(r.magnitude, x)), "number*unit")
    r = q / v
    eng.prove(And(r.units == u / v, Eq(r.magnitude, x)), "quantity/unit")
    # equality of a unit with the quantity 1*unit, with containers and with other things
    # (Quantity(1, u) == u is False in pint -- Quantity.__eq__ does not know units; the
    # properties do not speak about that mixed comparison, noted in DESIGN.md)
    eng.prove(u == ureg.Quantity(1, u), "unit==quantity-one")
    eng.prove(Iff(u == ureg.Quantity(x, u), Eq(x, 1)), "unit==quantity-iff-one")
    eng.prove(u == u._units and not (u != u._units), "unit==container")
    eng.prove(Iff(u != v, Not(And(Eq(e1, f1), Eq(e2, f2)))), "unit-ne-is-negation")
    eng.prove(not (u == "not a unit at all"), "unit-ne-unrelated-object")
    eng.prove(u == u * 1 and u == (u / 1), "unit-times-one-is-the-unit")
    # dimensionality homomorphism
    D1, D2 = dict(inf[n1].dims), dict(inf[n2].dims)
    dims = sorted(set(D1) | set(D2))

    def dimvec(a, b):
        return {d: a * D1.get(d, 0) + b * D2.get(d, 0) for d in dims}

    def check(unit, want, label):
        got = unit.dimensionality
        for d in dims:
            eng.prove(Eq(got[d] if d in got else 0, want[d]), f"{label}-{d}")
        for d, val in got.items():
            eng.prove(Not(Eq(val, 0)), f"{label}-no-zero-{d}")

    check(u, dimvec(e1, e2), "dim-u")
    check(u * v, dimvec(e1 + f1, e2 + f2), "dim-product")
    check(u / v, dimvec(e1 - f1, e2 - f2), "dim-quotient")
    check(u**2, dimvec(2 * e1, 2 * e2), "dim-power")
    # the same once both operands have answered for themselves (memoised dimensionality)
    check(v, dimvec(f1, f2), "dim-v")
    check(u * v, dimvec(e1 + f1, e2 + f2), "dim-product:operands-asked-before")
    check(u / v, dimvec(e1 - f1, e2 - f2), "dim-quotient:operands-asked-before")
    check(v / u, dimvec(f1 - e1, f2 - e2), "dim-quotient-reversed:operands-asked-before")
    check(u**-1, dimvec(-e1, -e2), "dim-inverse:operand-asked-before")
    eng.prove((u / u).dimensionless and (v / v).dimensionless, "unit-u/u-flag:operands-asked-before")
    eng.prove(not (u * u).dimensionless or not u.dimensionality, "unit-u*u-flag:operands-asked-before")
    check(ureg.Quantity(x, u).units / v, dimvec(e1 - f1, e2 - f2), "dim-quotient:quantity-units-by-asked-unit")


def h_float_registry_fraction_exponents(eng):
    """the default (float) registry with exact Fraction exponents: products and powers of units
    add and multiply the exponents exactly, at the Unit, container and Quantity layers
    (concrete; the quotient law fails -- UnitsContainer.__truediv__ rounds the divisor's Fraction
    exponents to floats in a float registry -- and is reported as known finding K15)"""
    ureg = regs.float_default()
    fr = [Fraction(-2), Fraction(-4, 3), Fraction(-3, 2), Fraction(1, 3), Fraction(2, 5), Fraction(7, 3), Fraction(3)]
    layers = {
        "Unit": ureg.meter / ureg.second**2,
        "container": ureg.UnitsContainer({"meter": 1, "second": -2}),
        "Quantity.units": ureg.Quantity(1.0, "meter / second ** 2").units,
    }
    reported = {}
    for lname, u in layers.items():
        for a in fr:
            for b in fr:
                eng.prove(u**a * u**b == u ** (a + b), f"float-registry:{lname}:u**a*u**b==u**(a+b):{a},{b}")
                eng.prove(hash(u**a * u**b) == hash(u ** (a + b)), f"float-registry:{lname}:hash:{a},{b}")
                eng.prove((u**a) ** b == u ** (a * b), f"float-registry:{lname}:(u**a)**b==u**(a*b):{a},{b}")
            eng.prove(u**a * u ** (-a) == u**0, f"float-registry:{lname}:inverse:{a}")
            eng.prove(u**a / u**a == u**0, f"float-registry:{lname}:u/u-dimensionless:{a}")
            # the quotient law with exact exponents: known finding K15 (the divisor's Fraction
            # exponents are rounded to floats by UnitsContainer.__truediv__), reported once per layer
            bad = [b for b in fr if not (u**a / u**b == u ** (a - b))]
            if bad and not reported.get(lname):
                reported[lname] = True
                eng.fail(f"float-registry:{lname}:quotient-rounds-fraction-exponents", stop=False)
            cont = (u**a)._units if hasattr(u**a, "_units") else (u**a)
            eng.prove(all(type(v) in (int, Fraction) for v in cont.values()), f"float-registry:{lname}:exact-exponent-types:{a}")


def h_power_does_not_mutate(eng, option):
    """powers of quantities never touch the operand -- in particular exponent 1 (the result may
    be the operand itself) under registry options that rewrite results"""
    ureg = regs.default(eng, **({option: True} if option else {}))
    if option == "autoconvert_to_preferred":
        ureg.default_preferred_units = [ureg.meter, ureg.second]
    x = eng.real("x")
    for units in ("kilometer*meter", "meter/kilometer", "inch*foot/second", "newton"):
        for ei, e in enumerate((1, eng.num(1), 1.0, ureg.Quantity(1, ""), ureg.Quantity(eng.num(100), "percent"), 2, 0, -1)):
            q = ureg.Quantity(x, units)
            before = dict(q._units)
            try:
                q**e
            except ZeroDivisionError:
                continue
            eng.prove(Eq(q.magnitude, x), f"pow:{option}:{units}:e{ei}:operand-magnitude-untouched")
            eng.prove(dict(q._units) == before, f"pow:{option}:{units}:e{ei}:operand-units-untouched")


# ----------------------------------------------------------------------------- pi theorem


def _rank_at_least(M, r):
    """z3: some r x r minor of M (list of rows of terms) is non-zero"""
    rows, cols = len(M), len(M[0])
    if r == 0:
        return True
    alts = []
    for rs in itertools.combinations(range(rows), r):
        for cs in itertools.combinations(range(cols), r):
            alts.append(Not(Eq(_det([[M[i][j] for j in cs] for i in rs]), 0)))
    return Or(*alts) if alts else False


def _det(A):
    n = len(A)
    if n == 1:
        return A[0][0]
    if n == 2:
        return A[0][0] * A[1][1] - A[0][1] * A[1][0]
    tot = 0
    for j in range(n):
        minor = [[A[i][k] for k in range(n) if k != j] for i in range(1, n)]
        tot = tot + ((-1) ** j) * A[0][j] * _det(minor)
    return tot


def h_echelon(eng, rows, cols, bound, realise=False):
    """column_echelon_form(matrix) with symbolic entries: E = T*A with A = transpose(matrix),
    E in reduced row echelon form, and #zero rows of E = n - rank(A) (independent encoding).
    realise=True: the entries are realised one by one by solver-driven forks (every matrix in the
    bound is visited) -- used where the non-linear obligations are beyond the solver (3x3)"""
    Mx = [[eng.integer(f"m{i}{j}", -bound, bound) for j in range(cols)] for i in range(rows)]
    if realise:
        Mx = [[(x.realize() if hasattr(x, "realize") else x) for x in row] for row in Mx]
        Mx = [[eng.num(x) for x in row] for row in Mx]
    ech, idm, swapped = column_echelon_form(Mx, ntype=eng.ntype)
    A = [[Mx[i][j] for i in range(rows)] for j in range(cols)]  # transpose: cols x rows
    n, d = cols, rows
    # E == T * A
    for i in range(n):
        for j in range(d):
            acc = 0
            for k in range(n):
                acc = acc + idm[i][k] * A[k][j]
            eng.prove(Eq(ech[i][j], acc), f"E=T*A[{i}][{j}]")
    # reduced echelon shape: leading entry 1, zeros elsewhere in its column, zero rows last
    lead_cols = []
    zero_rows = 0
    seen_zero = False
    for i in range(n):
        lead = None
        for j in range(d):
            if not (ech[i][j] == 0):
                lead = j
                break
        if lead is None:
            zero_rows += 1
            seen_zero = True
            continue
        eng.prove(not seen_zero, "zero-rows-last")
        eng.prove(Eq(ech[i][lead], 1), f"leading-one-row{i}")
        for i2 in range(n):
            if i2 != i:
                eng.prove(Eq(ech[i2][lead], 0), f"pivot-column-clear-{i2}-{lead}")
        lead_cols.append(lead)
    eng.prove(lead_cols == sorted(lead_cols) and len(set(lead_cols)) == len(lead_cols), "pivots-strictly-right")
    r = n - zero_rows
    eng.prove(_rank_at_least(A, r), "rank>=nonzero-rows")
    if r < min(n, d):
        eng.prove(Not(_rank_at_least(A, r + 1)), "rank<=nonzero-rows")
    # T is invertible: det(T) != 0
    eng.prove(Not(Eq(_det(idm), 0)), "transform-invertible")


def h_pi(eng, rows, cols, bound, template=None):
    """pi_theorem on a dimension matrix whose integer entries are realised by the solver.
    template 'diag': [D | C] with a positive diagonal block D (entries 1..bound+1) and a free last
    column -- null-space vectors with several different denominators"""
    names = ["q%d" % j for j in range(cols)]
    dims = ["[d%d]" % i for i in range(rows)]
    if template == "diag":
        Mx = [[(eng.integer(f"m{i}{j}", 1, bound + 1) if i == j else (eng.integer(f"m{i}{j}", -bound, bound) if j >= rows else 0)) for j in range(cols)] for i in range(rows)]
    else:
        Mx = [[eng.integer(f"m{i}{j}", -bound, bound) for j in range(cols)] for i in range(rows)]
    ent = [[(x.realize() if hasattr(x, "realize") else Fraction(x)) for x in row] for row in Mx]
    quantities = {}
    for j, nm in enumerate(names):
        quantities[nm] = UnitsContainer({dims[i]: int(ent[i][j]) for i in range(rows) if ent[i][j] != 0})
    import logging

    logging.getLogger("pint.util").setLevel(logging.CRITICAL)
    res = pi_theorem(quantities)
    # independent rank (concrete fraction elimination)
    rank = _concrete_rank([[Fraction(v) for v in row] for row in ent])
    eng.prove(len(res) == cols - rank, "pi-count=n-rank")
    vecs = []
    for r in res:
        vec = [Fraction(r.get(nm, 0)).limit_denominator(10**6) for nm in names]
        vecs.append(vec)
        # (exponents need not be integers: pint scales by the largest denominator, not the lcm,
        # and the property only asks for a basis of the dimensionless monomials)
        eng.prove(any(v != 0 for v in vec), "pi-nonzero")
        for i in range(rows):
            # (pint returns float exponents when the denominators differ: 4/3 comes back as
            # 1.3333333333333333, so the monomial is dimensionless up to float rounding)
            eng.prove(abs(sum(ent[i][j] * vec[j] for j in range(cols))) <= Fraction(1, 10**9), f"pi-dimensionless-row{i}")
        eng.prove(sum(1 for v in vec if v < 0) <= sum(1 for v in vec if v > 0), "pi-fewest-negatives")
        eng.prove(all(k in names for k in r) and all(v != 0 for v in r.values()), "pi-no-zero-entries")
    if vecs:
        eng.prove(_concrete_rank(vecs) == len(vecs), "pi-independent")


def _concrete_rank(rows):
    rows = [list(r) for r in rows]
    rank = 0
    ncols = len(rows[0]) if rows else 0
    for c in range(ncols):
        piv = None
        for r in range(rank, len(rows)):
            if rows[r][c] != 0:
                piv = r
                break
        if piv is None:
            continue
        rows[rank], rows[piv] = rows[piv], rows[rank]
        for r in range(len(rows)):
            if r != rank and rows[r][c] != 0:
                f = rows[r][c] / rows[rank][c]
                rows[r] = [a - f * b for a, b in zip(rows[r], rows[rank])]
        rank += 1
    return rank


MIN_DISCHARGED = {"H04.a": 2000, "H04.a-hash": 300, "H04.b": 300, "H04.c": 200, "H04.d": 200}


def cases(tier, seed):
    big = tier == "thorough"
    rnd = random.Random(f"c04:{seed}")
    out = []
    shapes = [(), ("a",), ("b",), ("a", "b"), ("b", "c"), ("a", "b", "c")]
    const = {"hash_mode": "const", "max_paths": 30000}
    triples = [(("a",), ("a",), ("a",)), (("a", "b"), ("b",), ("a",)), (("a", "b"), ("b", "c"), ("a", "c")), ((), ("a",), ("a", "b")), (("a", "b", "c"), ("a", "b"), ("c",))]
    if big:
        triples += [tuple(rnd.choice(shapes) for _ in range(3)) for _ in range(10)]
    for su, sv, sw in triples:
        out.append(Case("H04.a", f"{''.join(su) or '-'}|{''.join(sv) or '-'}|{''.join(sw) or '-'}", M, "h_algebra", {"su": list(su), "sv": list(sv), "sw": list(sw), "bound": 3 if big else 2, "half": False}, opts=dict(const, max_wall_s=900), weight=50.0, validate=4))
    if big:
        out.append(Case("H04.a", "half:a|ab|b", M, "h_algebra", {"su": ["a"], "sv": ["a", "b"], "sw": ["b"], "bound": 1, "half": True}, opts=const, weight=30.0, validate=4))
    for su, sv in [(("a",), ("a",)), (("a", "b"), ("a", "b")), (("a",), ("a", "b")), (("a", "b"), ("b", "c"))] + ([(("a", "b", "c"), ("a", "b"))] if big else []):
        out.append(Case("H04.a-hash", f"{''.join(su)}|{''.join(sv)}", M, "h_hash", {"su": list(su), "sv": list(sv), "bound": 2}, opts={"hash_mode": "realize", "max_paths": 30000}, weight=20.0, validate=4))
    for su, sv in [(("a",), ("a",)), (("a", "b"), ("b",)), ((), ("a", "b"))]:
        out.append(Case("H04.b", f"ph:{''.join(su) or '-'}|{''.join(sv) or '-'}", M, "h_parserhelper", {"su": list(su), "sv": list(sv), "bound": 2}, opts=const, weight=10.0, validate=4))
    cov = covers.cover(kinds=("base", "mult"))
    pairs = [("newton", "meter"), ("joule", "second"), ("inch", "hertz")] + [tuple(rnd.sample(cov, 2)) for _ in range(8 if big else 2)]
    for n1, n2 in pairs:
        out.append(Case("H04.c", f"{n1},{n2}", M, "h_unit_layer", {"names": [n1, n2], "bound": 2}, opts=const, weight=30.0, validate=3))
    for option in (None, "auto_reduce_dimensions", "autoconvert_to_preferred"):
        out.append(Case("H04.c", f"power-does-not-mutate:{option}", M, "h_power_does_not_mutate", {"option": option}, validate=1))
    out.append(Case("H04.c", "float-registry-fraction-exponents", M, "h_float_registry_fraction_exponents", {}, kind="conc"))
    for rows, cols in [(2, 2), (2, 3), (3, 2)] + ([(3, 3)] if big else []):
        out.append(Case("H04.d", f"echelon-{rows}x{cols}", M, "h_echelon", {"rows": rows, "cols": cols, "bound": 2 if rows * cols <= 6 else 1, "realise": rows * cols > 6}, opts={"hash_mode": "const", "max_paths": 60000, "max_wall_s": 900, "query_timeout_ms": 30000}, weight=80.0, validate=4))
    for rows, cols in [(2, 3)] + ([(3, 3), (2, 4)] if big else []):
        out.append(Case("H04.d", f"pi-{rows}x{cols}", M, "h_pi", {"rows": rows, "cols": cols, "bound": 1}, opts={"hash_mode": "realize", "max_paths": 100000, "max_wall_s": 900}, weight=60.0, validate=4))
    for rows, cols, bound in [(2, 3, 2)] + ([(2, 3, 3), (3, 4, 2), (2, 4, 2)] if big else []):
        out.append(Case("H04.d", f"pi-diag-{rows}x{cols}-b{bound}", M, "h_pi", {"rows": rows, "cols": cols, "bound": bound, "template": "diag"}, opts={"hash_mode": "realize", "max_paths": 100000, "max_wall_s": 900}, weight=60.0, validate=4))
    out.append(Case("H04.obs", "observed", "pvlib.harness.observed", "h_c04", {}, kind="conc"))
    return out
