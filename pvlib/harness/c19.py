"""C19 -- measurements carry uncertainty consistently through conversion and arithmetic.

Symbolic runs use an affine model of ufloat (pvlib/sx/stubs.py::SymUFloat): nominal value
and standard deviation are symbolic; only first-order propagation of independent values is
modelled.  Counterexamples are replayed on the float registry with the real ``uncertainties``
package and a relative tolerance.  Claimed as *partial, under a stub*."""

from __future__ import annotations

import math
import random
from fractions import Fraction

from pint.errors import DimensionalityError

from .. import covers, regs
from ..runner import Case
from ..sx.q import Or, And, Eq, Not
from ..sx.stubs import ufloat_stub

PROPERTY = "C19"
M = "pvlib.harness.c19"

META = {
    "explanation": "Measurement construction, accessors, conversion and arithmetic of the real code with the nominal value and the standard deviation symbolic (ufloat replaced by an affine model): every "
    "constructor form reports back (value, error, rel); a negative error is rejected exactly when e < 0; conversion maps the nominal value like a plain quantity and scales the standard deviation by |slope| "
    "(offset units included), so rel is invariant under multiplicative conversion; scalar multiples, sums and differences follow the unit rules; the '+/-' and '±' notations with symbolic number literals "
    "parse to that measurement.",
    "functions_encoded": [
        "pint/facets/measurement/objects.py::Measurement.__new__, value, error, rel; MeasurementQuantity.plus_minus",
        "pint/facets/measurement/registry.py",
        "pint/compat.py::_to_magnitude (Measurement -> ufloat)",
        "pint/pint_eval.py::uncertainty_tokenizer, '+/-' operator",
        "pint/facets/plain/quantity.py::to, _add_sub, _mul_div (ufloat magnitudes)",
    ],
    "bounds": {"value, error": "all rationals with error >= 0 (symbolic)", "units": "seeded compatible pairs incl. temperature scales"},
    "enumerated_axes": [{"axis": "constructor forms x unit pairs", "exhaustive": False}],
    "stubs": ["SymUFloat: affine model of uncertainties.ufloat (nominal_value, std_dev >= 0; a*u+b -> (a*n+b, |a|*s); independent sums add variances, square root via the sqrt stub)"],
    "outside_claim": ["everything computed by the real uncertainties package (correlations, non-linear propagation, formatting)", "the parenthesised notation 8.0(4) and e-notation suffix handling (textual digit manipulation)", "measurement format specs"],
}


def _close(eng, a, b, label):
    if eng.symbolic:
        eng.prove(Eq(a, b), label)
    else:
        eng.prove(math.isclose(float(a), float(b), rel_tol=1e-9, abs_tol=1e-12), label)


class _Ctx:
    def __init__(self, eng):
        self.eng = eng

    def __enter__(self):
        if self.eng.symbolic:
            self.cm = ufloat_stub()
            self.cm.__enter__()
        return self

    def __exit__(self, *a):
        if self.eng.symbolic:
            return self.cm.__exit__(*a)
        return False


def _reg_and_nums(eng, names):
    if eng.symbolic:
        return regs.default(eng), [eng.real(n) for n in names]
    return regs.float_default(), [float(eng.real(n)) for n in names]


def h_constructors(eng, u, u2):
    ureg, (v, e) = _reg_and_nums(eng, ["v", "e"])
    inf = covers.infos()
    f = inf[u2].num / inf[u].num
    with _Ctx(eng):
        eng.assume(e >= 0)
        eng.assume(Not(Eq(v, 0)) if eng.symbolic else v != 0)
        forms = {
            "numbers+unit": lambda: ureg.Measurement(v, e, u),
            "quantities": lambda: ureg.Measurement(ureg.Quantity(v, u), ureg.Quantity(e, u)),
            "quantity+error-in-other-unit": lambda: ureg.Measurement(ureg.Quantity(v, u), ureg.Quantity(e / (float(f) if not eng.symbolic else f), u2)),
            "plus_minus": lambda: ureg.Quantity(v, u).plus_minus(e),
            "plus_minus-quantity": lambda: ureg.Quantity(v, u).plus_minus(ureg.Quantity(e, u)),
        }
        for name, mk in forms.items():
            m = mk()
            _close(eng, m.value.magnitude, v, f"{name}:value")
            _close(eng, m.error.magnitude, e, f"{name}:error")
            eng.prove(str(m.value.units) == u and str(m.error.units) == u, f"{name}:units")
            _close(eng, m.rel, abs(e / v), f"{name}:rel")
        # relative error form
        r = ureg.Quantity(v, u).plus_minus(e, relative=True)
        _close(eng, r.error.magnitude, e * abs(v), "plus_minus-relative:error")
        _close(eng, r.rel, e, "plus_minus-relative:rel")
        try:
            ureg.Quantity(v, u).plus_minus(ureg.Quantity(e, u), relative=True)
        except ValueError:
            eng.prove(True, "relative-quantity-error-rejected")
        else:
            eng.fail("relative-quantity-error-accepted")


def h_negative_error(eng, u):
    """every constructor form rejects a negative error -- and only a negative one"""
    ureg, (v, e) = _reg_and_nums(eng, ["v", "e"])
    with _Ctx(eng):
        forms = {
            "Measurement(v,e,u)": lambda: ureg.Measurement(v, e, u),
            "Measurement(Q,Q)": lambda: ureg.Measurement(ureg.Quantity(v, u), ureg.Quantity(e, u)),
            "plus_minus(e)": lambda: ureg.Quantity(v, u).plus_minus(e),
            "plus_minus(Q)": lambda: ureg.Quantity(v, u).plus_minus(ureg.Quantity(e, u)),
            "plus_minus(e,relative)": lambda: ureg.Quantity(v, u).plus_minus(e, relative=True),
        }
        for name, fn in forms.items():
            try:
                fn()
            except ValueError:
                # a relative error of a zero value is zero whatever its sign
                eng.prove(e < 0, f"negative-error-rejected-only-when-negative:{name}")
                continue
            if name == "plus_minus(e,relative)":
                eng.prove(Or(e >= 0, Eq(v, 0)), f"error-accepted-only-when-non-negative:{name}")
            else:
                eng.prove(e >= 0, f"error-accepted-only-when-non-negative:{name}")


def _other_dimension(u):
    """a unit of another dimension than u (and not u itself)"""
    dims = covers.infos()[u].dims
    return "ampere" if dims != covers.infos()["ampere"].dims else "candela"


def h_convert(eng, u, w):
    ureg, (v, e) = _reg_and_nums(eng, ["v", "e"])
    inf = covers.infos()
    iu, iw = inf[u], inf[w]
    slope = iu.num / iw.num
    inter = (iu.off - iw.off) / iw.num
    if not eng.symbolic:
        slope, inter = float(slope), float(inter)
    with _Ctx(eng):
        eng.assume(e >= 0)
        m = ureg.Measurement(v, e, u)
        c = m.to(w)
        _close(eng, c.value.magnitude, slope * v + inter, "convert:nominal-like-plain-quantity")
        _close(eng, c.error.magnitude, abs(slope) * e, "convert:std-scaled-by-slope")
        eng.prove(str(c.units) == w, "convert:units")
        plain = ureg.Quantity(v, u).to(w)
        _close(eng, c.value.magnitude, plain.magnitude, "convert:nominal-equals-plain-conversion")
        if iu.off == 0 and iw.off == 0:
            eng.assume(Not(Eq(v, 0)) if eng.symbolic else v != 0)
            _close(eng, c.rel, m.rel, "convert:rel-invariant")
        back = c.to(u)
        _close(eng, back.value.magnitude, v, "convert:round-trip-nominal")
        _close(eng, back.error.magnitude, e, "convert:round-trip-error")
        try:
            m.to(_other_dimension(u))
        except DimensionalityError:
            eng.prove(True, "convert:incompatible-raises")
        else:
            eng.fail("convert:incompatible-accepted")
        # in-place conversion of a measurement whose accessors have been read before: value,
        # error and rel describe the object as it is now
        nv = slope * v + inter
        if eng.symbolic:
            eng.assume(Not(Eq(v, 0)))
            eng.assume(Not(Eq(nv, 0)))
        elif v == 0 or nv == 0:
            return
        mi = ureg.Measurement(v, e, u)
        before = (mi.rel, mi.value.magnitude, mi.error.magnitude)
        _close(eng, before[0], abs(e / v), "ito:rel-before")
        mi.ito(w)
        eng.prove(str(mi.units) == w, "ito:units")
        _close(eng, mi.value.magnitude, nv, "ito:value-after")
        _close(eng, mi.error.magnitude, abs(slope) * e, "ito:error-after")
        _close(eng, mi.rel, abs(slope) * e / abs(nv), "ito:rel-after-describes-the-converted-object")
        mi.ito(u)
        _close(eng, mi.rel, abs(e / v), "ito:rel-after-the-way-back")


def h_arith(eng, u, w):
    ureg, (v1, e1, v2, e2, c) = _reg_and_nums(eng, ["v1", "e1", "v2", "e2", "c"])
    inf = covers.infos()
    f = inf[w].num / inf[u].num
    if not eng.symbolic:
        f = float(f)
    with _Ctx(eng):
        eng.assume(e1 >= 0)
        eng.assume(e2 >= 0)
        a, b = ureg.Measurement(v1, e1, u), ureg.Measurement(v2, e2, w)
        s = a + b
        eng.prove(str(s.units) == u, "sum:units-of-left")
        _close(eng, s.magnitude.nominal_value, v1 + f * v2, "sum:nominal")
        var = e1 * e1 + (f * e2) * (f * e2)
        sd = s.magnitude.std_dev
        _close(eng, sd * sd, var, "sum:variance-adds")
        d = a - b
        _close(eng, d.magnitude.nominal_value, v1 - f * v2, "difference:nominal")
        _close(eng, d.magnitude.std_dev * d.magnitude.std_dev, var, "difference:variance-adds")
        k = a * c
        _close(eng, k.magnitude.nominal_value, v1 * c, "scalar-multiple:nominal")
        _close(eng, k.magnitude.std_dev, abs(c) * e1, "scalar-multiple:std")
        eng.prove(str(k.units) == u, "scalar-multiple:units")
        od = _other_dimension(u)
        q = a * ureg.Quantity(c, od)
        eng.prove(dict(q._units) == {u: 1, od: 1}, "times-quantity:units")
        _close(eng, q.magnitude.nominal_value, v1 * c, "times-quantity:nominal")
        try:
            a + ureg.Measurement(v2, e2, od)
        except DimensionalityError:
            eng.prove(True, "sum:incompatible-raises")
        else:
            eng.fail("sum:incompatible-accepted")


def h_parse(eng, u):
    if not eng.symbolic:
        ureg = regs.float_default()
        v, e = float(eng.real("v")), float(eng.real("e"))
        lit = lambda x: repr(x)
    else:
        ureg = regs.default(eng)
        v, e = eng.real("v"), eng.real("e")
        lit = eng.lit
    with _Ctx(eng):
        eng.assume(v > 0)
        eng.assume(e > 0)
        for text in (f"({lit(v)} +/- {lit(e)}) {u}", f"({lit(v)} ± {lit(e)}) {u}", f"({lit(v)}+/-{lit(e)}) {u}", f"{lit(v)} +/- {lit(e)}"):
            q = ureg.parse_expression(text)
            mag = q.magnitude if hasattr(q, "magnitude") else q
            eng.prove(hasattr(mag, "nominal_value"), f"parse:uncertain-magnitude:{text.split()[1]}")
            _close(eng, mag.nominal_value, v, "parse:nominal")
            _close(eng, mag.std_dev, e, "parse:std")
            if u in text:
                eng.prove(str(q.units) == u, "parse:units")
        # the notation is an operand like any other: at the end of the text, after an operator,
        # under a sign, as a base of a power -- the group stays a group
        two = 2.0 if not eng.symbolic else eng.num(2)
        for label, text, nv, sv in (
            ("alone", f"({lit(v)} +/- {lit(e)})", v, e),
            ("alone-tight", f"({lit(v)}+/-{lit(e)})", v, e),
            ("after-times", f"2 * ({lit(v)} +/- {lit(e)})", two * v, two * e),
            ("before-times", f"({lit(v)} +/- {lit(e)}) * 2", two * v, two * e),
            ("after-minus", f"-({lit(v)} +/- {lit(e)})", -v, e),
            ("minus-inside", f"(-{lit(v)} +/- {lit(e)})", -v, e),
            ("after-plus", f"2 + ({lit(v)} +/- {lit(e)})", two + v, e),
            ("squared", f"({lit(v)} +/- {lit(e)}) ** 2", v * v, two * v * e),
            ("squared-caret", f"({lit(v)} +/- {lit(e)})^2", v * v, two * v * e),
            ("minus-inside-squared", f"(-{lit(v)} +/- {lit(e)}) ** 2", v * v, two * v * e),
            ("squared-with-unit", f"({lit(v)} +/- {lit(e)}) ** 2 {u}", v * v, two * v * e),
            ("divided-by-two-then-unit", f"({lit(v)} +/- {lit(e)}) / 2 {u}", v / two, e / two),
        ):
            try:
                q = ureg.parse_expression(text)
            except (IndexError, ValueError, TypeError, AssertionError) as ex:
                eng.fail(f"parse-operand:{label}:raises-{type(ex).__name__}", stop=False)
                continue
            mag = q.magnitude if hasattr(q, "magnitude") else q
            eng.prove(hasattr(mag, "nominal_value"), f"parse-operand:{label}:uncertain-magnitude")
            if hasattr(mag, "nominal_value"):
                _close(eng, mag.nominal_value, nv, f"parse-operand:{label}:nominal")
                _close(eng, mag.std_dev, sv, f"parse-operand:{label}:std")
        for label, text, nv, sv in (("paren-alone", "1.234(5)", "1.234", "0.005"), ("paren-after-times", "2 * 8.0(4)", "16.0", "0.8"), ("paren-squared", "2.0(1) ** 2", "4.0", "0.4")):
            cv = (lambda t: float(t)) if not eng.symbolic else (lambda t: eng.num(Fraction(t)))
            try:
                q = ureg.parse_expression(text)
            except (IndexError, ValueError, TypeError, AssertionError) as ex:
                eng.fail(f"parse-operand:{label}:raises-{type(ex).__name__}", stop=False)
                continue
            mag = q.magnitude if hasattr(q, "magnitude") else q
            eng.prove(hasattr(mag, "nominal_value"), f"parse-operand:{label}:uncertain-magnitude")
            if hasattr(mag, "nominal_value"):
                _close(eng, mag.nominal_value, cv(nv), f"parse-operand:{label}:nominal")
                _close(eng, mag.std_dev, cv(sv), f"parse-operand:{label}:std")
        # parenthesised-uncertainty notation: the digits in parentheses are aligned with the last
        # digits of the nominal value (1.234(5) = 1.234 +/- 0.005); an explicit decimal point in
        # the parentheses gives the error as written
        for text, nv, sv in (
            ("8.0(4)", "8.0", "0.4"), ("1.234(5)", "1.234", "0.005"), ("1.234(56)", "1.234", "0.056"), ("123(4)", "123", "4"), ("12.30(4)", "12.30", "0.04"),
            ("1.25(50)", "1.25", "0.50"), ("12.3(45)", "12.3", "4.5"), ("1.0(1.5)", "1.0", "1.5"), ("2.500(50)e-07", "2.500e-07", "0.050e-07"), ("0.0(4.0)e-05", "0", "4.0e-05"),
        ):
            q = ureg.parse_expression(f"{text} {u}")
            mag = q.magnitude
            eng.prove(hasattr(mag, "nominal_value"), f"parse-paren:uncertain-magnitude:{text}")
            cv = (lambda t: float(t)) if not eng.symbolic else (lambda t: eng.num(Fraction(t)))
            _close(eng, mag.nominal_value, cv(nv), f"parse-paren:nominal:{text}")
            _close(eng, mag.std_dev, cv(sv), f"parse-paren:std:{text}")
        # numbers written without a leading zero, with and without an exponent suffix
        for text, nv, sv in ((f"(2.5 +/- .5)e-3 {u}", "0.0025", "0.0005"), (f"(.5 +/- .25)e2 {u}", "50", "25"), (f"8.0(.4)e2 {u}", "800", "40"), (f".5(1)e3 {u}", "500", "100"), (f"(2.5 +/- .5) {u}", "2.5", "0.5"), (f"8.0(.4) {u}", "8.0", "0.4"), (f"(0 +/- .5)e-3 {u}", "0", "0.0005")):
            cv = (lambda t: float(t)) if not eng.symbolic else (lambda t: eng.num(Fraction(t)))
            try:
                q = ureg.parse_expression(text)
            except (IndexError, ValueError, TypeError, AssertionError) as ex:
                eng.fail(f"parse-leading-dot:{text.rsplit(' ', 1)[0]}:raises-{type(ex).__name__}", stop=False)
                continue
            mag = q.magnitude
            eng.prove(hasattr(mag, "nominal_value"), f"parse-leading-dot:uncertain-magnitude:{text.rsplit(' ', 1)[0]}")
            if hasattr(mag, "nominal_value"):
                _close(eng, mag.nominal_value, cv(nv), f"parse-leading-dot:nominal:{text.rsplit(' ', 1)[0]}")
                _close(eng, mag.std_dev, cv(sv), f"parse-leading-dot:std:{text.rsplit(' ', 1)[0]}")
        # an exponent suffix applies to the nominal value and to the error alike -- also when the
        # nominal mantissa is zero, which is how pint itself renders Measurement(0, 4e-05, u)
        for k, etext in ((-5, "e-05"), (3, "e+03"), (2, "e2")):
            scale = (10.0**k) if not eng.symbolic else eng.num(Fraction(10) ** k)
            for vn, vt, vv in (("v", lit(v), v * scale), ("0", "0", 0), ("0.0", "0.0", 0)):
                for pm in ("+/-", "±"):
                    text = f"({vt} {pm} {lit(e)}){etext} {u}"
                    q = ureg.parse_expression(text)
                    mag = q.magnitude
                    eng.prove(hasattr(mag, "nominal_value"), f"parse-exp:uncertain-magnitude:{vn}:{etext}")
                    _close(eng, mag.nominal_value, vv, f"parse-exp:nominal:{vn}:{etext}")
                    _close(eng, mag.std_dev, e * scale, f"parse-exp:std:{vn}:{etext}")
                    eng.prove(str(q.units) == u, "parse-exp:units")


def h_format_roundtrip(eng):
    """the plain-text measurement formats render a text that the parser reads back as the same
    measurement (float registry with the real uncertainties package; values whose digits are
    printed in full by the spec)"""
    import math

    ureg = regs.float_default()
    rows = [
        (1234.5, 2.5, "second", ["", "D", "C", "~D", "~C", ".2uS"]),
        (-3.75, 0.25, "newton", ["", "D", "C", "~D", "~C", ".2uS", ".3e"]),
        (2.5e-7, 5e-9, "meter / second", ["", "D", "C", "~C", ".2uS", ".3e", ".1ue"]),
        (0.0, 4e-05, "meter", ["", "D", "C", "~C", ".2uS", ".3e", ".1ue"]),
        (1.25, 0.5, "meter", [".2uS", ".3e", ".2f"]),
        (4.0e20, 1.0e19, "second ** 2", ["", "C", ".2uS"]),
    ]
    for v, e, unit, specs in rows:
        m = ureg.Measurement(v, e, unit)
        for spec in specs:
            text = format(m, spec)
            try:
                back = ureg.parse_expression(text)
            except Exception as ex:  # noqa: BLE001
                eng.fail(f"measurement-format-not-parsed:{spec or 'default'}:{v}", detail=f"{text!r}: {type(ex).__name__}")
                continue
            mag = getattr(back, "magnitude", None)
            ok = hasattr(mag, "nominal_value") and math.isclose(mag.nominal_value, v, rel_tol=1e-12, abs_tol=1e-300) and math.isclose(mag.std_dev, e, rel_tol=1e-12) and back.units == m.units
            if not ok:
                eng.fail(f"measurement-format-roundtrip:{spec or 'default'}:{v}", detail=f"{text!r} -> {back!r}", stop=False)
            else:
                eng.prove(True, f"measurement-format-roundtrip:{spec or 'default'}:{v}")
        eng.prove(m.value.magnitude == v and m.error.magnitude == e, f"measurement-unaltered:{v}")


def h_correlations(eng):
    """with the real uncertainties package (float registry): a measurement stays the same random
    variable through arithmetic and conversions, so expressions in which it appears more than
    once propagate to first order with their correlations -- (m + m) - m has the error of m"""
    import math

    import warnings

    from uncertainties import ufloat

    warnings.filterwarnings("ignore", message="Using UFloat objects with std_dev==0")
    ureg = regs.float_default()
    forms = {
        "Measurement(v,e,u)": lambda v, e, u: ureg.Measurement(v, e, u),
        "Measurement(ufloat,u)": lambda v, e, u: ureg.Measurement(ufloat(v, e), u),
        "plus_minus": lambda v, e, u: ureg.Quantity(v, u).plus_minus(e),
        "Measurement(Quantity,e)": lambda v, e, u: ureg.Measurement(ureg.Quantity(v, u), e),
    }

    def close(a, b):
        return math.isclose(a, b, rel_tol=1e-9, abs_tol=1e-12)

    def ve(r):
        mag = getattr(r, "magnitude", r)
        return (mag.nominal_value, mag.std_dev) if hasattr(mag, "nominal_value") else (mag, 0.0)

    for fname, mk in forms.items():
        for v, e, u, u2, k in ((10.0, 0.5, "second", "millisecond", 1000.0), (2.5, 0.125, "meter", "inch", 1 / 0.0254), (300.0, 2.0, "kelvin", "degree_Rankine", 1.8)):
            m = mk(v, e, u)
            P = lambda cond, label: eng.prove(bool(cond), f"{fname}:{u}:{label}")  # noqa: E731
            n_, s_ = ve((m + m) - m)
            P(close(n_, v) and close(s_, e), "(m+m)-m")
            n_, s_ = ve(3 * m - 2 * m)
            P(close(n_, v) and close(s_, e), "3m-2m")
            n_, s_ = ve(m - m)
            P(close(n_, 0.0) and close(s_, 0.0), "m-m")
            n_, s_ = ve(m / m)
            P(close(n_, 1.0) and close(s_, 0.0), "m/m")
            n_, s_ = ve(m.to(u2) - m)
            P(close(n_, 0.0) and close(s_, 0.0), "m.to(u2)-m")
            n_, s_ = ve(m.to(u2).to(u) - m)
            P(close(n_, 0.0) and close(s_, 0.0), "m.to(u2).to(u)-m")
            # a conversion to the unit it already has is still the same random variable
            n_, s_ = ve(m.to(u) - m)
            P(close(n_, 0.0) and close(s_, 0.0), "m.to(same-unit)-m")
            n_, s_ = ve(m.to(m.units) + m)
            P(close(n_, 2 * v) and close(s_, 2 * e), "m.to(m.units)+m:fully-correlated")
            n_, s_ = ve(ureg.Quantity(m.magnitude, m.units).to(u) - m)
            P(close(n_, 0.0) and close(s_, 0.0), "Quantity(ufloat).to(same-unit)-m")
            if u in ("second", "meter", "kelvin"):
                n_, s_ = ve(m.to_base_units() - m)
                P(close(n_, 0.0) and close(s_, 0.0), "m.to_base_units()-m (already base)")
                n_, s_ = ve(m.to_root_units() - m)
                P(close(n_, 0.0) and close(s_, 0.0), "m.to_root_units()-m (already root)")
                n_, s_ = ve(ureg.convert(m.magnitude, u, u) - m.magnitude)
                P(close(n_, 0.0) and close(s_, 0.0), "ureg.convert(ufloat,u,u)-ufloat")
            n_, s_ = ve(m.to(u2) + m.to(u2))
            P(close(n_, 2 * v * k) and close(s_, 2 * e * k), "to+to:fully-correlated")
            t = mk(4.0, 0.25, "hour")
            n_, s_ = ve((m / t) * t)
            P(close(n_, v) and close(s_, e), "(m/t)*t")
            n_, s_ = ve((m * t) / t)
            P(close(n_, v) and close(s_, e), "(m*t)/t")
            # independent measurements do combine in quadrature
            m2 = mk(v, e, u)
            n_, s_ = ve(m + m2)
            P(close(n_, 2 * v) and close(s_, math.sqrt(2) * e), "independent-sum-in-quadrature")
            n_, s_ = ve(m - m2)
            P(close(n_, 0.0) and close(s_, math.sqrt(2) * e), "independent-difference-in-quadrature")
    # a unit whose name starts with e/E right after the group is a unit, not an exponent
    for text, nv, sv, un in (("(2.0 +/- 0.1)eV - 3 eV", -1.0, 0.1, "electron_volt"), ("(2.0 +/- 0.1)eV + 3 eV", 5.0, 0.1, "electron_volt"), ("2.0(1)erg+1 erg", 3.0, 0.1, "erg"), ("(2.0 +/- 0.1)e-3 eV", 0.002, 0.0001, "electron_volt"), ("(2.0 +/- 0.1)E+3 eV", 2000.0, 100.0, "electron_volt")):
        try:
            q = ureg.parse_expression(text)
            ok = abs(q.magnitude.nominal_value - nv) <= 1e-12 * max(1, abs(nv)) and abs(q.magnitude.std_dev - sv) <= 1e-12 and str(q.units) == un
        except Exception:  # noqa: BLE001
            ok = False
        eng.prove(ok, f"parse-unit-starting-with-e:{text}")
    # offset units: a temperature and its converted self
    T = ureg.Measurement(25.0, 0.5, "degC")
    d = T.to("degF").to("degC") - T
    n_, s_ = ve(d)
    eng.prove(close(n_, 0.0) and close(s_, 0.0), "offset:T.to(degF).to(degC)-T")


MIN_DISCHARGED = {"H19.a": 200, "H19.b": 100, "H19.c": 100}


def cases(tier, seed):
    big = tier == "thorough"
    rnd = random.Random(f"c19:{seed}")
    out = []
    pairs = [(a, b) for a, b in covers.same_dim_pairs(seed, 800 if big else 10, positive_only=True)]
    for u, w in pairs:
        out.append(Case("H19.a", f"constructors:{u},{w}", M, "h_constructors", {"u": u, "u2": w}, validate=1))
        out.append(Case("H19.b", f"convert:{u}->{w}", M, "h_convert", {"u": u, "w": w}, validate=1))
        out.append(Case("H19.c", f"arith:{u},{w}", M, "h_arith", {"u": u, "w": w}, validate=0))
    for u, w in [("degree_Celsius", "degree_Fahrenheit"), ("degree_Fahrenheit", "kelvin"), ("kelvin", "degree_Celsius"), ("degree_Rankine", "degree_Reaumur")]:
        out.append(Case("H19.b", f"convert:{u}->{w}", M, "h_convert", {"u": u, "w": w}, validate=1))
    out.append(Case("H19.e", "format-roundtrip", M, "h_format_roundtrip", {}, kind="conc"))
    out.append(Case("H19.c", "correlations", M, "h_correlations", {}, kind="conc"))
    for u in ("meter", "second", "newton"):
        out.append(Case("H19.a", f"negative-error:{u}", M, "h_negative_error", {"u": u}, validate=1))
        out.append(Case("H19.d", f"parse:{u}", M, "h_parse", {"u": u}, validate=1))
    out.append(Case("H19.obs", "observed", "pvlib.harness.observed", "h_c19", {}, kind="conc"))
    return out
