"""C06 -- offset and logarithmic units convert by their defining maps and refuse ambiguity.

The outcome table below (RULES) is transcribed from the property statement and
docs/user/nonmult.rst: by operand *kind* (O offset, M multiplicative/absolute, D delta,
X other dimension, N bare number) it gives the result unit and the value as a formula in
the magnitudes and in each unit's scale/offset, or the exception.  Scales and offsets of the
generated units are symbolic, so one run covers every user-defined offset unit."""

from __future__ import annotations

import itertools
import operator

from pint.errors import DimensionalityError, OffsetUnitCalculusError

from .. import covers, regs
from ..runner import Case
from ..sx.q import And, Eq, Iff, Not, Or

PROPERTY = "C06"
M = "pvlib.harness.c06"

META = {
    "explanation": "offset calculus of the real Quantity operators (_add_sub/_iadd_sub seven arms, _mul_div/_imul_div, __pow__/__ipow__, __rtruediv__, "
    "__eq__/compare) and the two-stage conversion of the nonmultiplicative registry run on generated offset units whose scale and offset are "
    "symbolic, with symbolic magnitudes; the outcome (unit and value formula, or exception class) is proved equal to a rule table transcribed "
    "from the documentation.  Logarithmic converters run with exp/log as an uninterpreted inverse pair.",
    "functions_encoded": [
        "pint/facets/nonmultiplicative/definitions.py::OffsetConverter.to_reference/from_reference (functional and in-place), LogarithmicConverter",
        "pint/facets/nonmultiplicative/registry.py::_add_unit (delta units), _validate_and_extract, _add_ref_of_log_or_offset_unit, _convert, parse_units_as_container",
        "pint/facets/nonmultiplicative/objects.py::_ok_for_muldiv, _has_compatible_delta, _get_non_multiplicative_units, _get_delta_units",
        "pint/facets/plain/quantity.py::_add_sub, _iadd_sub, _mul_div, _imul_div, __pow__, __ipow__, __rtruediv__, __rsub__, __eq__, compare, __neg__",
        "pint/facets/plain/registry.py::_parse_units_as_container (as_delta), get_name (prefix refusal)",
    ],
    "bounds": {
        "magnitudes, scales, offsets": "all rationals (symbolic), scales > 0",
        "operators": "+ - * / with both operand orders, ** e for e in {-2,-1,0,1,2}, unary -, ==, <, bare-number operands on either side",
        "operand kinds": "two offset units, base absolute unit, scaled absolute unit, two delta units, a unit of another dimension",
        "modes": "autoconvert_offset_to_baseunit in {False, True}; default_as_delta in {True, False} for parsing",
        "magnitude containers": "scalar, and object-dtype arrays of length 2 for the in-place twins",
    },
    "enumerated_axes": [{"axis": "operator x operand-kind pair x order x mode", "exhaustive": True}, {"axis": "default-registry temperature unit pairs", "exhaustive": True}],
    "stubs": ["Q.exp/Q.log: uninterpreted functions with ground inverse axioms (log(exp(a)) = a, exp(log(b)) = b, exp > 0)"],
    "outside_claim": ["numeric accuracy of real exp/log", "symbolic logbase", "float/ndarray-of-float magnitudes", "compound offset units (e.g. degC/m with as_delta=False) beyond the refusal of mul/div"],
}

# ----------------------------------------------------------------------------- generated registry

UNITS = {
    # name: (kind, scale var, offset var)
    "degA": ("O", "s1", "o1"),
    "degB": ("O", "s2", "o2"),
    "kel": ("M", None, None),
    "rank": ("M", "s3", None),
    "delta_degA": ("D", "s1", None),
    "delta_degB": ("D", "s2", None),
    "oth": ("X", None, None),
}


def _setup(eng, autoconvert=False, default_as_delta=True, need=("s1", "o1", "s2", "o2", "s3")):
    v = {}
    for n in ("s1", "o1", "s2", "o2", "s3"):
        v[n] = eng.real(n)
    for n in ("s1", "s2", "s3"):
        eng.assume(v[n] > 0)
    for n in ("o1", "o2"):
        eng.assume(Not(Eq(v[n], 0)))
    # offsets appear in the text as literals; the sign is rendered explicitly by lit()
    lines = [
        "kel = [temp] = KL",
        "oth = [len] = OT",
        "kk- = 1000",
        f"degA = {eng.lit(v['s1'])} * kel; offset: {eng.lit(v['o1'])} = dgA",
        f"degB = {eng.lit(v['s2'])} * kel; offset: {eng.lit(v['o2'])} = dgB",
        f"rank = {eng.lit(v['s3'])} * kel = RK",
    ]
    ureg = regs.build(eng, lines, autoconvert_offset_to_baseunit=autoconvert, default_as_delta=default_as_delta)
    return ureg, v


def _so(v, unit):
    kind, s, o = UNITS[unit]
    return kind, (v[s] if s else 1), (v[o] if o else 0)


def _uc(u):
    return {k: (x.c if hasattr(x, "c") and x.c is not None else x) for k, x in u.items()}


def _units_equal(got, want):
    g = {k: v for k, v in _uc(got).items()}
    return g == want


# ----------------------------------------------------------------------------- rule table


def rule_addsub(op, ua, ub, v, x, y):
    """-> ('err', cls) | (unit name, value)"""
    ka, sa, oa = _so(v, ua)
    kb, sb, ob = _so(v, ub)
    if "X" in (ka, kb):
        return ("err", DimensionalityError) if ka != kb else (ua, x + y if op == "+" else x - y)
    sgn = 1 if op == "+" else -1
    if ka in "MD" and kb in "MD":
        if ka == "D" and kb == "M":
            return ub, sa * x / sb + sgn * y  # only self is a delta: other determines the unit
        return ua, x + sgn * sb * y / sa
    if op == "+":
        if ka == "O" and kb == "D":
            return ua, x + sb * y / sa
        if ka == "D" and kb == "O":
            return ub, sa * x / sb + y
        return ("err", OffsetUnitCalculusError)
    # subtraction
    if ka == "O" and kb in "OM":
        return "delta_" + ua, (sa * x + oa - (sb * y + ob)) / sa
    if ka == "M" and kb == "O":
        return ua, x - (sb * y + ob) / sa
    if ka == "O" and kb == "D":
        return ua, x - sb * y / sa
    if ka == "D" and kb == "O":
        return ub, sa * x / sb - y
    raise AssertionError((op, ka, kb))


def _root(v, unit, x):
    """value in root units (kel / oth) and the root unit"""
    k, s, o = _so(v, unit)
    if k == "X":
        return x, "oth"
    return s * x + o, "kel"


def rule_muldiv(op, ua, ub, v, x, y, autoconvert):
    """Quantity op Quantity -> ('err', cls) | (units dict, value)"""
    ka = UNITS[ua][0]
    kb = UNITS[ub][0]
    if not autoconvert and "O" in (ka, kb):
        return ("err", OffsetUnitCalculusError)
    va, na = (x, ua) if ka != "O" else _root(v, ua, x)
    vb, nb = (y, ub) if kb != "O" else _root(v, ub, y)
    units = {na: 1}
    units[nb] = units.get(nb, 0) + (1 if op == "*" else -1)
    units = {k: e for k, e in units.items() if e != 0}
    return units, (va * vb if op == "*" else va / vb)


# ----------------------------------------------------------------------------- harnesses


def _check_outcome(eng, label, fn, expected):
    if expected[0] == "err":
        try:
            r = fn()
        except expected[1]:
            eng.prove(True, label + ":raises")
            return None
        except (OffsetUnitCalculusError, DimensionalityError) as e:
            eng.fail(label + f":wrong-exception-{type(e).__name__}")
        eng.fail(label + ":no-error")
    try:
        r = fn()
    except (OffsetUnitCalculusError, DimensionalityError, ZeroDivisionError) as e:
        if isinstance(e, ZeroDivisionError):
            return None
        eng.fail(label + f":unexpected-{type(e).__name__}")
    return r


def h_addsub(eng, op, ua, ub, autoconvert, form):
    ureg, v = _setup(eng, autoconvert)
    x, y = eng.real("x"), eng.real("y")
    exp = rule_addsub(op, ua, ub, v, x, y)
    pyop = operator.add if op == "+" else operator.sub
    if form == "scalar":
        a, b = ureg.Quantity(x, ua), ureg.Quantity(y, ub)
        r = _check_outcome(eng, f"{op}", lambda: pyop(a, b), exp)
        if r is None:
            return
        eng.prove(_units_equal(r._units, {exp[0]: 1}), "result-unit")
        eng.prove(Eq(r.magnitude, exp[1]), "result-value")
        eng.prove(And(Eq(a.magnitude, x), Eq(b.magnitude, y), _units_equal(a._units, {ua: 1}), _units_equal(b._units, {ub: 1})), "operands-untouched")
    elif form == "inplace-scalar":
        # the augmented assignment on scalar magnitudes follows the same rule as the binary form
        a, b = ureg.Quantity(x, ua), ureg.Quantity(y, ub)
        iop = operator.iadd if op == "+" else operator.isub

        def run_s():
            nonlocal a
            a = iop(a, b)
            return a

        r = _check_outcome(eng, f"i{op}-scalar", run_s, exp)
        if r is None:
            return
        eng.prove(_units_equal(r._units, {exp[0]: 1}), "inplace-scalar-unit")
        eng.prove(Eq(r.magnitude, exp[1]), "inplace-scalar-value")
        eng.prove(And(Eq(b.magnitude, y), _units_equal(b._units, {ub: 1})), "inplace-scalar-other-untouched")
    elif form == "rsub":
        # reflected form through a non-Quantity left operand is not defined for units; use __rsub__ directly
        a, b = ureg.Quantity(x, ua), ureg.Quantity(y, ub)
        exp2 = rule_addsub("-", ub, ua, v, y, x)
        r = _check_outcome(eng, "rsub", lambda: a.__rsub__(b), exp2)
        if r is None:
            return
        # a.__rsub__(b) is -(a - b): the value of b - a, in the units of a - b
        expa = rule_addsub("-", ua, ub, v, x, y)
        if expa[0] != "err":
            eng.prove(_units_equal(r._units, {expa[0]: 1}), "rsub-unit")
            eng.prove(Eq(r.magnitude, -expa[1]), "rsub-value")
    else:  # in-place twin on object arrays of length 2
        import numpy as np

        x2, y2 = eng.real("x2"), eng.real("y2")
        a = ureg.Quantity(np.array([x, x2], dtype=object), ua)
        b = ureg.Quantity(np.array([y, y2], dtype=object), ub)
        iop = operator.iadd if op == "+" else operator.isub

        def run():
            nonlocal a
            a = iop(a, b)
            return a

        exp0 = exp
        r = _check_outcome(eng, f"i{op}", run, exp0)
        if r is None:
            return
        eng.prove(_units_equal(r._units, {exp[0]: 1}), "inplace-unit")
        eng.prove(Eq(r.magnitude[0], exp[1]), "inplace-value-0")
        exp_1 = rule_addsub(op, ua, ub, v, x2, y2)
        eng.prove(Eq(r.magnitude[1], exp_1[1]), "inplace-value-1")
        eng.prove(And(Eq(b.magnitude[0], y), Eq(b.magnitude[1], y2), _units_equal(b._units, {ub: 1})), "inplace-other-untouched")


def h_muldiv(eng, op, ua, ub, autoconvert, form):
    ureg, v = _setup(eng, autoconvert)
    x, y = eng.real("x"), eng.real("y")
    pyop = operator.mul if op == "*" else operator.truediv
    if op == "/":
        eng.assume(Not(Eq(y, 0)))
        kb, sb, ob = _so(v, ub)
        if kb == "O":
            eng.assume(Not(Eq(sb * y + ob, 0)))
    exp = rule_muldiv(op, ua, ub, v, x, y, autoconvert)
    if form == "inplace-scalar":
        a, b = ureg.Quantity(x, ua), ureg.Quantity(y, ub)
        iop_s = operator.imul if op == "*" else operator.itruediv

        def run_s():
            nonlocal a
            a = iop_s(a, b)
            return a

        r = _check_outcome(eng, "i" + op + "-scalar", run_s, exp)
        if r is None:
            return
        eng.prove(_units_equal(r._units, exp[0]), "inplace-scalar-units")
        eng.prove(Eq(r.magnitude, exp[1]), "inplace-scalar-value")
        eng.prove(And(Eq(b.magnitude, y), _units_equal(b._units, {ub: 1})), "inplace-scalar-other-untouched")
    elif form == "scalar":
        a, b = ureg.Quantity(x, ua), ureg.Quantity(y, ub)
        r = _check_outcome(eng, op, lambda: pyop(a, b), exp)
        if r is None:
            return
        eng.prove(_units_equal(r._units, exp[0]), "result-units")
        eng.prove(Eq(r.magnitude, exp[1]), "result-value")
        eng.prove(And(Eq(a.magnitude, x), Eq(b.magnitude, y), _units_equal(a._units, {ua: 1}), _units_equal(b._units, {ub: 1})), "operands-untouched")
    else:
        import numpy as np

        x2 = eng.real("x2")
        a = ureg.Quantity(np.array([x, x2], dtype=object), ua)
        b = ureg.Quantity(y, ub)
        iop = operator.imul if op == "*" else operator.itruediv

        def run():
            nonlocal a
            a = iop(a, b)
            return a

        r = _check_outcome(eng, "i" + op, run, exp)
        if r is None:
            return
        eng.prove(_units_equal(r._units, exp[0]), "inplace-units")
        eng.prove(Eq(r.magnitude[0], exp[1]), "inplace-value-0")
        exp1 = rule_muldiv(op, ua, ub, v, x2, y, autoconvert)
        eng.prove(Eq(r.magnitude[1], exp1[1]), "inplace-value-1")


def h_number(eng, what, ua, autoconvert, form="scalar"):
    """bare number operands:  q*c, c*q, q/c, c/q, q+c, q-c, c-q; form 'inplace-array': the
    in-place twins q*=c, q/=c, q+=c, q-=c on object arrays (same rule, element-wise)"""
    ureg, v = _setup(eng, autoconvert)
    x, c = eng.real("x"), eng.real("c")
    k, s, o = _so(v, ua)
    a = ureg.Quantity(x, ua)
    off = k == "O"
    if form == "inplace-array":
        import numpy as np

        x2 = eng.real("x2")
        arr = ureg.Quantity(np.array([x, x2], dtype=object), ua)
        iop = {"q*c": operator.imul, "q/c": operator.itruediv, "q+c": operator.iadd, "q-c": operator.isub}[what]

        def run():
            nonlocal arr
            arr = iop(arr, c)
            return arr

        if what in ("q*c", "q/c"):
            if what == "q/c":
                eng.assume(Not(Eq(c, 0)))
                exp = ("err", OffsetUnitCalculusError) if off else ({ua: 1}, x / c)
                exp2 = None if off else x2 / c
            else:
                exp = ("err", OffsetUnitCalculusError) if (off and not autoconvert) else ({ua: 1}, x * c)
                exp2 = x2 * c
            r = _check_outcome(eng, "i" + what, run, exp)
            if r is None:
                return
            eng.prove(_units_equal(r._units, exp[0]), "i" + what + ":units")
            eng.prove(Eq(r.magnitude[0], exp[1]), "i" + what + ":value-0")
            eng.prove(Eq(r.magnitude[1], exp2), "i" + what + ":value-1")
        else:
            try:
                r = run()
            except DimensionalityError:
                eng.prove(Not(Eq(c, 0)), "i" + what + ":error-only-for-nonzero")
                return
            eng.prove(Eq(c, 0), "i" + what + ":accepted-only-zero")
            eng.prove(_units_equal(r._units, {ua: 1}), "i" + what + ":unit")
            eng.prove(And(Eq(r.magnitude[0], x), Eq(r.magnitude[1], x2)), "i" + what + ":value")
        return
    if what in ("q*c", "c*q"):
        exp = ("err", OffsetUnitCalculusError) if (off and not autoconvert) else ({ua: 1}, x * c)
        r = _check_outcome(eng, what, (lambda: a * c) if what == "q*c" else (lambda: c * a), exp)
    elif what == "q/c":
        eng.assume(Not(Eq(c, 0)))
        exp = ("err", OffsetUnitCalculusError) if off else ({ua: 1}, x / c)
        r = _check_outcome(eng, what, lambda: a / c, exp)
    elif what == "c/q":
        if off:
            eng.assume(Not(Eq(s * x + o, 0)))
            exp = ("err", OffsetUnitCalculusError) if not autoconvert else ({"kel": -1}, c / (s * x + o))
        else:
            eng.assume(Not(Eq(x, 0)))
            exp = ({ua: -1}, c / x)
        r = _check_outcome(eng, what, lambda: c / a, exp)
    else:
        # + and - with a bare number: only the number zero is accepted for a dimensional quantity
        pyf = {"q+c": lambda: a + c, "q-c": lambda: a - c, "c-q": lambda: c - a, "c+q": lambda: c + a}[what]
        try:
            r = pyf()
        except DimensionalityError:
            eng.prove(Not(Eq(c, 0)), what + ":error-only-for-nonzero")
            return
        eng.prove(Eq(c, 0), what + ":accepted-only-zero")
        eng.prove(_units_equal(r._units, {ua: 1}), what + ":unit")
        eng.prove(Eq(r.magnitude, -x if what == "c-q" else x), what + ":value")
        return
    if r is None:
        return
    eng.prove(_units_equal(r._units, exp[0]), what + ":units")
    eng.prove(Eq(r.magnitude, exp[1]), what + ":value")


def h_pow(eng, ua, e, autoconvert, form):
    ureg, v = _setup(eng, autoconvert)
    x = eng.real("x")
    k, s, o = _so(v, ua)
    off = k == "O"
    if e < 0:
        eng.assume(Not(Eq((s * x + o) if off else x, 0)))
    if e == 1:
        exp = ({ua: 1}, x)
    elif e == 0:
        exp = ({}, 1)
    elif off:
        exp = ("err", OffsetUnitCalculusError) if not autoconvert else ({"kel": e}, (s * x + o) ** e)
    else:
        exp = ({ua: e}, x**e)
    if form == "scalar":
        a = ureg.Quantity(x, ua)
        r = _check_outcome(eng, f"**{e}", lambda: a**e, exp)
        if r is None:
            return
        eng.prove(_units_equal(r._units, exp[0]), "pow-units")
        eng.prove(Eq(r.magnitude, exp[1]), "pow-value")
        eng.prove(And(Eq(a.magnitude, x), _units_equal(a._units, {ua: 1})), "pow-operand-untouched")
    else:
        import numpy as np

        x2 = eng.real("x2")
        if e < 0:
            eng.assume(Not(Eq((s * x2 + o) if off else x2, 0)))
        a = ureg.Quantity(np.array([x, x2], dtype=object), ua)

        def run():
            nonlocal a
            a **= e
            return a

        r = _check_outcome(eng, f"**={e}", run, exp)
        if r is None:
            return
        eng.prove(_units_equal(r._units, exp[0]), "ipow-units")
        eng.prove(Eq(r.magnitude[0], exp[1]), "ipow-value")


def h_unary_cmp(eng, ua, ub):
    ureg, v = _setup(eng, False)
    x, y = eng.real("x"), eng.real("y")
    a, b = ureg.Quantity(x, ua), ureg.Quantity(y, ub)
    ka, sa, oa = _so(v, ua)
    kb, sb, ob = _so(v, ub)
    n = -a
    eng.prove(And(Eq(n.magnitude, -x), _units_equal(n._units, {ua: 1})), "neg")
    if "X" in (ka, kb) and ka != kb:
        eng.prove(Iff(a == b, False), "eq-cross-dimension")
        try:
            a < b
        except DimensionalityError:
            return
        eng.fail("lt-cross-dimension-no-error")
    pa, pb = sa * x + oa, sb * y + ob
    convertible = {ka, kb} != {"O", "D"}
    eng.prove(Iff(a == b, And(convertible, Eq(pa, pb))), "eq-physical")
    eng.prove(Iff(a < b, pa < pb), "lt-physical")


def h_convert_generated(eng, ua, ub, form):
    """Q(x, ua).to(ub) by the defining affine maps; delta <-> offset refused"""
    ureg, v = _setup(eng, False)
    x = eng.real("x")
    ka, sa, oa = _so(v, ua)
    kb, sb, ob = _so(v, ub)
    if form == "to":
        a = ureg.Quantity(x, ua)
        fn = lambda: a.to(ub)
    elif form == "ito-array":
        import numpy as np

        x2 = eng.real("x2")
        a = ureg.Quantity(np.array([x, x2], dtype=object), ua)

        def fn():
            a.ito(ub)
            return a
    else:
        fn = lambda: ureg.Quantity(ureg.convert(x, ua, ub), ub)
    if "X" in (ka, kb) and ka != kb:
        exp = ("err", DimensionalityError)
    elif {ka, kb} == {"O", "D"}:
        exp = ("err", DimensionalityError)
    else:
        exp = (ub, (sa * x + oa - ob) / sb)
    r = _check_outcome(eng, f"convert-{form}", fn, exp)
    if r is None:
        if exp[0] == "err" and form == "ito-array":
            # a refused in-place conversion leaves the quantity exactly as it was
            eng.prove(And(Eq(a.magnitude[0], x), Eq(a.magnitude[1], x2)), "convert-ito-array:refused-leaves-magnitude")
            eng.prove(_units_equal(a._units, {ua: 1}), "convert-ito-array:refused-leaves-unit")
        return
    m = r.magnitude[0] if form == "ito-array" else r.magnitude
    eng.prove(Eq(m, exp[1]), "convert-value")
    eng.prove(_units_equal(r._units, {ub: 1}), "convert-unit")
    if form == "ito-array":
        eng.prove(Eq(r.magnitude[1], (sa * x2 + oa - ob) / sb), "convert-value-1")
    if form == "to":
        back = r.to(ua)
        eng.prove(Eq(back.magnitude, x), "convert-round-trip")


def h_convert_scaled_reference(eng, form):
    """offset units whose reference units differ (one sits on the root unit, one on a scaled unit
    of the same dimension): the conversion goes reference -> reference in between"""
    s1, o1, s3, s4, o4, x = (eng.real(n) for n in ("s1", "o1", "s3", "s4", "o4", "x"))
    for sv in (s1, s3, s4):
        eng.assume(sv > 0)
    for ov in (o1, o4):
        eng.assume(Not(Eq(ov, 0)))  # (an offset of zero makes a plain multiplicative unit)
    L = eng.lit
    lines = ["kel = [temp] = KL", f"rank = {L(s3)} * kel = RK", f"degA = {L(s1)} * kel; offset: {L(o1)} = dgA", f"degR = {L(s4)} * rank; offset: {L(o4)} = dgR", f"degS = 2 * degR_ref; offset: {L(o1)}", "degR_ref = 3 * rank"]
    ureg = regs.build(eng, lines)
    to_kel = {"degA": lambda t: s1 * t + o1, "degR": lambda t: s3 * (s4 * t + o4), "kel": lambda t: t, "rank": lambda t: s3 * t, "degS": lambda t: 3 * s3 * (2 * t + o1)}
    from_kel = {"degA": lambda k: (k - o1) / s1, "degR": lambda k: (k / s3 - o4) / s4, "kel": lambda k: k, "rank": lambda k: k / s3, "degS": lambda k: (k / (3 * s3) - o1) / 2}
    import numpy as np

    for ua in to_kel:
        for ub in to_kel:
            if ua == ub:
                continue
            want = from_kel[ub](to_kel[ua](x))
            if form == "to":
                got = ureg.Quantity(x, ua).to(ub).magnitude
            elif form == "convert":
                got = ureg.convert(x, ua, ub)
            else:
                q = ureg.Quantity(np.array([x, x], dtype=object), ua)
                q.ito(ub)
                got = q.magnitude[1]
            eng.prove(Eq(got, want), f"scaled-reference:{form}:{ua}->{ub}")
    # delta units of an offset unit on a scaled reference
    eng.prove(Eq(ureg.Quantity(x, "delta_degR").to("kel").magnitude, s3 * s4 * x), f"scaled-reference:{form}:delta_degR->kel")
    eng.prove(Eq(ureg.Quantity(x, "delta_degR").to("delta_degA").magnitude, s3 * s4 * x / s1), f"scaled-reference:{form}:delta_degR->delta_degA")


def h_log_scaled_reference(eng):
    """two logarithmic units whose reference units differ (milliwatt / kilowatt), float registry"""
    import math

    import pint

    ureg = pint.UnitRegistry()
    ureg.define("decibelkilowatt = 1 kilowatt; logbase: 10; logfactor: 10 = dBkW")
    ureg.define("neperkilowatt = 1 kilowatt; logbase: 2.71828182845904523536028747135266249775724709369995; logfactor: 0.5 = NpkW")
    for v in (0.0, 3.0, -12.5):
        for src, dst, fn in (("dBkW", "dBm", lambda t: t + 60.0), ("dBm", "dBkW", lambda t: t - 60.0), ("dBkW", "dBW", lambda t: t + 30.0), ("dBkW", "NpkW", lambda t: t * math.log(10) / 20)):
            got = ureg.Quantity(v, src).to(dst).magnitude
            eng.prove(math.isclose(got, fn(v), rel_tol=1e-9, abs_tol=1e-9), f"log-scaled-reference:{src}->{dst}:{v}")
            import numpy as np

            q = ureg.Quantity(np.array([v, v]), src)
            q.ito(dst)
            eng.prove(math.isclose(q.magnitude[1], fn(v), rel_tol=1e-9, abs_tol=1e-9), f"log-scaled-reference:ito-array:{src}->{dst}:{v}")


def h_convert_compound(eng, autoconvert):
    """compound units with offset units: conversion is refused (DimensionalityError) except a
    single first-power offset unit in a product under autoconvert mode"""
    ureg, v = _setup(eng, autoconvert)
    x = eng.real("x")
    UC = ureg.UnitsContainer

    def refused(label, src, dst):
        try:
            ureg.convert(x, UC(src), UC(dst))
        except DimensionalityError:
            eng.prove(True, label + ":refused")
            return
        eng.fail(label + ":converted")

    refused("two-offset-units", {"degA": 1, "degB": 1}, {"kel": 2})
    refused("two-offset-units-dst", {"kel": 2}, {"degA": 1, "degB": 1})
    refused("offset-squared", {"degA": 2}, {"kel": 2})
    refused("offset-squared-dst", {"kel": 2}, {"degB": 2})
    refused("offset-inverse", {"degA": -1}, {"kel": -1})
    # ... also next to other units, in either mode and on either side
    refused("offset-squared-over-base", {"degA": 2, "kel": -1}, {"kel": 1})
    refused("offset-squared-over-base-dst", {"kel": 1}, {"degB": 2, "kel": -1})
    refused("offset-squared-in-product", {"degA": 2, "oth": 1}, {"kel": 2, "oth": 1})
    refused("offset-squared-in-product-dst", {"kel": 2, "oth": 1}, {"degB": 2, "oth": 1})
    refused("offset-inverse-in-product", {"degA": -1, "oth": 1}, {"kel": -1, "oth": 1})
    refused("offset-inverse-in-product-dst", {"kel": -1, "oth": 1}, {"degB": -1, "oth": 1})
    if not autoconvert:
        refused("offset-in-product", {"degA": 1, "oth": 1}, {"kel": 1, "oth": 1})
        refused("offset-in-product-dst", {"kel": 1, "oth": 1}, {"degB": 1, "oth": 1})
    else:
        # autoconvert mode: the code either refuses (DimensionalityError) or must give the
        # value through the base unit; it must never produce another number
        try:
            r = ureg.convert(x, UC({"degA": 1, "oth": 1}), UC({"kel": 1, "oth": 1}))
        except DimensionalityError:
            eng.prove(True, "autoconvert-offset-in-product:refused")
        else:
            eng.prove(Eq(r, v["s1"] * x + v["o1"]), "autoconvert-offset-in-product")
        try:
            r = ureg.convert(x, UC({"kel": 1, "oth": 1}), UC({"degB": 1, "oth": 1}))
        except DimensionalityError:
            eng.prove(True, "autoconvert-offset-in-product-dst:refused")
        else:
            eng.prove(Eq(r, (x - v["o2"]) / v["s2"]), "autoconvert-offset-in-product-dst")
    # arithmetic on a quantity whose units hold an offset unit next to others (degA*oth, degA/oth):
    # refused, or -- in autoconvert mode -- computed through the base unit; never the raw number
    # with the offset unit left in place
    y = eng.real("y")
    eng.assume(Not(Eq(y, 0)))
    eng.assume(Not(Eq(x, 0)))
    for cname, cu, cexp in (("degA*oth", {"degA": 1, "oth": 1}, 1), ("degA/oth", {"degA": 1, "oth": -1}, -1)):
        q = ureg.Quantity(x, UC(cu))
        b = ureg.Quantity(y, "oth")
        for oname, fn in (("q*b", lambda: q * b), ("b*q", lambda: b * q), ("q/b", lambda: q / b), ("b/q", lambda: b / q), ("q*2", lambda: q * 2), ("2/q", lambda: 2 / q), ("q*q", lambda: q * q), ("q*rank", lambda: q * ureg.Quantity(y, "rank"))):
            try:
                r = fn()
            except (OffsetUnitCalculusError, DimensionalityError):
                eng.prove(True, f"offset-in-compound-operand:{cname}:{oname}:refused")
                continue
            if not autoconvert:
                eng.fail(f"offset-in-compound-operand:{cname}:{oname}:accepted-without-autoconvert")
            eng.prove(not any(k in ("degA", "degB") for k in r._units), f"offset-in-compound-operand:{cname}:{oname}:offset-unit-left-in-result")
    # an operand that holds two offset units is never multiplied or divided, in either mode
    for cname, cu in (("degA*degB", {"degA": 1, "degB": 1}), ("degA/degB", {"degA": 1, "degB": -1}), ("degA*degB*oth", {"degA": 1, "degB": 1, "oth": 1})):
        q = ureg.Quantity(x, UC(cu))
        b = ureg.Quantity(y, "oth")
        for oname, fn in (("q*2", lambda: q * 2), ("2*q", lambda: 2 * q), ("q/2", lambda: q / 2), ("2/q", lambda: 2 / q), ("q*b", lambda: q * b), ("b/q", lambda: b / q), ("q*kel", lambda: q * ureg.Quantity(y, "kel"))):
            try:
                fn()
            except (OffsetUnitCalculusError, DimensionalityError):
                eng.prove(True, f"two-offset-units-operand:{cname}:{oname}:refused")
            else:
                eng.fail(f"two-offset-units-operand:{cname}:{oname}:accepted")
    # delta units are ordinary multiplicative units in compounds
    r = ureg.convert(x, UC({"delta_degA": 1, "oth": -1}), UC({"delta_degB": 1, "oth": -1}))
    eng.prove(Eq(r, x * v["s1"] / v["s2"]), "delta-in-compound")
    refused("offset-to-delta-compound", {"degA": 1}, {"delta_degA": 1})


def h_parse_modes(eng, default_as_delta):
    ureg, v = _setup(eng, False, default_as_delta)
    x = eng.real("x")
    # prefixing an offset unit is refused
    for text in ("kkdegA", "kkdgA"):
        try:
            ureg.Quantity(x, text)
        except OffsetUnitCalculusError:
            eng.prove(True, f"prefix-refused:{text}")
            continue
        eng.fail(f"prefix-accepted:{text}")
    # a delta unit and a multiplicative unit of the dimension take prefixes
    r = ureg.Quantity(x, "kkdelta_degA").to("delta_degA")
    eng.prove(Eq(r.magnitude, 1000 * x), "prefix-on-delta")
    # compound expressions read offset units as deltas unless disabled
    d = "delta_degA" if default_as_delta else "degA"
    eng.prove(_units_equal(ureg.parse_units("degA/oth")._units, {d: 1, "oth": -1}), "compound-as-delta-default")
    eng.prove(_units_equal(ureg.parse_units("degA")._units, {"degA": 1}), "single-not-delta")
    eng.prove(_units_equal(ureg.parse_units("degA**2")._units, {d: 2}), "power-as-delta-default")
    eng.prove(_units_equal(ureg.parse_units("degA/oth", as_delta=False)._units, {"degA": 1, "oth": -1}), "compound-as_delta-False")
    eng.prove(_units_equal(ureg.parse_units("degA*oth", as_delta=True)._units, {"delta_degA": 1, "oth": 1}), "compound-as_delta-True")
    q = ureg.Quantity(x, "degA/oth")
    eng.prove(Eq(q.magnitude, x), "compound-magnitude-unchanged")
    # automatic delta units: symbol and aliases
    eng.prove(ureg.get_name("ΔdgA") == "delta_degA", "delta-symbol")
    # delta converts by scale only
    r = ureg.Quantity(x, "delta_degA").to("delta_degB")
    eng.prove(Eq(r.magnitude, x * v["s1"] / v["s2"]), "delta-to-delta-scale-only")
    r = ureg.Quantity(x, "delta_degA/oth").to("kel/oth")
    eng.prove(Eq(r.magnitude, x * v["s1"]), "delta-compound")


def h_default_temperatures(eng, ua, ub):
    """default registry: every ordered pair of temperature-like units, against REF"""
    ureg = regs.default(eng)
    ia, ib = covers.info(ua), covers.info(ub)
    x = eng.real("x")
    a = ureg.Quantity(x, ua)
    if {ia.kind, ib.kind} == {"offset", "delta"}:
        try:
            a.to(ub)
        except DimensionalityError:
            eng.prove(True, "offset-delta-refused")
            return
        eng.fail("offset-delta-converted")
    r = a.to(ub)
    eng.prove(Eq(r.magnitude, (ia.num * x + ia.off - ib.off) / ib.num), "temperature-conversion")
    eng.prove(Eq(r.to(ua).magnitude, x), "temperature-round-trip")


def h_log(eng, unit, ref, scale, logbase, logfactor, autoconvert):
    """log units of the default registry: defining map with uninterpreted exp/log.

    Symbolic run: exact, exp/log are an uninterpreted inverse pair.  Concrete replay: a
    Fraction registry cannot evaluate log units at all (numpy.log has no loop for Fraction),
    so counterexamples are replayed on the float registry with a relative tolerance."""
    import math

    if eng.symbolic:
        ureg = regs.default(eng, autoconvert_offset_to_baseunit=autoconvert)
        x, y = eng.real("x"), eng.real("y")
        num = eng.num
        f_exp, f_log = (lambda q: q.exp()), (lambda q: q.log())
        close = Eq
    else:
        ureg = regs.float_default(autoconvert_offset_to_baseunit=autoconvert)
        x, y = float(eng.real("x")), float(eng.real("y"))
        num = float
        f_exp, f_log = math.exp, math.log

        def close(a, b):
            return math.isclose(a, b, rel_tol=1e-9, abs_tol=1e-12)

    eng.assume(y > 0)
    lb = f_log(num(logbase))
    # to the reference unit: scale * exp(log(logbase) * x / logfactor)
    q = ureg.Quantity(x, unit)
    try:
        r = q.to(ref)
    except OverflowError:
        return
    expect = num(scale) * f_exp(lb * (x / num(logfactor)))
    eng.prove(close(r.magnitude, expect), "log-to-reference")
    # from the reference unit: logfactor * log(y / scale) / log(logbase)
    r2 = ureg.Quantity(y, ref).to(unit)
    expect2 = num(logfactor) * f_log(y / num(scale)) / lb
    eng.prove(close(r2.magnitude, expect2), "log-from-reference")
    # mutually inverse
    back = r.to(unit)
    eng.prove(close(back.magnitude, x), "log-round-trip")
    back2 = r2.to(ref)
    eng.prove(close(back2.magnitude, y), "log-round-trip-2")
    # the in-place conversions of array quantities follow the same maps
    import numpy as np

    y2 = eng.real("y2") if eng.symbolic else float(eng.real("y2"))
    eng.assume(y2 > 0)
    dt = object if eng.symbolic else float
    qa = ureg.Quantity(np.array([y, y2], dtype=dt), ref)
    qa.ito(unit)
    eng.prove(close(qa.magnitude[0], expect2), "log-from-reference-inplace-array[0]")
    eng.prove(close(qa.magnitude[1], num(logfactor) * f_log(y2 / num(scale)) / lb), "log-from-reference-inplace-array[1]")
    qb = ureg.Quantity(np.array([x, x], dtype=dt), unit)
    try:
        qb.ito(ref)
    except OverflowError:
        return
    eng.prove(close(qb.magnitude[0], expect), "log-to-reference-inplace-array")
    # a refused in-place conversion (another dimension) leaves the array quantity as it was
    qc = ureg.Quantity(np.array([x, x], dtype=dt), unit)
    try:
        qc.ito("kelvin" if "kelvin" not in ref else "meter")
    except DimensionalityError:
        eng.prove(close(qc.magnitude[0], x) and close(qc.magnitude[1], x), "log-refused-inplace-leaves-magnitude")
        eng.prove(qc.units == ureg.Unit(unit), "log-refused-inplace-leaves-unit")
    else:
        eng.fail("log-cross-dimension-ito-accepted")
    # arithmetic that would be ambiguous is refused without autoconvert
    if not autoconvert:
        try:
            q * ureg.Quantity(y, ref)
        except OffsetUnitCalculusError:
            eng.prove(True, "log-mul-refused")
        else:
            eng.fail("log-mul-accepted")
        try:
            q + ureg.Quantity(y, ref)
        except (OffsetUnitCalculusError, DimensionalityError):
            eng.prove(True, "log-add-refused")
        else:
            eng.fail("log-add-accepted")


MIN_DISCHARGED = {"H06.a": 50, "H06.b": 100, "H06.c-addsub": 300, "H06.c-muldiv": 200, "H06.c-number": 60, "H06.c-pow": 60, "H06.c-cmp": 60}

KINDS_REPR = ["degA", "degB", "kel", "rank", "delta_degA", "delta_degB", "oth"]


def cases(tier, seed):
    big = tier == "thorough"
    out = []
    opts = {"hash_mode": "mixed"}
    # H06.a default registry temperatures
    for ua, ub in itertools.permutations(covers.TEMPERATURE, 2):
        out.append(Case("H06.a", f"{ua}->{ub}", M, "h_default_temperatures", {"ua": ua, "ub": ub}, validate=1))
    # H06.b generated conversions
    for ua, ub in itertools.product(KINDS_REPR, KINDS_REPR):
        if ua == ub:
            continue
        forms = ["to", "ito-array", "convert"] if big or (ua, ub) in (("degA", "degB"), ("degA", "kel"), ("kel", "degB"), ("delta_degA", "rank"), ("degA", "delta_degB"), ("degA", "oth"), ("oth", "degB"), ("delta_degA", "oth"), ("delta_degB", "degB")) else ["to"]
        for form in forms:
            out.append(Case("H06.b", f"{ua}->{ub}:{form}", M, "h_convert_generated", {"ua": ua, "ub": ub, "form": form}, opts=opts, validate=1))
    for form in ("to", "convert", "ito-array"):
        out.append(Case("H06.b", f"scaled-reference:{form}", M, "h_convert_scaled_reference", {"form": form}, opts=opts, validate=1))
    out.append(Case("H06.d", "log-units-on-different-references", M, "h_log_scaled_reference", {}, kind="conc"))
    for ac in (False, True):
        out.append(Case("H06.b-compound", f"ac={ac}", M, "h_convert_compound", {"autoconvert": ac}, opts=opts, validate=1))
    for dad in (True, False):
        out.append(Case("H06.b-parse", f"default_as_delta={dad}", M, "h_parse_modes", {"default_as_delta": dad}, opts=opts, validate=1))
    # H06.c calculus table
    for op in "+-":
        for ua, ub in itertools.product(KINDS_REPR, KINDS_REPR):
            forms = ["scalar", "inplace", "inplace-scalar"] + (["rsub"] if op == "-" else [])
            for form in forms:
                for ac in (False, True) if (big or form in ("scalar", "inplace-scalar")) else (False,):
                    out.append(Case("H06.c-addsub", f"{ua}{op}{ub}:{form}:ac={ac}", M, "h_addsub", {"op": op, "ua": ua, "ub": ub, "autoconvert": ac, "form": form}, opts=opts, validate=1))
    for op in "*/":
        for ua, ub in itertools.product(KINDS_REPR, KINDS_REPR):
            for form in ("scalar", "inplace", "inplace-scalar"):
                for ac in (False, True):
                    if form == "inplace" and not big and ac and UNITS[ua][0] != "O" and UNITS[ub][0] != "O":
                        continue
                    out.append(Case("H06.c-muldiv", f"{ua}{op}{ub}:{form}:ac={ac}", M, "h_muldiv", {"op": op, "ua": ua, "ub": ub, "autoconvert": ac, "form": form}, opts=opts, validate=1))
    for what in ("q*c", "c*q", "q/c", "c/q", "q+c", "q-c", "c-q", "c+q"):
        for ua in ("degA", "kel", "rank", "delta_degB", "oth"):
            for ac in (False, True):
                out.append(Case("H06.c-number", f"{what}:{ua}:ac={ac}", M, "h_number", {"what": what, "ua": ua, "autoconvert": ac}, opts=opts, validate=1))
                if what in ("q*c", "q/c", "q+c", "q-c"):
                    out.append(Case("H06.c-number", f"{what}:{ua}:ac={ac}:inplace-array", M, "h_number", {"what": what, "ua": ua, "autoconvert": ac, "form": "inplace-array"}, opts=opts, validate=1))
    for ua in ("degA", "degB", "kel", "rank", "delta_degA"):
        for e in (-2, -1, 0, 1, 2):
            for ac in (False, True):
                for form in ("scalar", "inplace"):
                    out.append(Case("H06.c-pow", f"{ua}**{e}:{form}:ac={ac}", M, "h_pow", {"ua": ua, "e": e, "autoconvert": ac, "form": form}, opts=opts, validate=1))
    for ua, ub in itertools.product(KINDS_REPR, KINDS_REPR):
        out.append(Case("H06.c-cmp", f"{ua}?{ub}", M, "h_unary_cmp", {"ua": ua, "ub": ub}, opts=opts, validate=1))
    # H06.d logarithmic units of the default registry
    logs = [
        ("decibelmilliwatt", "watt", "1e-3", "10", "10"),
        ("decibelwatt", "watt", "1", "10", "10"),
        ("decibelmicrowatt", "watt", "1e-6", "10", "10"),
        ("decibel", "dimensionless", "1", "10", "10"),
        ("decade", "dimensionless", "1", "10", "1"),
        ("octave", "dimensionless", "1", "2", "1"),
        ("neper", "dimensionless", "1", "2.71828182845904523536028747135266249775724709369995", "0.5"),
    ]
    for unit, ref, scale, lb, lf in logs:
        for ac in (False, True):
            out.append(Case("H06.d", f"{unit}:ac={ac}", M, "h_log", {"unit": unit, "ref": ref, "scale": scale, "logbase": lb, "logfactor": lf, "autoconvert": ac}, validate=0))
    out.append(Case("H06.obs", "observed", "pvlib.harness.observed", "h_c06", {}, kind="conc"))
    return out
