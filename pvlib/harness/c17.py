"""C17 -- wraps/check decorators hand over correct magnitudes and enforce dimensions.

The oracle (``Oracle`` below) is an independent reading of the documented wraps semantics;
the argument magnitudes are symbolic, the signature structures are enumerated."""

from __future__ import annotations

import itertools
import random
from fractions import Fraction

from pint.errors import DimensionalityError

from .. import covers, regs
from ..runner import Case
from ..sx.q import And, Eq, Not

PROPERTY = "C17"
M = "pvlib.harness.c17"

META = {
    "explanation": "ureg.wraps / ureg.check of the real code applied to generated function signatures; the magnitudes seen inside the wrapped function and the re-wrapped result "
    "are proved equal, for all argument magnitudes, to an independent reading of the documented semantics (unit specs, None, '=A' definitions, '=A*B' / '=A**2' dependents, defaults, "
    "keyword arguments, strict mode, scalar/tuple/reference return specs); exceptions are part of the oracle.",
    "functions_encoded": [
        "pint/registry_helpers.py::wraps, check, _parse_wrap_args, _converter, _to_units_container, _replace_units, _apply_defaults",
        "pint/facets/context/registry.py::with_context",
        "pint/facets/plain/registry.py::_convert (through the decorators)",
    ],
    "bounds": {"parameters": "1-3 (3: seeded sample in quick)", "spec alphabet": "None, 'meter', Unit(second), '=A', '=B', '=A*B', '=A**2', '=A*B**-1'", "argument kinds": "quantity in a compatible unit, in an incompatible unit, bare number", "call forms": "positional, last-as-keyword, last-by-default", "magnitudes": "all rationals (symbolic)"},
    "enumerated_axes": [{"axis": "signature x spec tuple x call form x strict x return spec", "exhaustive": False}],
    "outside_claim": ["more than 3 parameters", "string arguments parsed in strict mode", "ndarray arguments"],
}

SPECS = [None, "meter", "U:second", "=A", "=B", "=A*B", "=A**2", "=A*B**-1"]
ALT = {"meter": "inch", "second": "hour"}
BAD = {"meter": "gram", "second": "gram"}


def _parse_ref(s):
    expr = s.split("=", 1)[1]
    out = {}
    for part in expr.split("*"):
        pass
    # tiny parser: names A,B with optional **k, joined by *
    toks = expr.replace("**", "^").split("*")
    for t in toks:
        if "^" in t:
            n, k = t.split("^")
            out[n] = out.get(n, 0) + int(k)
        else:
            out[t] = out.get(t, 0) + 1
    return out


class Oracle:
    """documented semantics of wraps, written without looking at pint's data flow"""

    def __init__(self, specs):
        self.kinds = []
        self.defs = {}
        for i, s in enumerate(specs):
            if s is None:
                self.kinds.append(("none",))
            elif s.startswith("="):
                ref = _parse_ref(s)
                if len(ref) == 1 and list(ref.values())[0] == 1 and list(ref)[0] not in self.defs:
                    self.defs[list(ref)[0]] = i
                    self.kinds.append(("def", list(ref)[0]))
                else:
                    self.kinds.append(("dep", ref))
            else:
                self.kinds.append(("unit", s.replace("U:", "")))
        self.decoration_error = None
        for k in self.kinds:
            if k[0] == "dep" and not set(k[1]) <= set(self.defs):
                self.decoration_error = ValueError


def _vec(units):
    """dict unit->exp -> (factor to root, root vector)"""
    inf = covers.infos()
    f = Fraction(1)
    v = {}
    for u, e in units.items():
        i = inf[u]
        f *= i.num**e
        for r, k in i.roots:
            v[r] = v.get(r, 0) + k * e
    return f, {k: x for k, x in v.items() if x != 0}


def h_wraps(eng, structs):
    ureg = regs.default(eng)
    inf = covers.infos()
    for si, st in enumerate(structs):
        specs, argkinds, form, strict, ret = st["specs"], st["args"], st["form"], st["strict"], st["ret"]
        n = len(specs)
        tag = f"s{si}"
        orc = Oracle(specs)
        real_specs = [ureg.Unit(s[2:]) if isinstance(s, str) and s.startswith("U:") else s for s in specs]
        real_ret = tuple(real_ret_item(ureg, r) for r in ret) if isinstance(ret, list) else real_ret_item(ureg, ret)
        seen = []
        retv = eng.real(f"{tag}_ret")

        # build the function with the right arity and an optional default on the last parameter
        mags = [eng.real(f"{tag}_x{i}") for i in range(n)]
        passed = []
        for i, kind in enumerate(argkinds):
            if kind[0] == "q":
                passed.append(ureg.Quantity(mags[i], kind[1]))
            else:
                passed.append(mags[i])
        names = [f"p{i}" for i in range(n)]
        src = _signature(names, form)
        src += "    seen.append((" + ", ".join(names) + ",))\n"
        src += "    return " + ("(retv, retv)" if isinstance(ret, list) else "retv") + "\n"
        env = {"seen": seen, "retv": retv, "DEFAULT": passed[-1]}
        env.update({f"DEFAULT{i}": v for i, v in enumerate(passed)})
        exec(src, env)  # noqa: S102 - generated signature
        f = env["f"]
        try:
            wrapped = ureg.wraps(real_ret, tuple(real_specs), strict=strict)(f)
        except ValueError:
            eng.prove(orc.decoration_error is ValueError, f"{tag}:decoration-ValueError-expected")
            continue
        eng.prove(orc.decoration_error is None, f"{tag}:decoration-accepted")
        # expected received values / exception
        exp_exc = None
        expected = []
        byname = {nm: argkinds[i] for nm, i in orc.defs.items()}
        for i, k in enumerate(orc.kinds):
            ak = argkinds[i]
            if k[0] == "none":
                expected.append(("same", None))
            elif k[0] == "def":
                expected.append(("mag", mags[i]))
        # second pass in pint's documented order: definitions, dependents, plain units
        expected = [None] * n
        for i, k in enumerate(orc.kinds):
            if k[0] == "none":
                expected[i] = ("same",)
            elif k[0] == "def":
                expected[i] = ("mag", mags[i])
        for i, k in enumerate(orc.kinds):
            if k[0] == "dep" and exp_exc is None:
                target = {}
                for nm, e in k[1].items():
                    dk = byname[nm]
                    if dk[0] == "q":
                        target[dk[1]] = target.get(dk[1], 0) + e
                src_units = {argkinds[i][1]: 1} if argkinds[i][0] == "q" else {}
                fs, vs = _vec(src_units)
                ft, vt = _vec({u: e for u, e in target.items() if e != 0})
                if _dimvec(vs) != _dimvec(vt):
                    exp_exc = DimensionalityError
                else:
                    expected[i] = ("mag", mags[i] * fs / ft)
        for i, k in enumerate(orc.kinds):
            if k[0] == "unit" and exp_exc is None:
                if argkinds[i][0] == "q":
                    fs, vs = _vec({argkinds[i][1]: 1})
                    ft, vt = _vec({k[1]: 1})
                    if _dimvec(vs) != _dimvec(vt):
                        exp_exc = DimensionalityError
                    else:
                        expected[i] = ("mag", mags[i] * fs / ft)
                elif strict:
                    exp_exc = ValueError
                else:
                    expected[i] = ("mag", mags[i])
        # call
        call = lambda: _call(wrapped, names, passed, form)
        try:
            result = call()
        except DimensionalityError:
            eng.prove(exp_exc is DimensionalityError, f"{tag}:DimensionalityError-expected")
            continue
        except ValueError:
            eng.prove(exp_exc is ValueError, f"{tag}:ValueError-expected")
            continue
        eng.prove(exp_exc is None, f"{tag}:no-error-expected")
        eng.prove(len(seen) == 1, f"{tag}:function-called-once")
        got = seen[0]
        for i in range(n):
            if expected[i][0] == "same":
                eng.prove(got[i] is passed[i], f"{tag}:arg{i}-passed-through")
            else:
                eng.prove(not hasattr(got[i], "_units"), f"{tag}:arg{i}-is-magnitude")
                eng.prove(Eq(got[i], expected[i][1]), f"{tag}:arg{i}-value")
        # return value
        rets = ret if isinstance(ret, list) else [ret]
        results = list(result) if isinstance(ret, list) else [result]
        for j, (rs, rv) in enumerate(zip(rets, results)):
            if rs is None:
                eng.prove(rv is retv or Eq(rv, retv), f"{tag}:ret{j}-raw")
                continue
            if rs.startswith("="):
                target = {}
                for nm, e in _parse_ref(rs).items():
                    dk = byname[nm]
                    if dk[0] == "q":
                        target[dk[1]] = target.get(dk[1], 0) + e
                want = {u: e for u, e in target.items() if e != 0}
            else:
                want = {rs.replace("U:", ""): 1}
            eng.prove(hasattr(rv, "_units"), f"{tag}:ret{j}-is-quantity")
            gotu = {k: (v.c if hasattr(v, "c") else Fraction(v)) for k, v in rv._units.items()}
            eng.prove(gotu == {k: Fraction(v) for k, v in want.items()}, f"{tag}:ret{j}-units")
            eng.prove(Eq(rv.magnitude, retv), f"{tag}:ret{j}-magnitude")


def _signature(names, form):
    """positional/keyword: plain parameters; default: the last one has a default; kw-skip: every
    parameter has a default (only the last is passed, by keyword)"""
    if form == "default":
        params = names[:-1] + [names[-1] + "=DEFAULT"]
    elif form == "kw-skip":
        params = [f"{nm}=DEFAULT{i}" for i, nm in enumerate(names)]
    else:
        params = list(names)
    return "def f(" + ", ".join(params) + "):\n"


def _call(wrapped, names, passed, form):
    if form == "positional":
        return wrapped(*passed)
    if form == "keyword":
        return wrapped(*passed[:-1], **{names[-1]: passed[-1]})
    if form == "default":
        return wrapped(*passed[:-1])
    if form == "kw-reversed":
        # every argument by keyword, written in the reverse of the signature order
        return wrapped(**{nm: v for nm, v in reversed(list(zip(names, passed)))})
    if form == "kw-mixed":
        # first positional, the others by keyword in reverse order
        return wrapped(passed[0], **{nm: v for nm, v in reversed(list(zip(names[1:], passed[1:])))})
    if form == "kw-skip":
        return wrapped(**{names[-1]: passed[-1]})
    raise AssertionError(form)


def real_ret_item(ureg, r):
    if isinstance(r, str) and r.startswith("U:"):
        return ureg.Unit(r[2:])
    return r


def _dimvec(rootvec):
    inf = covers.infos()
    d = {}
    for r, e in rootvec.items():
        for dim, k in inf[r].dims:
            d[dim] = d.get(dim, 0) + k * e
    return {k: v for k, v in d.items() if v != 0}


def h_arity(eng, n_params, n_specs, which):
    """a mismatch between declared and actual parameter count is rejected at decoration"""
    ureg = regs.default(eng)
    names = [f"p{i}" for i in range(n_params)]
    env = {}
    exec("def f(" + ", ".join(names) + "):\n    return 1\n", env)  # noqa: S102
    specs = tuple(["meter", None, "second", "=A"][:n_specs])
    try:
        if which == "wraps":
            ureg.wraps(None, specs)(env["f"])
        else:
            ureg.check(*[("[length]" if s == "meter" else None) for s in specs])(env["f"])
        ok = True
    except TypeError:
        ok = False
    eng.prove(ok == (n_params == n_specs), f"{which}:arity-{n_params}-{n_specs}")


def h_check(eng, dims, units, form):
    """ureg.check raises DimensionalityError exactly when a dimensionality differs"""
    ureg = regs.default(eng)
    inf = covers.infos()
    n = len(dims)
    names = [f"p{i}" for i in range(n)]
    xs = [eng.real(f"x{i}") for i in range(n)]
    args = [ureg.Quantity(x, u) if u is not None else x for x, u in zip(xs, units)]
    env = {"DEFAULT": args[-1]}
    env.update({f"DEFAULT{i}": v for i, v in enumerate(args)})
    exec(_signature(names, form) + "    return (" + ", ".join(names) + ",)\n", env)  # noqa: S102
    wrapped = ureg.check(*dims)(env["f"])
    d = __import__("pvlib.ref.refdefs", fromlist=["x"]).default()
    expect_ok = True
    for dim, u in zip(dims, units):
        if dim is None:
            continue
        want = {k: e for k, e in d.dim_of_expr(dim).items() if e != 0} if dim else {}
        have = dict(inf[u].dims) if u is not None else {}
        if {k: Fraction(v) for k, v in want.items()} != {k: Fraction(v) for k, v in have.items()}:
            expect_ok = False
    try:
        r = _call(wrapped, names, args, form)
        ok = True
    except DimensionalityError:
        ok = False
    eng.prove(ok == expect_ok, "check-raises-iff-dimension-differs")
    if ok:
        for i in range(n):
            eng.prove(r[i] is args[i], f"check-passes-arg{i}-untouched")


def h_with_context(eng):
    ureg = regs.default(eng)
    x = eng.real("x")
    eng.assume(Not(Eq(x, 0)))

    @ureg.with_context("sp")
    def f(q):
        return q.to("hertz")

    q = ureg.Quantity(x, "meter")
    r = f(q)
    eng.prove(Eq(r.magnitude, 299792458 / x), "with_context-converts")
    try:
        q.to("hertz")
        leaked = True
    except DimensionalityError:
        leaked = False
    eng.prove(not leaked, "with_context-scoped")
    # context parameters given to the decorator reach the context, also around wraps / check
    nn = eng.real("nn")
    eng.assume(nn > 0)

    @ureg.with_context("sp", n=nn)
    def g(q):
        return q.to("hertz")

    eng.prove(Eq(g(q).magnitude, 299792458 / (x * nn)), "with_context-parameters-forwarded")
    seen = []

    @ureg.with_context("sp", n=nn)
    @ureg.wraps("hertz", ("hertz",))
    def h(f):
        seen.append(f)
        return f

    r = h(q)
    eng.prove(len(seen) == 1 and Eq(seen[0], 299792458 / (x * nn)), "with_context+wraps-magnitude")
    eng.prove(Eq(r.to("hertz").magnitude, 299792458 / (x * nn)), "with_context+wraps-return")

    @ureg.with_context("sp", n=nn)
    @ureg.check("[length]")
    def k(a):
        return a.to("hertz")

    eng.prove(Eq(k(q).magnitude, 299792458 / (x * nn)), "with_context+check")
    try:
        q.to("hertz")
        leaked = True
    except DimensionalityError:
        leaked = False
    eng.prove(not leaked, "with_context-parameters-scoped")
    # called while the same context is already active with another parameter value: inside the
    # call the decorator's value applies, after it the enclosing block's value is back
    n2 = eng.real("n2")
    eng.assume(n2 > 0)
    eng.assume(Not(Eq(n2, nn)))
    with ureg.context("sp", n=n2):
        eng.prove(Eq(g(q).magnitude, 299792458 / (x * nn)), "with_context-inside-active-context:decorator-parameters-win")
        seen.clear()
        r = h(q)
        eng.prove(len(seen) == 1 and Eq(seen[0], 299792458 / (x * nn)), "with_context+wraps-inside-active-context:magnitude")
        eng.prove(Eq(k(q).magnitude, 299792458 / (x * nn)), "with_context+check-inside-active-context")
        eng.prove(Eq(f(q).magnitude, 299792458 / (x * n2)), "with_context-without-parameters-inherits-the-active-value")
        eng.prove(Eq(q.to("hertz").magnitude, 299792458 / (x * n2)), "with_context-inside-active-context:outer-value-back-afterwards")
    with ureg.context("boltzmann"):
        eng.prove(Eq(g(q).magnitude, 299792458 / (x * nn)), "with_context-inside-unrelated-context")


def h_reference_units(eng):
    """units derived from '=A*B' style references are units like any other: what cancels is gone
    (no zero exponents), so the result equals, prints and hashes like the plainly written unit"""
    ureg = regs.default(eng)
    x, y, r0 = eng.real("x"), eng.real("y"), eng.real("r0")
    rows = [
        ("=A*B", "meter/second", "second", {"meter": 1}),
        ("=A*B**-1", "meter", "meter", {}),
        ("=A*B", "kilometer/hour", "hour", {"kilometer": 1}),
        ("=A**2*B", "meter/second", "second**2", {"meter": 2}),
        ("=A*B", "newton", "meter", {"newton": 1, "meter": 1}),
        ("=A*B**-1", "meter", "second", {"meter": 1, "second": -1}),
    ]
    for ret, ua, ub, want in rows:
        @ureg.wraps(ret, ("=A", "=B"), strict=False)
        def f(a, b):
            return r0

        @ureg.wraps((ret, None), ("=A", "=B"), strict=False)
        def g(a, b):
            return r0, a

        for label, r in (("scalar", f(ureg.Quantity(x, ua), ureg.Quantity(y, ub))), ("tuple", g(ureg.Quantity(x, ua), ureg.Quantity(y, ub))[0])):
            got = {k: (v.c if hasattr(v, "c") else v) for k, v in r._units.items()}
            eng.prove(got == want, f"reference-units:{ret}:{ua},{ub}:{label}:exponents")
            plain = ureg.Unit(ureg.UnitsContainer(want))
            eng.prove(r.units == plain and hash(r.units) == hash(plain) and str(r.units) == str(plain), f"reference-units:{ret}:{ua},{ub}:{label}:same-as-plain-unit")
            eng.prove(Eq(r.magnitude, r0), f"reference-units:{ret}:{ua},{ub}:{label}:magnitude")
            eng.prove(r.unitless == (not want), f"reference-units:{ret}:{ua},{ub}:{label}:unitless-iff-everything-cancels")

        # an argument spec computed from references: converted with the cancelled unit
        seen = []

        @ureg.wraps(None, ("=A", "=B", ret), strict=False)
        def h(a, b, c):
            seen.append(c)
            return None

        h(ureg.Quantity(x, ua), ureg.Quantity(y, ub), ureg.Quantity(r0, ureg.UnitsContainer(want)) if want else r0)
        eng.prove(len(seen) == 1 and Eq(seen[0], r0), f"reference-units:{ret}:{ua},{ub}:dependent-argument-value")


def h_keyword_only_and_decimal(eng):
    """keyword-only parameters are checked like any other; a Decimal magnitude handed to a wrapped
    function of a float registry arrives as the exact decimal product"""
    import decimal

    ureg = regs.float_default()
    Qy = ureg.Quantity

    @ureg.check("[length]", "[time]")
    def speed(d, *, duration):
        return d / duration

    @ureg.check("[length]", "[time]", None)
    def speed2(d, *, duration=Qy(1.0, "second"), note=None):
        return d / duration

    for label, fn, ok in (
        ("kwonly-right", lambda: speed(Qy(1.0, "meter"), duration=Qy(2.0, "second")), True),
        ("kwonly-wrong-dimension", lambda: speed(Qy(1.0, "meter"), duration=Qy(2.0, "kilogram")), False),
        ("kwonly-bare-number", lambda: speed(Qy(1.0, "meter"), duration=2.0), False),
        ("kwonly-default", lambda: speed2(Qy(1.0, "meter")), True),
        ("kwonly-wrong-with-default-present", lambda: speed2(Qy(1.0, "meter"), duration=Qy(1.0, "gram")), False),
        ("positional-wrong", lambda: speed(Qy(1.0, "second"), duration=Qy(2.0, "second")), False),
    ):
        try:
            fn()
            got = True
        except DimensionalityError:
            got = False
        eng.prove(got == ok, f"check:{label}")
    D = decimal.Decimal
    seen = []

    @ureg.wraps("=A", ("meter", "=A", "second"), strict=False)
    def f(a, b, t=D("0")):
        seen.append((a, b, t))
        return b

    r = f(Qy(D("3"), "centimeter"), Qy(D("250"), "millimeter"), t=Qy(D("250"), "millisecond"))
    a, b, t = seen[0]
    eng.prove(a == D("0.03") and str(a) == "0.03", "decimal-magnitude:plain-spec-exact")
    eng.prove(b == D("250") and t == D("0.25") and str(t) in ("0.25", "0.250"), "decimal-magnitude:reference-and-keyword-exact")
    eng.prove(r.magnitude == D("250") and str(r.units) == "millimeter", "decimal-magnitude:return")
    eng.prove(str(Qy(D("3"), "centimeter").to("meter").magnitude) == "0.03", "decimal-magnitude:plain-conversion-exact")


def h_array_defaults(eng):
    """a parameter whose default value is an array (or any object with element-wise ==) is
    filled in like any other default"""
    import numpy as np

    ureg = regs.float_default()
    seen = []

    @ureg.wraps("meter", ("meter", None))
    def f(x, w=np.array([1.0, 2.0])):
        seen.append((x, w))
        return x

    @ureg.check("[length]", None)
    def g(x, w=np.array([1.0, 2.0])):
        return x

    for label, fn in (("wraps", lambda: f(ureg.Quantity(300.0, "centimeter"))), ("check", lambda: g(ureg.Quantity(300.0, "centimeter")))):
        try:
            r = fn()
            eng.prove(abs(r.to("meter").magnitude - 3.0) < 1e-12, f"array-default:{label}:called")
        except ValueError:
            eng.fail(f"array-default:{label}:ambiguous-truth-value", stop=False)
    eng.prove(len(seen) == 1 and abs(seen[0][0] - 3.0) < 1e-12 and list(seen[0][1]) == [1.0, 2.0], "array-default:wraps:default-filled-in")


def h_reentrant(eng):
    """one decorator object, used re-entrantly: a wrapped function that calls itself (or a sibling
    made by the same ureg.wraps(...) object) with arguments in other units still gets its own
    result labelled with the units of its own arguments"""
    ureg = regs.default(eng)
    x, x2, y, y2 = eng.real("x"), eng.real("x2"), eng.real("y"), eng.real("y2")
    deco = ureg.wraps("=A", ("=A", "=A", None), strict=False)
    inner_results = []

    @deco
    def add(a, b, again):
        if again:
            inner_results.append(add(ureg.Quantity(y, "millimeter"), ureg.Quantity(y2, "inch"), False))
        return a + b

    @deco
    def sibling(a, b, flag):
        inner_results.append(add(ureg.Quantity(y, "hour"), ureg.Quantity(y2, "second"), False))
        return a - b

    r = add(ureg.Quantity(x, "meter"), ureg.Quantity(x2, "centimeter"), True)
    eng.prove(r.units == ureg.Unit("meter"), "reentrant:outer-units")
    eng.prove(Eq(r.magnitude, x + x2 / 100), "reentrant:outer-value")
    eng.prove(inner_results[0].units == ureg.Unit("millimeter") and Eq(inner_results[0].magnitude, y + y2 * Fraction(254, 10)), "reentrant:inner-result")
    r = sibling(ureg.Quantity(x, "kilogram"), ureg.Quantity(x2, "gram"), 0)
    eng.prove(r.units == ureg.Unit("kilogram") and Eq(r.magnitude, x - x2 / 1000), "reentrant:sibling-outer")
    eng.prove(inner_results[1].units == ureg.Unit("hour") and Eq(inner_results[1].magnitude, y + y2 / 3600), "reentrant:sibling-inner")
    # the sequential calls afterwards are unaffected
    r = add(ureg.Quantity(x, "inch"), ureg.Quantity(x2, "foot"), False)
    eng.prove(r.units == ureg.Unit("inch") and Eq(r.magnitude, x + 12 * x2), "reentrant:sequential-afterwards")


MIN_DISCHARGED = {"H17.wraps": 1500, "H17.check": 60, "H17.arity": 10}


def h_exact_types(eng):
    """in a Fraction registry the converted arguments, the returned quantities and whatever a
    later conversion of the same pair reads from the memo are exact rationals"""
    from fractions import Fraction as F

    pairs = [("foot", "yard", F(1, 3)), ("inch", "foot", F(1, 12)), ("yard", "mile", F(1, 1760)), ("minute", "hour", F(1, 60)), ("ounce", "pound", F(1, 16))]
    for src, dst, k in pairs:
        for first in ("wraps", "to"):
            ureg = regs.fraction_default()
            if first == "to":
                ureg.Quantity(F(1), src).to(dst)

            @ureg.wraps(None, (dst,), strict=False)
            def f(a):
                return a

            @ureg.wraps(dst + "**2", (dst, "=A", "=A**2"), strict=False)
            def g(a, b, c):
                return a * a + c * 0

            got = f(ureg.Quantity(F(7), src))
            eng.prove(isinstance(got, F) and got == 7 * k, f"fraction:{src}->{dst}:{first}-first:argument-exact")
            r = g(ureg.Quantity(F(7), src), ureg.Quantity(F(2), src), ureg.Quantity(F(3), dst + "**2"))
            eng.prove(isinstance(r.magnitude, F) and r.magnitude == 49 * k * k, f"fraction:{src}->{dst}:{first}-first:result-exact")
            t = ureg.Quantity(F(5), src).to(dst).magnitude
            eng.prove(isinstance(t, F) and t == 5 * k, f"fraction:{src}->{dst}:{first}-first:later-conversion-exact")
            t = ureg.Quantity(F(5), src + "**2").to(dst + "**2").magnitude
            eng.prove(isinstance(t, F) and t == 5 * k * k, f"fraction:{src}->{dst}:{first}-first:later-conversion-squared-exact")

            # arguments whose unit is computed from references ('=A*B**-1', '=A**2'): exact as well
            seen = []

            @ureg.wraps("=A*B**-1", ("=A", "=B", "=A*B**-1", "=A**2"), strict=False)
            def h(a, b, c, d):
                seen.append((a, b, c, d))
                return c

            r = h(ureg.Quantity(F(7), src), ureg.Quantity(F(2), dst), F(3), ureg.Quantity(F(5), dst + "**2"))
            a_, b_, c_, d_ = seen[0]
            eng.prove(all(isinstance(v, F) for v in (a_, b_, c_, d_)), f"fraction:{src}->{dst}:{first}-first:dependent-arguments-stay-Fractions")
            eng.prove(c_ == F(3) / k and d_ == 5 / (k * k), f"fraction:{src}->{dst}:{first}-first:dependent-arguments-exact")
            eng.prove(isinstance(r.magnitude, F) and r.magnitude == F(3) / k and all(isinstance(e, (int, F)) for e in r._units.values()), f"fraction:{src}->{dst}:{first}-first:dependent-return-exact")


def _structs(tier, seed):
    big = tier == "thorough"
    rnd = random.Random(f"c17:{seed}")
    out = []
    for n in (1, 2, 3):
        tuples = list(itertools.product(SPECS, repeat=n))
        if n == 3 and not big:
            tuples = rnd.sample(tuples, 150)
        for specs in tuples:
            if Oracle(list(specs)).decoration_error is not None:
                # references to names that no parameter defines: the property does not say
                # what happens (pint intends a ValueError at decoration; its check is dead
                # code because a UnitsContainer is not a dict -- noted in DESIGN.md)
                continue
            defs = Oracle(list(specs)).defs
            forms = ["positional", "keyword", "default", "kw-reversed", "kw-mixed", "kw-skip"]
            for form in forms if (big or n < 3) else rnd.sample(forms, 2):
                for strict in (True, False):
                    # argument kinds
                    variants = []
                    for _ in range(3 if big else 2):
                        kinds = []
                        for s in specs:
                            if s is None:
                                kinds.append(rnd.choice([["q", "meter"], ["n"]]))
                            elif s.startswith("="):
                                kinds.append(rnd.choice([["q", "inch"], ["q", "second"], ["q", "foot"], ["n"], ["q", "meter"]]))
                            else:
                                u = s.replace("U:", "")
                                kinds.append(rnd.choice([["q", ALT[u]], ["q", u], ["q", ALT[u]], ["q", BAD[u]], ["n"]]))
                        variants.append(kinds)
                    rets = [None, "meter", "U:second", ["meter", None]]
                    if "A" in defs:
                        rets += ["=A", "=A**2"]
                    if "A" in defs and "B" in defs:
                        rets += ["=A*B"]
                    for kinds in variants:
                        out.append({"specs": list(specs), "args": kinds, "form": form, "strict": strict, "ret": rnd.choice(rets)})
    return out


def h_wraps_offset(eng, declared, given):
    """a parameter declared in one temperature scale and called with a quantity of another: the
    function receives the value on the declared scale (the affine map, not a bare factor); the
    same on a second call of the same wrapped function with another scale"""
    ureg = regs.default(eng)
    inf = covers.infos()
    x, y = eng.real("x"), eng.real("y")
    seen = []

    def f(t):
        seen.append(t)
        return t

    wrapped = ureg.wraps(declared, (declared,))(f)

    def want(v, src):
        a, b = inf[src], inf[declared]
        return (a.num * v + a.off - b.off) / b.num

    others = [u for u in ("kelvin", "degree_Celsius", "degree_Fahrenheit", "degree_Rankine") if u not in (declared, given)]
    for v, src in ((x, given), (y, others[0]), (x, declared), (y, given)):
        del seen[:]
        r = wrapped(ureg.Quantity(v, src))
        eng.prove(len(seen) == 1 and not hasattr(seen[0], "units"), f"offset:{src}:bare-magnitude-handed-over")
        eng.prove(Eq(seen[0], want(v, src)), f"offset:{src}:value-on-the-declared-scale")
        eng.prove(str(r.units) == declared, f"offset:{src}:result-units")
        eng.prove(Eq(r.magnitude, want(v, src)), f"offset:{src}:result-value")
    try:
        wrapped(ureg.Quantity(x, "meter"))
    except DimensionalityError:
        eng.prove(True, "offset:incompatible-raises")
    else:
        eng.fail("offset:incompatible-accepted")


def cases(tier, seed):
    st = _structs(tier, seed)
    out = []
    for i in range(0, len(st), 25):
        out.append(Case("H17.wraps", f"{i:05d}", M, "h_wraps", {"structs": st[i : i + 25]}, validate=1, weight=3.0))
    for declared, given in (("kelvin", "degree_Celsius"), ("degree_Celsius", "kelvin"), ("kelvin", "degree_Fahrenheit"), ("degree_Fahrenheit", "degree_Celsius"), ("degree_Rankine", "degree_Celsius")):
        out.append(Case("H17.wraps", f"offset:{declared}<-{given}", M, "h_wraps_offset", {"declared": declared, "given": given}, validate=1))
    for n_params in (1, 2, 3):
        for n_specs in (1, 2, 3, 4):
            for which in ("wraps", "check"):
                out.append(Case("H17.arity", f"{which}:{n_params}/{n_specs}", M, "h_arity", {"n_params": n_params, "n_specs": n_specs, "which": which}, kind="conc"))
    dimsets = [(["[length]"], ["inch"]), (["[length]"], ["second"]), (["[length]", "[time]"], ["mile", "hour"]), (["[length]", None], ["meter", "gram"]), ([None, "[mass]"], [None, "pound"]),
               (["[length] / [time]", "[energy]"], ["knot", "calorie"]), (["[length] / [time]", "[energy]"], ["knot", "watt"]), (["[area]"], ["acre"]), (["[area]"], ["liter"]), (["[length]"], [None]),
               ([""], ["meter"]), ([""], ["radian"]), ([""], [None]), (["[length]", ""], ["inch", "second"])]  # fmt: skip
    for dims, units in dimsets:
        for form in ("positional", "keyword", "default", "kw-reversed", "kw-mixed", "kw-skip"):
            out.append(Case("H17.check", f"{dims}:{units}:{form}", M, "h_check", {"dims": dims, "units": units, "form": form}, validate=1))
    out.append(Case("H17.check", "with_context", M, "h_with_context", {}, validate=1))
    out.append(Case("H17.wraps", "fraction-registry-exact", M, "h_exact_types", {}, kind="conc"))
    out.append(Case("H17.wraps", "reentrant", M, "h_reentrant", {}, validate=1))
    out.append(Case("H17.wraps", "array-defaults", M, "h_array_defaults", {}, kind="conc"))
    out.append(Case("H17.check", "keyword-only-and-decimal", M, "h_keyword_only_and_decimal", {}, kind="conc"))
    out.append(Case("H17.wraps", "reference-units", M, "h_reference_units", {}, validate=1))
    out.append(Case("H17.obs", "observed", "pvlib.harness.observed", "h_c17", {}, kind="conc"))
    return out
