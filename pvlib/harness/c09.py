"""C09 -- every textual format denotes the unit exactly; plain-text formats round-trip."""

from __future__ import annotations

import itertools
import random
from fractions import Fraction

from .. import covers, regs
from ..ref import layouts, refdefs
from ..runner import Case
from ..sx.q import And, Eq, Not

PROPERTY = "C09"
M = "pvlib.harness.c09"

META = {
    "explanation": "format(unit/quantity, spec) of the real formatters on units whose integer exponents are solver-chosen (every value in the bound) and on symbolic magnitudes (rendered as "
    "placeholder literals that the real parser reads back as the same symbolic number): the text is parsed by independent per-format layout recognisers and every unit is required to appear exactly "
    "once with its name/symbol, on the right side of the division, with exactly its exponent (omitted iff +-1), parenthesised where the format has a single denominator; D/C/P texts are parsed back "
    "by the real parser and must give an equal unit / quantity.",
    "functions_encoded": [
        "pint/delegates/formatter/_format_helpers.py::formatter, format_exponent, pretty_fmt_exponent, join_u, join_mu",
        "pint/delegates/formatter/_compound_unit_helpers.py::prepare_compount_unit, sort_by_unit_name, to_symbol_exponent_name",
        "pint/delegates/formatter/plain.py::DefaultFormatter, CompactFormatter, PrettyFormatter; html.py::HTMLFormatter; latex.py::LatexFormatter, SIunitxFormatter, siunitx_format_unit",
        "pint/delegates/formatter/full.py::FullFormatter.get_formatter, format_unit, format_quantity",
        "pint/delegates/formatter/_spec_helpers.py::split_format",
        "pint/util.py::string_preprocessor; pint/facets/plain/registry.py::parse_units, parse_expression (inverse direction)",
    ],
    "bounds": {"exponents": "non-zero integers in [-3,3] (solver-realised: the number formatter needs a concrete integer), plus 1/2, 1/4, 3/2 for the D/C round trip", "units per expression": "1-3", "formats": "D C P H L Lx, long and ~", "magnitude": "all rationals (symbolic, as placeholder literal)"},
    "enumerated_axes": [{"axis": "format x unit list", "exhaustive": False}, {"axis": "exponent values", "exhaustive": True}],
    "outside_claim": ["content of Python's numeric mini-language and locale/babel output", "fractional exponents beyond those listed (float rendering)", "Measurement rendering (C19)", "ndarray magnitudes"],
}

FORMATS = ["D", "C", "P", "H", "L", "Lx"]


def _display(ureg, name, short):
    return ureg._units[name].symbol if short else name


def h_layout(eng, names, fmt, short):
    ureg = regs.default(eng)
    exps = [eng.integer(f"e{i}", -3, 3) for i in range(len(names))]
    for e in exps:
        eng.assume(Not(Eq(e, 0)))
    uc = ureg.UnitsContainer(dict(zip(names, exps)))
    unit = ureg.Unit(uc)
    spec = ("~" if short else "") + fmt
    snapshot = dict(unit._units)
    text = format(unit, spec)
    vals = [e.realize() if hasattr(e, "realize") else Fraction(e) for e in exps]
    prefixes = {p.name for p in ureg._prefixes.values() if p.name}
    try:
        terms, facts = layouts.recognise(spec, text, prefixes)
    except layouts.LayoutError as ex:
        eng.fail(f"layout-not-recognised:{fmt}", detail=f"{text!r}: {ex}")
    want_names = {(_display(ureg, n, short) if fmt != "Lx" else n): (n, v) for n, v in zip(names, vals)}
    seen = {}
    for disp, pos, etext in terms:
        eng.prove(disp in want_names, f"{fmt}:only-the-units-of-the-object")
        if disp not in want_names:
            continue
        eng.prove(disp not in seen, f"{fmt}:each-unit-once")
        seen[disp] = True
        n, v = want_names[disp]
        eng.prove((pos == "num") == (v > 0), f"{fmt}:numerator-iff-positive")
        shown = Fraction(etext) if etext is not None else Fraction(1)
        eng.prove(shown == abs(v), f"{fmt}:exponent-is-absolute-value")
        eng.prove((etext is None) == (abs(v) == 1), f"{fmt}:exponent-omitted-iff-one")
    eng.prove(len(seen) == len(names), f"{fmt}:every-unit-present")
    n_den = sum(1 for v in vals if v < 0)
    if fmt in ("H", "L"):
        eng.prove(facts.get("den_parenthesised", False) == (n_den > 1), f"{fmt}:parentheses-iff-several-denominator-terms")
    # formatting alters nothing
    eng.prove(dict(unit._units) == snapshot, f"{fmt}:object-unaltered")


def h_roundtrip_units(eng, names, fracs):
    """parse_units(format(u, F)) == u for the plain-text formats"""
    ureg = regs.default(eng)
    exps = []
    for i, n in enumerate(names):
        if fracs and i == 0:
            exps.append(eng.choice("frac", [Fraction(1, 2), Fraction(1, 4), Fraction(3, 2), Fraction(-1, 2)]))
        else:
            e = eng.integer(f"e{i}", -3, 3)
            eng.assume(Not(Eq(e, 0)))
            exps.append(e)
    unit = ureg.Unit(ureg.UnitsContainer(dict(zip(names, (eng.num(e) if isinstance(e, Fraction) else e for e in exps)))))
    formats = ["D", "~D", "C", "~C", "", "~"] + ([] if fracs else ["P", "~P"])
    for spec in formats:
        text = format(unit, spec)
        back = ureg.parse_units(text, as_delta=False)
        eng.prove(back == unit, f"roundtrip:{spec or 'default'}")
    eng.prove(ureg.parse_units(str(unit), as_delta=False) == unit, "roundtrip:str")


def h_roundtrip_quantity(eng, names, exps):
    """ureg(str(q)) == q and Quantity(str(q)) == q with a symbolic magnitude"""
    ureg = regs.default(eng)
    x = eng.real("x")
    unit = ureg.UnitsContainer(dict(zip(names, exps)))
    q = ureg.Quantity(x, unit)
    for spec in ("", "D", "~D", "C", "~C", "P", "~P"):
        text = format(q, spec)
        back = ureg.parse_expression(text)
        eng.prove(back.units == q.units, f"quantity-roundtrip-units:{spec or 'default'}")
        eng.prove(Eq(back.magnitude, x), f"quantity-roundtrip-magnitude:{spec or 'default'}")
    back = ureg.Quantity(str(q))
    eng.prove(And(back.units == q.units, Eq(back.magnitude, x)), "Quantity(str(q))")
    eng.prove(And(Eq(q.magnitude, x), q._units == unit), "quantity-unaltered")
    # every other format renders without error and leaves the object alone
    for spec in ("H", "~H", "L", "~L", "Lx", "~Lx", ".3f", "~P", "~C"):
        try:
            format(q, spec)
        except ValueError as ex:
            # a magnitude spec the number type rejects is the number type's business
            if spec == ".3f":
                continue
            eng.fail(f"format-raises:{spec}", detail=str(ex))
    eng.prove(Eq(q.magnitude, x), "quantity-unaltered-after-all-formats")


def _norm(text):
    """placeholder literals are fresh per rendering: name them by the number they stand for and
    by the magnitude spec they were rendered with"""
    import re

    from ..sx.q import PLACEHOLDERS

    def sub(m):
        ent = PLACEHOLDERS.lookup(m.group(0))
        if ent is None:
            return m.group(0)
        return "<%s|%s>" % (ent[0].sexpr() if hasattr(ent[0], "sexpr") else ent[0], ent[1])

    return re.sub(r"9[0-9]{8}", sub, text)


def _join(mstr, ustr):
    """documented joining rule: magnitude, blank, unit; a leading '1 / ' of the unit text is
    absorbed ('3 / s', never '3 1 / s'); nothing is appended for an empty unit text"""
    if ustr == "":
        return mstr
    if ustr.startswith("1 / "):
        return mstr + " " + ustr[2:]
    return mstr + " " + ustr


def h_spec_dispatch(eng, names, exps, fmt):
    """the pieces of a format spec reach the right formatter: default_format, magnitude spec,
    unit spec and the '#' modifier"""
    from ..sx.stubs import qto_math_shim

    ureg = regs.default(eng)
    x = eng.real("x")
    unit = ureg.UnitsContainer(dict(zip(names, exps)))
    q = ureg.Quantity(x, unit)
    u = q.units
    fm = ureg.formatter
    saved = fm.default_format
    plain = fmt.replace("~", "") in ("D", "C", "P")
    try:
        want_q, want_u = _norm(format(q, fmt)), format(u, fmt)
        # 1. default_format is what an empty spec means -- for str(), format(., '') and f-strings
        fm.default_format = fmt
        eng.prove(_norm(str(q)) == want_q, f"default_format:{fmt}:str(q)")
        eng.prove(_norm(format(q, "")) == want_q, f"default_format:{fmt}:format(q,'')")
        eng.prove(_norm(f"{q}") == want_q, f"default_format:{fmt}:fstring")
        eng.prove(str(u) == want_u and format(u, "") == want_u, f"default_format:{fmt}:unit")
        # an explicit spec still wins over the default
        fm.default_format = "~C" if fmt != "~C" else "P"
        eng.prove(_norm(format(q, fmt)) == want_q, f"explicit-spec-wins:{fmt}")
        fm.default_format = saved
        # 2. magnitude spec + unit spec: the magnitude is rendered with exactly the numeric part
        for mspec in (".3f", "+.2e", "08.1f", ""):
            text = _norm(format(q, mspec + fmt))
            mag = _norm(format(x, mspec)) if mspec else None
            if plain and mspec:
                eng.prove(text == _join(mag, want_u), f"magnitude-spec:{mspec}{fmt}")
            elif mspec == ".3f":
                # HTML/LaTeX decorate the number (exponent notation is rewritten): only the
                # fixed-point rendering is required to appear verbatim
                eng.prove(mag in text, f"magnitude-spec-present:{mspec}{fmt}")
        # the same with concrete magnitudes (Python's own formatting is the reference)
        for m in (Fraction(5, 2), Fraction(-1234567, 1000), Fraction(1, 3)):
            qc = ureg.Quantity(eng.num(m), unit)
            for mspec in (".3f", "+.2e", "08.1f"):
                if plain:
                    eng.prove(format(qc, mspec + fmt) == _join(format(m, mspec), want_u), f"magnitude-spec-concrete:{mspec}{fmt}")
                elif mspec == ".3f":
                    eng.prove(format(m, mspec) in format(qc, mspec + fmt), f"magnitude-spec-concrete-present:{mspec}{fmt}")
        # 2b. separate_format_defaults=True: a spec that gives only the magnitude part takes the unit
        # part from default_format, and the other way round
        if plain:
            sfd = ureg.separate_format_defaults
            try:
                ureg.separate_format_defaults = True
                fm.default_format = ".3f" + fmt
                for m in (Fraction(5, 2), Fraction(-1234567, 1000)):
                    qc = ureg.Quantity(eng.num(m), unit)
                    full = _join(format(m, ".3f"), want_u)
                    eng.prove(str(qc) == full, f"separate-defaults:empty-spec:{fmt}")
                    got_m = format(qc, "+.1e")
                    if got_m != _join(format(m, "+.1e"), want_u) and got_m == _join(format(m, "+.1e"), format(u, "~D" if "~" in fmt else "D")):
                        # known finding K13: the layout letter of default_format is lost (the
                        # formatter is chosen from the explicit spec alone); '~' survives
                        eng.fail("separate-defaults:magnitude-only-spec-falls-back-to-D-layout", stop=False)
                    else:
                        eng.prove(got_m == _join(format(m, "+.1e"), want_u), f"separate-defaults:magnitude-only-spec:{fmt}")
                    other = "~C" if fmt != "~C" else "D"
                    eng.prove(format(qc, other) == _join(format(m, ".3f"), format(u, other)), f"separate-defaults:unit-only-spec:{fmt}")
                    eng.prove(format(u, "") == want_u, f"separate-defaults:unit-empty-spec:{fmt}")
            finally:
                ureg.separate_format_defaults = sfd
                fm.default_format = saved
        # 3. '#' = to_compact() first, wherever the '#' comes from
        with qto_math_shim():
            for m in (Fraction(5, 2) / 10**9, Fraction(1500), Fraction(1, 4), Fraction(12_000_000), Fraction(-32_000)):
                qc = ureg.Quantity(eng.num(m), unit)
                want_c = format(qc.to_compact(), fmt)
                eng.prove(format(qc, "#" + fmt) == want_c, f"compact-modifier:#{fmt}")
                eng.prove(format(qc, fmt + "#") == want_c, f"compact-modifier:{fmt}#")
                fm.default_format = "#" + fmt
                try:
                    eng.prove(str(qc) == want_c and format(qc, "") == want_c, f"compact-modifier-from-default_format:#{fmt}")
                finally:
                    fm.default_format = saved
                eng.prove(Eq(qc.magnitude, eng.num(m)) and qc._units == unit, "compact-modifier-leaves-quantity")
    finally:
        fm.default_format = saved


def h_sort(eng, names, exps, fmt):
    """the sort function decides the order of the terms and nothing else"""
    from pint.delegates.formatter._compound_unit_helpers import sort_by_dimensionality, sort_by_display_name, sort_by_unit_name

    ureg = regs.default(eng)
    unit = ureg.Unit(ureg.UnitsContainer(dict(zip(names, exps))))
    fm = ureg.formatter
    saved = fm.default_sort_func
    short = "~" in fmt
    disp = {n: (_display(ureg, n, True) if short else n) for n in names}
    back = {v: k for k, v in disp.items()}
    dim_order = list(fm.dim_order)
    inf = covers.infos()

    def dim_key(n):
        dims = [d for d, _e in inf[n].dims] or ["[]"]
        for d in dims:
            if d in dim_order:
                return (dim_order.index(d), n)
        return (len(dim_order), n)

    # pint looks at the unit's dimensions in the order its own dimensionality container lists them
    def dim_key_pint_order(n):
        dims = list(ureg.get_dimensionality(n)) or ["[]"]
        for d in dims:
            if d in dim_order:
                return (dim_order.index(d), n)
        return (len(dim_order), n)

    orders = {
        "unit-name": (sort_by_unit_name, lambda ns: sorted(ns)),
        "display-name": (sort_by_display_name, lambda ns: sorted(ns, key=lambda n: disp[n])),
        "dimensionality": (sort_by_dimensionality, lambda ns: sorted(ns, key=dim_key_pint_order)),
    }
    try:
        for oname, (func, expect) in orders.items():
            fm.default_sort_func = func
            text = format(unit, fmt)
            try:
                terms, _facts = layouts.recognise(fmt, text, ())
            except layouts.LayoutError as ex:
                eng.fail(f"sort:{oname}:layout-not-recognised:{fmt}", detail=f"{text!r}: {ex}")
            got_num = [back.get(d, d) for d, pos, _e in terms if pos == "num"]
            got_den = [back.get(d, d) for d, pos, _e in terms if pos != "num"]
            want_num = expect([n for n, e in zip(names, exps) if e > 0])
            want_den = expect([n for n, e in zip(names, exps) if e < 0])
            eng.prove(got_num == want_num, f"sort:{oname}:numerator-order:{fmt}")
            eng.prove(got_den == want_den, f"sort:{oname}:denominator-order:{fmt}")
            if fmt.replace("~", "") in ("D", "C", "P"):
                eng.prove(ureg.parse_units(text, as_delta=False) == unit, f"sort:{oname}:same-unit:{fmt}")
            # an explicit sort_func argument of format_unit wins over the default
            text2 = fm.format_unit(unit, fmt, sort_func=sort_by_unit_name)
            fm.default_sort_func = sort_by_unit_name
            eng.prove(text2 == format(unit, fmt), f"sort:{oname}:explicit-argument-wins:{fmt}")
    finally:
        fm.default_sort_func = saved


_CUSTOM_CALLS = []


def _ensure_custom_format():
    import pint
    from pint.delegates.formatter._to_register import REGISTERED_FORMATTERS

    if "Zq" not in REGISTERED_FORMATTERS:

        @pint.register_unit_format("Zq")
        def _fmt(unit, registry, **options):
            _CUSTOM_CALLS.append((dict(unit), registry))
            return "|".join(f"{k}^{v}" for k, v in sorted(unit.items()))


def h_custom_format(eng, names, exps):
    """a format registered with register_unit_format receives the unit's names (symbols with ~)
    and exponents and the registry; its text is used verbatim, joined to the magnitude"""
    _ensure_custom_format()
    ureg = regs.default(eng)
    x = eng.real("x")
    uc = ureg.UnitsContainer(dict(zip(names, exps)))
    u, q = ureg.Unit(uc), ureg.Quantity(x, uc)
    for short in (False, True):
        spec = ("~" if short else "") + "Zq"
        del _CUSTOM_CALLS[:]
        want = "|".join(f"{k}^{v}" for k, v in sorted(((_display(ureg, n, short), e) for n, e in zip(names, exps))))
        text = format(u, spec)
        eng.prove(text == want, f"custom:{spec}:unit-text")
        eng.prove(len(_CUSTOM_CALLS) == 1 and _CUSTOM_CALLS[0][1] is ureg, f"custom:{spec}:called-once-with-the-registry")
        if _CUSTOM_CALLS:
            got = {k: (v.c if hasattr(v, "c") else Fraction(v)) for k, v in _CUSTOM_CALLS[0][0].items()}
            eng.prove(got == {_display(ureg, n, short): Fraction(e) for n, e in zip(names, exps)}, f"custom:{spec}:receives-names-and-exponents")
        tq = _norm(format(q, spec))
        eng.prove(tq == _join(_norm(format(x, "")), want), f"custom:{spec}:quantity")
        tq = _norm(format(q, ".3f" + spec))
        eng.prove(tq == _join(_norm(format(x, ".3f")), want), f"custom:{spec}:quantity-with-magnitude-spec")
    try:
        import pint

        pint.register_unit_format("Zq")(lambda unit, registry, **o: "")
    except ValueError:
        eng.prove(True, "custom:re-registration-refused")
    else:
        eng.fail("custom:re-registration-accepted")
    for builtin in ("D", "P", "L"):
        try:
            import pint

            pint.register_unit_format(builtin)(lambda unit, registry, **o: "")
        except ValueError:
            eng.prove(True, f"custom:builtin-{builtin}-not-overwritten")
        else:
            eng.fail(f"custom:builtin-{builtin}-overwritten")


def h_roundtrip_other_types(eng, names, exps):
    """float and Decimal registries: str(q) and the plain-text formats parse back to an equal
    quantity, with float, int and Decimal magnitudes and fractional exponents"""
    import decimal

    import pint

    regs_ = {"float": regs.float_default()}
    dec = getattr(h_roundtrip_other_types, "_dec", None)
    if dec is None:
        dec = h_roundtrip_other_types._dec = pint.UnitRegistry(non_int_type=decimal.Decimal)
    regs_["Decimal"] = dec
    for rname, ureg in regs_.items():
        num = (lambda v: decimal.Decimal(str(v))) if rname == "Decimal" else (lambda v: v)
        uc = ureg.UnitsContainer({n: (e if isinstance(e, int) else num(e)) for n, e in zip(names, exps)})
        mags = [0.1, 1e-7, 12345.678, -2.5, 3, 1e22] if rname == "float" else [decimal.Decimal("0.1"), decimal.Decimal("1E-7"), decimal.Decimal("12345.678"), decimal.Decimal("-2.5"), 3]
        for m in mags:
            q = ureg.Quantity(m, uc)
            # (the pretty format writes exponent notation as 1×10⁻⁷, which is not an input notation)
            pretty_ok = all(isinstance(e, int) for e in exps) and "e" not in repr(m).lower()
            for spec in ("", "D", "~D", "C", "~C") + (("P", "~P") if pretty_ok else ()):
                text = format(q, spec)
                try:
                    back = ureg.parse_expression(text)
                except Exception as ex:  # noqa: BLE001
                    eng.fail(f"{rname}:not-parsed:{spec or 'default'}", detail=f"{text!r}: {type(ex).__name__}")
                eng.prove(back.units == q.units, f"{rname}:units:{spec or 'default'}")
                eng.prove(back.magnitude == q.magnitude, f"{rname}:magnitude:{spec or 'default'}:{m}")
            eng.prove(ureg.Quantity(str(q)) == q, f"{rname}:Quantity(str(q)):{m}")
        u = ureg.Unit(uc)
        for spec in ("", "D", "~D", "C", "~C"):
            eng.prove(ureg.parse_units(format(u, spec), as_delta=False) == u, f"{rname}:unit-roundtrip:{spec or 'default'}")


def h_exponent_notation(eng):
    """(concrete, float registry) the pretty and HTML layouts rewrite exponent notation as
    a×10^n: every number in the rendered magnitude (negative values, both parts of a complex
    value) still denotes the value that Python's own format gives"""
    import re

    import pint

    ureg = pint.UnitRegistry()
    sup = str.maketrans("⁰¹²³⁴⁵⁶⁷⁸⁹⁻", "0123456789-")

    def decode(text, layout):
        if layout == "H":
            return re.sub(r"×10<sup>(-?[0-9]+)</sup>", lambda m: "e" + m.group(1), text)
        return re.sub(r"×10([⁰¹²³⁴⁵⁶⁷⁸⁹⁻]+)", lambda m: "e" + m.group(1).translate(sup), text)

    mags = [1e-05 + 2e-07j, -2e-07 - 3e9j, 4.5e22 + 1.5e-3j, 1.25e-5 - 7.5e22j, 3.5e22, -1e-05, 6.02e23, 1.5e-300, 2e-07j]
    for m in mags:
        for mspec in ("", ".2e", ".4e", ".3g", "e"):
            want = complex(format(m, mspec).strip("()"))
            for layout in ("H", "P"):
                for short in ("", "~"):
                    text = format(ureg.Quantity(m, "meter"), mspec + short + layout)
                    mtext = text.rsplit(" ", 1)[0]
                    try:
                        got = complex(decode(mtext, layout).strip("()"))
                    except ValueError:
                        eng.fail(f"exponent-notation:{mspec + short + layout}:{m!r}:not-a-number", detail=mtext, stop=False)
                        continue
                    eng.prove(got == want, f"exponent-notation:{mspec + short + layout}:{m!r}:denotes-the-value")


def h_context_and_zero_d(eng):
    """(concrete, float registry) the short formats use the unit's own symbol also while a context
    redefines the unit's value; a 0-d array magnitude is formatted like the scalar it holds"""
    import numpy as np
    import pint
    from pint import Context

    ureg = pint.UnitRegistry()
    ctx = Context("shortfoot")
    ctx.redefine("feet = 0.3 * meter")
    ctx.redefine("pound = 0.5 * kilogram")
    ureg.add_context(ctx)
    unit = ureg.Unit("foot*pound/second**2")
    want = {spec: format(unit, spec) for spec in ("~D", "~C", "~P", "~H", "~L", "D", "P", "~")}
    eng.prove(want["~D"] == "ft * lb / s ** 2" and want["~P"] == "ft·lb/s²", "context-format:reference-rendering")
    with ureg.context("shortfoot"):
        for spec, text in want.items():
            eng.prove(format(unit, spec) == text, f"context-format:{spec}:same-text-inside-the-context")
            eng.prove(format(ureg.Unit("foot*pound/second**2"), spec) == text, f"context-format:{spec}:unit-built-inside-the-context")
        q = ureg.Quantity(2.5, "megafoot")
        eng.prove(format(q, "~P") == "2.5 Mft" and format(q, "~D") == "2.5 Mft", "context-format:prefixed-unit-first-met-inside")
    eng.prove(all(format(unit, spec) == text for spec, text in want.items()), "context-format:same-text-afterwards")
    # 0-d arrays
    forced = pint.UnitRegistry(force_ndarray=True)
    plain = pint.UnitRegistry()
    for val in (1234.56789, 1e-7, -0.5):
        for spec in (".2fP", ".3eP", ".2fD", ".3eD", ".2fC", ".2f~P", ".1fH", "P", "D", ".4gP"):  # (the L layout with a 0-d array: known finding K30)
            ref = format(plain.Quantity(val, "meter/second"), spec)
            for label, q in (("force_ndarray", forced.Quantity(val, "meter/second")), ("np.array(x)", plain.Quantity(np.array(val), "meter/second"))):
                try:
                    got = format(q, spec)
                except Exception as ex:  # noqa: BLE001
                    got = type(ex).__name__
                eng.prove(got == ref, f"zero-d-magnitude:{label}:{spec}:{val!r}")
        forced.default_format = plain.default_format = ".1fP"
        eng.prove(str(forced.Quantity(val, "meter")) == str(plain.Quantity(val, "meter")), f"zero-d-magnitude:default_format:{val!r}")
        forced.default_format = plain.default_format = ""


def h_dimensionless(eng):
    ureg = regs.default(eng)
    u = ureg.Unit("")
    x = eng.real("x")
    eng.prove(format(u, "D") == "dimensionless", "dimensionless-long")
    eng.prove(format(u, "~D") == "", "dimensionless-short-empty")
    eng.prove(format(u, "P") == "dimensionless", "dimensionless-pretty")
    q = ureg.Quantity(x, "")
    back = ureg.parse_expression(str(q))
    eng.prove(Eq(back.magnitude, x) and back.dimensionless, "dimensionless-quantity-roundtrip")


MIN_DISCHARGED = {"H09.a": 5000, "H09.b": 1500, "H09.d": 1000}


def cases(tier, seed):
    big = tier == "thorough"
    rnd = random.Random(f"c09:{seed}")
    out = []
    pool = ["meter", "second", "gram", "kelvin", "newton", "minute", "hour", "watt", "mole", "inch", "percent", "radian", "kilometer", "degree"]
    d = refdefs.default()
    lists = [["meter"], ["second"], ["meter", "second"], ["newton", "meter"], ["gram", "meter", "second"], ["kelvin", "mole", "watt"], ["minute", "hour"], ["inch", "percent", "radian"]]
    # names and symbols with characters that the LaTeX (and HTML) layouts must escape
    lists += [["speed_of_light", "percent"], ["meter", "standard_gravity"], ["degree_Celsius", "atomic_unit_of_time"]]
    lists += [rnd.sample(pool, rnd.choice([2, 3])) for _ in range(12 if big else 3)]
    for names in lists:
        names = [d.spellings.get(n, n) for n in names]
        if len(names) == 3 and not big and names != ["gram", "meter", "second"]:
            continue
        for fmt in FORMATS:
            for short in (False, True):
                out.append(Case("H09.a", f"{fmt}:{'~' if short else ''}:{'*'.join(names)}", M, "h_layout", {"names": names, "fmt": fmt, "short": short}, opts={"max_paths": 4000}, validate=3, weight=float(6 ** len(names))))
    cov = covers.cover(kinds=("base", "mult", "dimensionless"))
    rt = [["meter"], ["meter", "second"], ["newton", "hour"], ["gram", "minute", "kelvin"]] + [rnd.sample(cov, rnd.choice([1, 2, 3])) for _ in range(30 if big else 8)]
    for names in rt:
        if len(names) == 3 and not big and names != ["gram", "minute", "kelvin"]:
            names = names[:2]
        out.append(Case("H09.b", f"units:{'*'.join(names)}", M, "h_roundtrip_units", {"names": names, "fracs": False}, opts={"max_paths": 4000}, validate=3, weight=float(6 ** len(names))))
        out.append(Case("H09.b", f"units-frac:{'*'.join(names)}", M, "h_roundtrip_units", {"names": names, "fracs": True}, opts={"max_paths": 4000}, validate=3, weight=float(6 ** len(names))))
    for names in rt[: (20 if big else 8)]:
        exps = [rnd.choice([-3, -2, -1, 1, 2, 3]) for _ in names]
        out.append(Case("H09.b", f"quantity:{'*'.join(f'{n}^{e}' for n, e in zip(names, exps))}", M, "h_roundtrip_quantity", {"names": names, "exps": exps}, validate=1))
    # exponents and symbols whose text ends in the digit 1 right before the division sign
    for names, exps in [(["meter", "second"], [11, -1]), (["meter", "second"], [21, -2]), (["gram", "meter", "second"], [1, 11, -2]), (["reciprocal_centimeter", "second"], [1, -1]), (["meter", "second"], [-11, 1]), (["meter"], [11])]:
        out.append(Case("H09.b", f"quantity:{'*'.join(f'{n}^{e}' for n, e in zip(names, exps))}", M, "h_roundtrip_quantity", {"names": names, "exps": exps}, validate=1))
        out.append(Case("H09.b", "other-types:" + "*".join(f"{n}^{e}" for n, e in zip(names, exps)), M, "h_roundtrip_other_types", {"names": names, "exps": exps}, kind="conc"))
    for names, exps in [(["meter", "second"], [0.1, -1]), (["meter", "second"], [2.1, -1]), (["meter", "second"], [1.01, -2])]:
        out.append(Case("H09.b", "other-types:" + "*".join(f"{n}^{e}" for n, e in zip(names, exps)), M, "h_roundtrip_other_types", {"names": names, "exps": exps}, kind="conc"))
    sd = [(["meter"], [1]), (["second"], [-1]), (["kelvin", "second"], [-1, -2]), (["newton", "meter"], [1, 1]), (["gram", "second"], [1, -2]), (["kilometer", "hour"], [1, -1])]
    sd += [(nm, [rnd.choice([-2, -1, 1, 2]) for _ in nm]) for nm in rt[4 : (16 if big else 7)]]
    for names, exps in sd:
        for fmt in ("D", "~D", "C", "~C", "P", "~P", "H", "~H", "L", "~L", "Lx"):
            out.append(Case("H09.d", f"{fmt}:{'*'.join(f'{n}^{e}' for n, e in zip(names, exps))}", M, "h_spec_dispatch", {"names": names, "exps": exps, "fmt": fmt}, validate=1))
    for names, exps in [(["second", "meter", "gram"], [1, 1, 1]), (["newton", "meter", "second", "kelvin"], [1, 2, -1, -1]), (["mole", "ampere", "kelvin", "candela"], [1, 1, -1, -2]), (["hour", "inch", "pound"], [-1, 1, 2])]:
        for fmt in ("D", "~D", "C", "~P", "H", "~L"):
            out.append(Case("H09.e", f"{fmt}:{'*'.join(f'{n}^{e}' for n, e in zip(names, exps))}", M, "h_sort", {"names": names, "exps": exps, "fmt": fmt}, validate=1))
    for names, exps in [(["meter"], [1]), (["meter", "second"], [1, -2]), (["newton", "kelvin", "hour"], [2, -1, 1])]:
        out.append(Case("H09.f", "*".join(f"{n}^{e}" for n, e in zip(names, exps)), M, "h_custom_format", {"names": names, "exps": exps}, validate=1))
    for names, exps in [(["meter"], [1]), (["meter", "second"], [1, -2]), (["meter", "second"], [0.5, -1.5]), (["newton", "kelvin", "hour"], [2, -1, 1]), (["gram", "meter"], [-1, 0.25]), (["second"], [-1])]:
        out.append(Case("H09.b", "other-types:" + "*".join(f"{n}^{e}" for n, e in zip(names, exps)), M, "h_roundtrip_other_types", {"names": names, "exps": exps}, kind="conc"))
    out.append(Case("H09.c", "dimensionless", M, "h_dimensionless", {}, validate=1))
    out.append(Case("H09.d", "context-and-zero-d", M, "h_context_and_zero_d", {}, kind="conc"))
    out.append(Case("H09.d", "exponent-notation", M, "h_exponent_notation", {}, kind="conc"))
    out.append(Case("H09.obs", "observed", "pvlib.harness.observed", "h_c09", {}, kind="conc"))
    return out
