"""Recorded defects of the unchanged tree that were first noticed by the independent sub-agents of
the seeded rounds (their side remarks), reproduced here input by input.  Every probe states what
the property demands; where the real code still misbehaves the probe reports it under a fixed
label that known_findings.json lists (KNOWN-FINDING, exit code unaffected); once pint is repaired
the probe simply holds.  Concrete (float registry unless stated), one case per property."""

from __future__ import annotations

import copy
import logging

import numpy as np
import pint
from pint.errors import DimensionalityError, OffsetUnitCalculusError, UndefinedUnitError

from .. import regs

logging.getLogger("pint").setLevel(logging.CRITICAL)


def _outcome(fn):
    try:
        return ("ok", fn())
    except Exception as ex:  # noqa: BLE001 - the kind of failure is what is reported
        return (type(ex).__name__, None)


def _report(eng, ok, label):
    """holds -> discharged obligation; misbehaves -> reported under its label (known finding)"""
    if ok:
        eng.prove(True, label + ":holds")
    else:
        eng.fail(label, stop=False)


def h_c01(eng):
    ureg = regs.float_default()
    # the registry-level predicate is symmetric in its arguments
    a, b = _outcome(lambda: ureg.is_compatible_with(1, "meter")), _outcome(lambda: ureg.is_compatible_with("meter", 1))
    _report(eng, a == b == ("ok", False), "is_compatible_with:number-vs-unit-string-asymmetric")
    a, b = _outcome(lambda: ureg.is_compatible_with(1, "radian")), _outcome(lambda: ureg.is_compatible_with("radian", 1))
    _report(eng, a == b == ("ok", True), "is_compatible_with:number-vs-dimensionless-string-asymmetric")
    # (round 6) a target written as a dict is accepted by to(): the predicate agrees with it
    ureg6 = regs.float_default()
    r = _outcome(lambda: ureg6.Quantity(1.0, "meter").is_compatible_with({"inch": 1}))
    _report(eng, r == ("ok", True), "is_compatible_with:dict-target-that-to()-accepts-is-refused")


def h_c03(eng):
    ureg = regs.float_default()
    Qy = ureg.Quantity
    # a refused in-place operation leaves its target as it was (here: shapes do not broadcast)
    x = Qy(np.array([9.0, 18.0, 27.0]), "delta_degF")
    st, _ = _outcome(lambda: x.__iadd__(Qy(np.array([1.0, 2.0]), "kelvin")))
    _report(eng, st != "ok" and list(x.magnitude) == [9.0, 18.0, 27.0] and str(x.units) == "delta_degree_Fahrenheit", "inplace-add:failed-operation-rescaled-the-target")
    # forward, reflected and power forms agree on the number type in an exact registry
    fr = regs.fraction_default()
    vals = [fr.Quantity(1, "") / fr.Quantity(3, "m"), 1 / fr.Quantity(3, "m"), fr.Quantity(3, "m") ** -1]
    _report(eng, all(type(v.magnitude) is type(vals[0].magnitude) and v.magnitude == vals[0].magnitude for v in vals), "fraction-registry:int-magnitudes:reflected-division-and-negative-power-give-floats")
    q = fr.Quantity(3, "m")
    q /= fr.Quantity(2, "s")
    _report(eng, type(q.magnitude) is type((fr.Quantity(3, "m") / fr.Quantity(2, "s")).magnitude), "fraction-registry:int-magnitudes:in-place-division-gives-a-float")


def h_c04(eng):
    from pint.util import UnitsContainer

    # a container equals another exactly when every unit has the same exponent: a zero exponent
    # given to the constructor is no entry, and a string operand counts with its number
    r = _outcome(lambda: UnitsContainer({"m": 0}) == UnitsContainer())
    _report(eng, r == ("ok", True), "constructor:zero-exponent-entry-kept")
    r = _outcome(lambda: UnitsContainer({"m": 1}) == "2*m")
    _report(eng, r == ("ok", False), "eq:string-operand-scale-ignored")
    ureg = regs.float_default()
    r = _outcome(lambda: ureg.Unit("m") ** np.array([2]))
    _report(eng, r[0] in ("ok", "TypeError"), "pow:array-exponent-raises-ValueError-inside-the-container")
    # (round 6) a unit is not equal to a text that denotes a thousand of it
    ureg6 = regs.float_default()
    r = _outcome(lambda: ureg6.meter == "1000*meter")
    _report(eng, r == ("ok", False), "unit-eq-string:scale-of-the-text-dropped")


def h_c05(eng):
    ureg = regs.float_default()
    Qy = ureg.Quantity
    # == across dimensions is False, also while a context relates the two dimensions
    with ureg.context("sp"):
        r = _outcome(lambda: bool(Qy(1.0, "hertz") == Qy(299792458.0, "meter")))
    _report(eng, r == ("ok", False), "context:eq-across-dimensions-converts-through-the-context")
    # symmetry for an operand that is a Unit
    a, b = _outcome(lambda: bool(Qy(1, "meter") == ureg.meter)), _outcome(lambda: bool(ureg.meter == Qy(1, "meter")))
    _report(eng, a == b, "eq:quantity-vs-unit-asymmetric")
    # reflected comparison with a numpy scalar
    a, b = _outcome(lambda: bool(np.float64(5) == Qy(5, "meter"))), _outcome(lambda: bool(Qy(5, "meter") == np.float64(5)))
    _report(eng, a == b == ("ok", False), "eq:numpy-scalar-on-the-left-raises")


def h_c06(eng):
    ureg = regs.float_default()
    Qy = ureg.Quantity
    # the difference of two logarithmic quantities is expressed in a unit that exists
    r = _outcome(lambda: (Qy(1.0, "dBm") - Qy(1.0, "dBm")).to_base_units())
    _report(eng, r[0] in ("ok", "OffsetUnitCalculusError", "LogarithmicUnitCalculusError"), "log-units:difference-in-an-undefined-delta-unit")
    # a prefixed delta unit is still a delta unit
    r = _outcome(lambda: (Qy(10.0, "degC") - Qy(500.0, "millidelta_degC")))
    _report(eng, r[0] == "ok" and str(r[1].units) == "degree_Celsius" and abs(r[1].magnitude - 9.5) < 1e-9, "delta:prefixed-delta-unit-read-as-absolute-temperature")
    # (round 6) a difference minus an absolute temperature has no meaning: refused
    ureg6 = regs.float_default()
    r = _outcome(lambda: ureg6.Quantity(5.0, "delta_degC") - ureg6.Quantity(3.0, "degC"))
    _report(eng, r[0] != "ok", "delta-minus-offset:accepted-and-labelled-as-a-temperature")


def h_c07(eng):
    ureg = regs.float_default()
    # capital E marks an exponent as in Python's own literals
    r = _outcome(lambda: ureg.parse_expression("(8.0 +/- 4.0)E6 m"))
    _report(eng, r[0] == "ok" and abs(r[1].magnitude.nominal_value - 8e6) < 1, "uncertainty:capital-E-exponent-not-recognised")
    # (round 6) blanks do not change an implicit product; a power binds tighter than a leading word;
    # '**' binds tighter than '+/-'
    a, b = _outcome(lambda: ureg.parse_expression("2(3)")), _outcome(lambda: ureg.parse_expression("2 (3)"))
    _report(eng, a[0] == b[0] == "ok" and not hasattr(a[1], "std_dev") and a[1] == b[1] == 6, "juxtaposition:2(3)-read-as-an-uncertainty")
    r = _outcome(lambda: ureg.parse_expression("cubic m ** 2"))
    _report(eng, r[0] == "ok" and dict(r[1]._units) == {"meter": 6}, "cubic-m-**-2:read-as-m**9")
    r = _outcome(lambda: ureg.parse_expression("2 +/- 3 ** 2"))
    _report(eng, r[0] != "ok" or abs(r[1].std_dev - 9.0) < 1e-9, "plus-minus-and-power:precedence")


def h_c08(eng):
    ureg = regs.float_default()
    # a compound with a logarithmic unit parses to units that exist
    r = _outcome(lambda: ureg.Quantity(1.0, "dB/m").to_root_units())
    names = _outcome(lambda: [n for n in ureg.parse_units("dB/m")._units if n not in ureg._units and ureg.get_name(n) == ""])
    _report(eng, "delta_decibel" not in str(_outcome(lambda: ureg.parse_units("dB/m"))[1]), "delta-reading:logarithmic-unit-rewritten-to-an-undefined-delta-unit")
    # membership test answers, it does not raise
    r = _outcome(lambda: "kilodegC" in ureg)
    _report(eng, r == ("ok", False), "contains:prefixed-offset-unit-raises")
    r = _outcome(lambda: "_foo" in ureg)
    _report(eng, r == ("ok", False), "contains:underscore-name-raises")
    del names


def h_c09(eng):
    ureg = regs.float_default()
    Qy = ureg.Quantity
    # a 0-d array magnitude is formatted like the scalar it holds, in the LaTeX layout too
    r = _outcome(lambda: format(Qy(np.array(1.5), "meter"), ".2fL"))
    _report(eng, r[0] == "ok" and r[1] == format(Qy(1.5, "meter"), ".2fL"), "latex:zero-d-array-magnitude-prints-the-spec-literally")
    # the compact modifier on an offset unit renders (or leaves the unit alone), it does not raise
    r = _outcome(lambda: format(Qy(0.001, "degC"), "#"))
    _report(eng, r[0] == "ok", "compact-modifier:offset-unit-raises")
    # siunitx prefix stripping keeps every prefix and does not cut plain unit names
    r = _outcome(lambda: format(ureg.Unit("decade"), "Lx"))
    _report(eng, r[0] == "ok" and "\\deca\\de" not in r[1], "siunitx:plain-unit-name-cut-into-prefix-and-rest")


def h_c10(eng):
    # (round 6) ill-formed lines are refused: an alias line without an alias, a modifier given twice
    r_ = pint.UnitRegistry()
    a = _outcome(lambda: r_.define("@alias meter = "))
    _report(eng, a[0] != "ok" and "" not in r_._units, "alias-line-without-an-alias:registers-the-empty-name")
    r2 = pint.UnitRegistry()
    b = _outcome(lambda: r2.define("degZ = 2 * kelvin; offset: 1; offset: 2"))
    _report(eng, b[0] != "ok", "modifier-given-twice:accepted-last-one-wins")


def h_c13(eng):
    # the unit order of a root-unit result does not depend on who asked first
    used = pint.UnitRegistry()
    used.Quantity(1.0, "hour*inch").to_root_units()
    got = str(used.Quantity(1e9, "inch*hour").to_root_units().to_compact().units)
    want = str(pint.UnitRegistry().Quantity(1e9, "inch*hour").to_root_units().to_compact().units)
    _report(eng, got == want, "root-units-memo:unit-order-of-the-first-caller-kept")
    # a prefix redefined at run time reaches the prefixed names that were used before
    reg = pint.UnitRegistry(on_redefinition="ignore")
    reg.parse_units("kilometer")
    reg.define("kilo- = 1024 = k-")
    a = reg.Quantity(1, "kilometer").to("meter").magnitude
    b = reg.Quantity(1, "kilosecond").to("second").magnitude
    _report(eng, a == b == 1024, "redefinition:prefix-redefined-after-use-keeps-old-value-for-used-names")
    # the per-object dimensionality memo follows a redefinition
    reg = pint.UnitRegistry(on_redefinition="ignore")
    q = reg.Quantity(1, "inch")
    q.dimensionality
    reg.define("inch = 3 * second")
    _report(eng, dict(q.dimensionality) == dict(reg.Quantity(1, "inch").dimensionality), "redefinition:per-object-dimensionality-memo-stale")


def h_c14(eng):
    ureg = pint.UnitRegistry()
    # a refused @group block leaves nothing behind
    st, _ = _outcome(lambda: ureg.define("@group GX using Missing\n    gxfoo = 2 * meter\n@end"))
    _report(eng, st != "ok" and "GX" not in ureg._groups and "gxfoo" not in ureg, "group:refused-block-leaves-group-and-units")


def h_c15(eng):
    ureg = regs.float_default()
    # dimensionless (not merely unitless) inputs are returned unchanged by to_compact
    r = _outcome(lambda: (5000.0 * ureg.radian).to_compact())
    _report(eng, r[0] == "ok" and str(r[1].units) == "radian", "to_compact:dimensionless-unit-gets-a-prefix")
    # to_preferred keeps the dimensionality
    r = _outcome(lambda: ureg.Quantity(1.0, "m**2*s**4").to_preferred([ureg.standard_gravity]))
    _report(eng, r[0] == "ok", "to_preferred:power-instead-of-product-in-the-proportionality-test")
    # reductions whose merged exponent is not representable in binary
    r = _outcome(lambda: ureg.Quantity(1.0, "acre**2*liter").to_reduced_units())
    _report(eng, r[0] == "ok", "to_reduced_units:float-exponent-rounding-raises")


def h_c16(eng):
    ureg = regs.float_default()
    Qy = ureg.Quantity
    a = Qy(np.array([5.0, 7.0, 11.0]), "meter")
    r = _outcome(lambda: np.diff(a, prepend=Qy(1.0, "kilometer")))
    _report(eng, r[0] == "ok" and abs(r[1].to("meter").magnitude[0] - (5.0 - 1000.0)) < 1e-9, "diff:prepend-not-converted")
    r = _outcome(lambda: np.prod(Qy(np.ones((2, 3)) * 2, "meter"), where=np.array([True, True, False])))
    _report(eng, r[0] == "ok" and r[1].units == ureg.Unit("meter**4"), "prod:where-counts-one-row-only")
    r = _outcome(lambda: np.dot(np.array([1.0, 2.0, 3.0]), a))
    _report(eng, r[0] == "ok", "dot:bare-first-operand-raises-AttributeError")
    r = _outcome(lambda: np.average(a, weights=Qy(np.array([1.0, 1.0, 2.0]), "")))
    _report(eng, r[0] == "ok", "average:quantity-weights-recursion")
    ident = np.array([[1.0, 0.0], [0.0, 2.0]])
    m = Qy(np.array([[1.0, 2.0], [3.0, 4.0]]), "meter")
    r = _outcome(lambda: ident @ m)
    _report(eng, r[0] == "ok" and np.allclose(r[1].magnitude, ident @ m.magnitude), "matmul:reflected-form-computes-the-forward-product")
    # (round 6) second operands and keyword forms
    ureg6 = regs.float_default()
    Q6 = ureg6.Quantity
    r = _outcome(lambda: np.fmod(Q6(np.array([5.0]), "m"), Q6(np.array([300.0]), "cm")))
    _report(eng, r[0] == "ok" and abs(float(r[1].to("m").magnitude[0]) - 2.0) < 1e-12, "fmod:second-operand-not-converted")
    r = _outcome(lambda: np.clip(Q6(np.array([1.0, 5.0]), "m"), min=Q6(200.0, "cm"), max=Q6(3.0, "m")))
    _report(eng, r[0] == "ok" and [float(v) for v in r[1].to("m").magnitude] == [2.0, 3.0], "clip:keyword-bounds-recursion")

    def _copyto():
        a = Q6(np.zeros(2), "m")
        np.copyto(a, 3.0)
        return a

    r = _outcome(_copyto)
    _report(eng, r[0] != "ok", "copyto:bare-nonzero-number-written-into-a-dimensional-array")

    def _fill():
        a = Q6(np.zeros(2), "m")
        a.fill(Q6(100.0, "cm"))
        return a

    r = _outcome(_fill)
    _report(eng, r[0] == "ok" and str(r[1].units) == "meter" and [float(v) for v in r[1].magnitude] == [1.0, 1.0], "fill:array-takes-the-unit-of-the-value")
    r = _outcome(lambda: Q6(np.array([3.0, 1.0, 2.0]), "m").searchsorted(Q6(2.5, "m"), sorter=np.array([1, 2, 0])))
    _report(eng, r[0] == "ok" and int(r[1]) == 2, "searchsorted:sorter-dropped")


def h_c17(eng):
    ureg = regs.float_default()

    @ureg.wraps(None, (None, None, None))
    def pf(a, b=5, /, c=6):
        return (a, b, c)

    _report(eng, _outcome(lambda: pf(1)) == ("ok", (1, 5, 6)), "wraps:positional-only-parameter-with-default")
    # a same-unit offset argument arrives as it was given
    seen = []

    @ureg.wraps(None, ("degC",))
    def t(x):
        seen.append(x)
        return x

    t(ureg.Quantity(20.1, "degC"))
    _report(eng, seen == [20.1], "wraps:same-offset-unit-argument-round-trips-through-kelvin")


def h_c18(eng):
    u1, u2 = pint.UnitRegistry(), pint.UnitRegistry()
    for label, fn in (
        ("pow-by-foreign-quantity", lambda: u1.Quantity(2, "m") ** u2.Quantity(2, "")),
        ("ordering-against-foreign-unit", lambda: u1.Quantity(1, "") < u2.Unit("")),
        ("numpy-add", lambda: np.add(u1.Quantity(np.array([1.0]), "m"), u2.Quantity(np.array([1.0]), "m"))),
        ("constructor-nests-foreign-quantity", lambda: u1.Quantity(u2.Quantity(2, "m"))),
    ):
        _report(eng, _outcome(fn)[0] == "ValueError", f"two-registries:{label}:combined-silently")
    # from_tuple into a fresh registry registers the prefixed units it mentions
    fresh = pint.UnitRegistry()
    r = _outcome(lambda: format(fresh.Quantity.from_tuple((1.0, (("millisecond", 1),))), "~P"))
    _report(eng, r[0] == "ok", "from_tuple:prefixed-unit-not-registered-in-the-target-registry")


def h_c19(eng):
    ureg = regs.float_default()
    m = ureg.Measurement(0.2, 0.01, "second")
    r = _outcome(lambda: format(m, "uSLx"))
    _report(eng, r[0] == "ok" and "0.20010" not in r[1], "format:siunitx-shorthand-uncertainty-digits-glued-to-the-value")
    r = _outcome(lambda: ureg.Quantity(m))
    _report(eng, r[0] == "ok", "constructor:Quantity(measurement)-raises")
    r = _outcome(lambda: ureg.Quantity(10.0, "degC").plus_minus(ureg.Quantity(0.5, "kelvin")))
    _report(eng, r[0] == "ok" and abs(r[1].error.magnitude - 0.5) < 1e-12, "plus_minus:quantity-error-in-an-offset-unit-converted-as-absolute-temperature")
    r = _outcome(lambda: ureg.parse_expression("(2.0 +/- 0.1)E3 m"))
    _report(eng, r[0] == "ok", "parse:unsigned-capital-E-exponent-not-recognised")
