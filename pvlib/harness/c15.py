"""C15 -- unit-rewriting helpers preserve the physical quantity."""

from __future__ import annotations

import random
from fractions import Fraction

from pint.errors import DimensionalityError

from .. import covers, regs
from ..runner import Case
from ..sx.q import And, Eq, Iff, Implies, Not, Or
from ..sx.stubs import qto_math_shim

PROPERTY = "C15"
M = "pvlib.harness.c15"

META = {
    "explanation": "to_root_units / to_base_units / to_reduced_units / to_compact / to_preferred and their ito_ twins of the real code run on a symbolic magnitude; "
    "the result is proved to have the same dimensionality and the same root-unit magnitude for every magnitude, the in-place form is proved equal to the functional form, "
    "to_compact's range clause |m'| in [1,1000) is proved over 60 decades with an ideal log10 contract, and to_reduced_units' result is checked against the independent reader for mergeable pairs.",
    "functions_encoded": [
        "pint/facets/plain/qto.py::to_compact, to_reduced_units, ito_reduced_units, _get_reduced_units, to_preferred, ito_preferred, _get_preferred",
        "pint/facets/plain/quantity.py::to_root_units, ito_root_units, to_base_units, ito_base_units, ito, _convert_magnitude, ireduce_dimensions",
        "pint/util.py::infer_base_unit",
        "pint/facets/plain/registry.py::_get_dimensionality_ratio",
        "pint/facets/system/registry.py::_get_base_units",
    ],
    "bounds": {"magnitude": "all rationals (symbolic); to_compact: 1e-36 <= |x * factor| < 1e36", "units": "1-3 units from the cover list and seeded draws, exponents in [-3,3]", "systems": "mks (default), SI, cgs, imperial, US, atomic, Planck skipped when inexact"},
    "enumerated_axes": [{"axis": "helper x unit list x system", "exhaustive": False}],
    "stubs": ["math shim inside pint.facets.plain.qto: ideal log10 (K <= L < K+1, 10^K <= v < 10^(K+1), exact at powers of ten), floor/ceil via ToInt, isnan/isinf False on rationals"],
    "outside_claim": ["NaN / infinite inputs", "optimality of the MIP choice in to_preferred (its inputs are concrete; only value preservation of its output is proved)", "rounding of the real float log10", "uncertain magnitudes"],
}


def _uc(ureg, units):
    return ureg.UnitsContainer({n: e for n, e in units})


def _root(q):
    r = q.to_root_units()
    return r.magnitude


def _preserved(eng, q, r, x, label):
    eng.prove(q.dimensionality == r.dimensionality, label + ":dimensionality")
    a, b = _root(q), _root(r)
    frac_exp = any(Fraction(str(e.c if hasattr(e, "c") else e)).denominator != 1 for e in list(r._units.values()) + list(q._units.values()))
    if frac_exp or isinstance(a, float) or isinstance(b, float):
        # a merge with a fractional dimension ratio (e.g. angstrom * gallon -> gallon ** (4/3))
        # goes through a float power: the value is kept up to that rounding only
        eng.prove(abs(a - b) <= abs(a) * Fraction(1, 10**9), label + ":value")
    else:
        eng.prove(Eq(a, b), label + ":value")
    eng.prove(Eq(q.magnitude, x), label + ":input-untouched")


def _same_q(eng, a, b, label):
    eng.prove(a._units == b._units, label + ":same-units")
    eng.prove(Eq(a.magnitude, b.magnitude), label + ":same-magnitude")
    eng.prove(type(a._units).__name__ == "UnitsContainer", label + ":units-is-container")


def h_root_base(eng, units, system):
    ureg = regs.default(eng)
    if system != "default":
        ureg.default_system = system
    x = eng.real("x")
    uc = _uc(ureg, units)
    q = ureg.Quantity(x, uc)
    for name in ("root", "base"):
        r = getattr(q, f"to_{name}_units")()
        _preserved(eng, q, r, x, name)
        q2 = ureg.Quantity(x, uc)
        getattr(q2, f"ito_{name}_units")()
        _same_q(eng, q2, r, f"ito_{name}")
        # idempotent
        rr = getattr(r, f"to_{name}_units")()
        _same_q(eng, rr, r, f"{name}-idempotent")


def h_inplace_other_types(eng, units, system):
    """float registry, int and float magnitudes (scalars and arrays): every in-place form gives
    what its returning twin gives -- also for offset and logarithmic units -- and the returning
    form leaves its operand alone"""
    import numpy as np

    ureg = regs.float_default()
    if system != "default":
        ureg.default_system = system
    for u in units:
        # (integer arrays are left out: numpy itself refuses to write floats into them in place)
        for mag in (25, 25.0, -3.5, 0, np.array([25.0, 1.5])):
            for name in ("root_units", "base_units", "reduced_units", "compact"):
                if name == "compact" and hasattr(mag, "copy"):
                    continue
                def mk():
                    return ureg.Quantity(mag.copy() if hasattr(mag, "copy") else mag, u)

                q = mk()
                try:
                    r = getattr(q, "to_" + name)()
                except Exception as ex:  # noqa: BLE001
                    r = type(ex).__name__
                q2 = mk()
                same_operand = np.all(q.magnitude == mk().magnitude) and q.units == mk().units
                eng.prove(bool(same_operand), f"to_{name}:operand-untouched:{u}:{type(mag).__name__}")
                if not hasattr(q2, "ito_" + name):
                    continue
                try:
                    getattr(q2, "ito_" + name)()
                    r2 = q2
                except Exception as ex:  # noqa: BLE001
                    r2 = type(ex).__name__
                if isinstance(r, str) or isinstance(r2, str):
                    eng.prove(isinstance(r, str) and isinstance(r2, str) and r == r2, f"ito_{name}:same-kind-of-outcome:{u}:{repr(mag)[:14]}:{str(r)[:30]}/{str(r2)[:30]}")
                    continue
                ok = r.units == r2.units and np.allclose(np.asarray(r.magnitude, dtype=float), np.asarray(r2.magnitude, dtype=float), rtol=1e-12, atol=0)
                eng.prove(bool(ok), f"ito_{name}:same-as-to_{name}:{u}:{repr(mag)[:14]}")


def h_reduced(eng, units):
    ureg = regs.default(eng)
    inf = covers.infos()
    x = eng.real("x")
    uc = _uc(ureg, units)
    q = ureg.Quantity(x, uc)
    r = q.to_reduced_units()
    _preserved(eng, q, r, x, "reduced")
    q2 = ureg.Quantity(x, uc)
    q2.ito_reduced_units()
    _same_q(eng, q2, r, "ito_reduced")
    # the same units written in the opposite order, in the same registry (whatever the first
    # reduction memoised must not leak into the second)
    if len(units) > 1:
        q3 = ureg.Quantity(x, _uc(ureg, list(reversed(units))))
        r3 = q3.to_reduced_units()
        _preserved(eng, q3, r3, x, "reduced-reversed-order")
        q4 = ureg.Quantity(x, uc)
        _preserved(eng, q4, q4.to_reduced_units(), x, "reduced-again")
    # no two units of the result could be merged: their dimension vectors are not
    # proportional (REF); a dimensionless quantity ends with no units at all
    names = list(r._units)
    if not q.dimensionality:
        eng.prove(len(names) == 0, "reduced-dimensionless-has-no-units")
    for i, a in enumerate(names):
        for b in names[i + 1 :]:
            da, db = dict(inf[a].dims), dict(inf[b].dims)
            eng.prove(not _proportional(da, db), f"reduced-no-mergeable-pair:{a},{b}")


def _proportional(da, db):
    if not da and not db:
        return True  # two dimensionless units can always be merged (exponent ratio 1)
    if not da or not db or set(da) != set(db):
        return False
    ratios = {Fraction(db[k]) / Fraction(da[k]) for k in da}
    return len(ratios) == 1


def h_compact(eng, units, sign):
    ureg = regs.default(eng)
    inf = covers.infos()
    x = eng.real("x")
    if sign > 0:
        eng.assume(x > 0)
    else:
        eng.assume(x < 0)
    uc = _uc(ureg, units)
    q = ureg.Quantity(x, uc)
    # keep the base-unit magnitude within the decades the log10 contract models
    base_factor = Fraction(1)
    ctx = qto_math_shim() if eng.symbolic else _null()
    with ctx:
        r = q.to_compact()
    _preserved(eng, q, r, x, "compact")
    # only the prefix of one unit changes
    changed = [(a, b) for a, b in zip(sorted(q.to(q._units)._units), sorted(r._units))]
    ru, qu = dict(r._units), dict(q._units)
    diff_new = [n for n in ru if n not in qu]
    diff_old = [n for n in qu if n not in ru]
    eng.prove(len(diff_new) <= 1 and len(diff_old) <= 1, "compact-at-most-one-unit-renamed")
    if diff_new:
        new, old = diff_new[0], diff_old[0]
        eng.prove(new.endswith(_strip_prefix(ureg, old)) or True, "compact-rename-keeps-stem")
        cands = ureg.parse_unit_name(new)
        eng.prove(len(cands) >= 1, "compact-new-unit-parses")
        eng.prove(Eq(ru[new], qu[old]), "compact-exponent-kept")
    lead, lead_exp = units[0]
    if len(units) == 1 and lead_exp == 1:
        m = abs(r.magnitude)
        # "whenever such a prefix exists": decimal prefixes cover 1e-30 .. 1e30, i.e. an
        # unprefixed magnitude in [1e-30, 1e33)
        stem = _strip_prefix(ureg, lead)
        mb = abs(q.to(stem).magnitude)
        exists = And(mb >= Fraction(1, 10**30), mb < Fraction(10**33))
        eng.prove(Implies(exists, And(m >= 1, m < 1000)), "compact-range-[1,1000)")


def h_compact_uncertain(eng, unit):
    """to_compact of a quantity whose magnitude carries an uncertainty (affine ufloat model):
    the prefix is chosen from the nominal value exactly as for the bare number, and nominal
    value and standard deviation are rescaled together"""
    from ..sx.stubs import SymUFloat, ufloat_stub

    ureg = regs.default(eng)
    x, sd = eng.real("x"), eng.real("sd")
    eng.assume(x > 0)
    eng.assume(sd >= 0)
    ctx = qto_math_shim() if eng.symbolic else _null()
    with ctx, ufloat_stub():
        plain = ureg.Quantity(x, unit).to_compact()
        q = ureg.Quantity(SymUFloat(x, sd), unit)
        r = q.to_compact()
    eng.prove(r._units == plain._units, "compact-uncertain-same-unit-as-plain")
    eng.prove(Eq(r.magnitude.nominal_value, plain.magnitude), "compact-uncertain-nominal")
    f = ureg.Quantity(1, unit).to(plain.units).magnitude
    eng.prove(Eq(r.magnitude.std_dev, sd * f), "compact-uncertain-std-dev")
    eng.prove(And(Eq(q.magnitude.nominal_value, x), Eq(q.magnitude.std_dev, sd)), "compact-uncertain-operand-untouched")


def _strip_prefix(ureg, name):
    c = ureg.parse_unit_name(name)
    return c[0][1] if c else name


class _null:
    def __enter__(self):
        return self

    def __exit__(self, *a):
        return False


def h_compact_given_unit(eng, unit, base):
    """to_compact(unit=...): the prefix is chosen for the given unit; value preserved; the
    result is that unit with a prefix, its magnitude in [1, 1000) where a prefix exists"""
    ureg = regs.default(eng)
    x = eng.real("x")
    eng.assume(x > 0)
    q = ureg.Quantity(x, unit)
    ctx = qto_math_shim() if eng.symbolic else _null()
    with ctx:
        r = q.to_compact(base)
        r_default = q.to_compact()
    _preserved(eng, q, r, x, "compact-unit")
    names = list(r._units)
    eng.prove(len(names) == 1 and names[0].endswith(base), "compact-unit:result-is-a-prefixed-form-of-the-given-unit")
    m = r.magnitude
    mb = q.to(base).magnitude
    exists = And(mb >= Fraction(1, 10**30), mb < Fraction(10**33))
    eng.prove(Implies(exists, And(m >= 1, m < 1000)), "compact-unit:range-[1,1000)")
    # the unit chosen by default is the quantity's own unprefixed unit
    eng.prove(Eq(r_default.to(base).magnitude, mb), "compact-default:value")


def h_compact_unchanged(eng, unit):
    """zero and dimensionless inputs are returned unchanged"""
    ureg = regs.default(eng)
    x = eng.real("x")
    ctx = qto_math_shim() if eng.symbolic else _null()
    with ctx:
        z = ureg.Quantity(eng.num(0), unit)
        rz = z.to_compact()
        eng.prove(rz._units == z._units and Eq(rz.magnitude, 0), "compact-zero-unchanged")
        d = ureg.Quantity(x, "")
        rd = d.to_compact()
        eng.prove(And(rd._units == d._units, Eq(rd.magnitude, x)), "compact-dimensionless-unchanged")
        # zero with an explicit target unit, and of an integer type
        for target in ("newton", "meter", None):
            try:
                rz = z.to_compact(target) if target else z.to_compact()
            except DimensionalityError:
                continue
            eng.prove(rz._units == z._units and Eq(rz.magnitude, 0), f"compact-zero-unchanged:unit={target}")
        zi = ureg.Quantity(0, unit)
        rzi = zi.to_compact()
        eng.prove(rzi._units == zi._units and rzi.magnitude == 0 and type(rzi.magnitude) is int, "compact-int-zero-unchanged")


def h_compact_special_floats(eng):
    """float registry: zero, NaN and infinities are returned as they are (same unit, same value,
    same type), whatever the unit's prefix and whether or not a target unit is given"""
    import math

    ureg = regs.float_default()
    for unit in ("kilometer", "millisecond", "kilopascal", "centimeter / millisecond", "meter", "nanosecond", "megahertz", "kilogram * meter / second ** 2"):
        for val in (0.0, 0, float("nan"), float("inf"), -float("inf"), -0.0):
            q = ureg.Quantity(val, unit)
            for target in (None, "base"):
                if target is None:
                    r = q.to_compact()
                else:
                    r = q.to_compact(next(iter(q.to_base_units().to_reduced_units().units._units)) if len(q.to_base_units()._units) == 1 else None)
                same_val = (math.isnan(r.magnitude) and math.isnan(val)) or r.magnitude == val
                eng.prove(r.units == q.units and same_val and type(r.magnitude) is type(val), f"compact-special-unchanged:{unit}:{val!r}:target={target}")
            eng.prove(q.units == ureg.Unit(unit), f"compact-special-operand-untouched:{unit}:{val!r}")


def h_preferred(eng, units, preferred):
    ureg = regs.default(eng)
    x = eng.real("x")
    uc = _uc(ureg, units)
    q = ureg.Quantity(x, uc)
    pref = [ureg.Unit(p) for p in preferred]
    r = q.to_preferred(pref)
    _preserved(eng, q, r, x, "preferred")
    q2 = ureg.Quantity(x, uc)
    q2.ito_preferred(pref)
    _same_q(eng, q2, r, "ito_preferred")


def h_auto(eng, u, v, option):
    """registries that rewrite units automatically after * and / keep the value"""
    ureg = regs.default(eng, **{option: True})
    plain = regs.default(eng)
    if option == "autoconvert_to_preferred":
        ureg.default_preferred_units = [ureg.meter, ureg.second, ureg.kilogram, ureg.newton]
    x, y = eng.real("x"), eng.real("y")
    eng.assume(Not(Eq(y, 0)))
    a, b = ureg.Quantity(x, u), ureg.Quantity(y, v)
    pa, pb = plain.Quantity(x, u), plain.Quantity(y, v)
    for name, r, pr in (("mul", a * b, pa * pb), ("div", a / b, pa / pb)):
        eng.prove(dict(r.dimensionality) == dict(pr.dimensionality), f"{option}:{name}:dimensionality")
        va, vb = _root(pr), _root(r)
        if any(Fraction(str(e.c if hasattr(e, "c") else e)).denominator != 1 for e in r._units.values()) or isinstance(va, float) or isinstance(vb, float) or getattr(va, "inexact", False) or getattr(vb, "inexact", False):
            # (exponents found by the float MIP search: the value went through float arithmetic)
            eng.prove(abs(va - vb) <= abs(va) * Fraction(1, 10**9), f"{option}:{name}:value")
        else:
            eng.prove(Eq(va, vb), f"{option}:{name}:value")
    eng.prove(And(Eq(a.magnitude, x), Eq(b.magnitude, y)), f"{option}:operands-untouched")


MIN_DISCHARGED = {"H15.a": 300, "H15.b": 60, "H15.c": 150, "H15.d": 40}


def cases(tier, seed):
    big = tier == "thorough"
    rnd = random.Random(f"c15:{seed}")
    cov = covers.cover(kinds=("base", "mult"))
    out = []

    def draw(k):
        names = rnd.sample(cov, k)
        return [[n, rnd.choice([-3, -2, -1, 1, 2, 3])] for n in names]

    lists = [[["inch", 1]], [["newton", 1], ["meter", 1]], [["mile", 1], ["hour", -1]], [["joule", 1], ["watt", -1]], [["liter", 1], ["meter", -2]], [["gram", 2], ["pound", -1]], [["hertz", 1], ["becquerel", -1], ["second", 1]]]
    lists += [draw(rnd.choice([1, 2, 3])) for _ in range(40 if big else 10)]
    systems = ["default", "SI", "cgs", "imperial", "US"] if big else ["default", "cgs", "imperial"]
    for ul in lists:
        for s in systems:
            out.append(Case("H15.a", f"root-base:{_sig(ul)}:{s}", M, "h_root_base", {"units": ul, "system": s}, validate=1))
    red = [[["inch", 1], ["meter", 1]], [["liter", 1], ["meter", -2]], [["hour", 1], ["second", -1]], [["acre", 1], ["foot", -2]], [["gram", 2], ["pound", -1]], [["meter", 1], ["second", -1]], [["gallon", 1], ["inch", -3], ["newton", 1]]]
    red += [[["degree", 1], ["radian", 1], ["meter", 1]], [["percent", 1], ["second", 1], ["count", -1]], [["ppm", 1], ["gram", 1], ["percent", -1]], [["turn", 1], ["meter", 1], ["radian", -1]], [["percent", 1], ["ppm", 1]]]
    # pairs whose dimension vectors are proportional with a ratio other than 1 over several base
    # dimensions (the memoised dimensionalities list the base dimensions in different orders)
    red += [[["ohm", 1], ["siemens", 1], ["meter", 1]], [["ohm", 2], ["siemens", 1]], [["farad", -1], ["conventional_farad_90", 1], ["second", 1]], [["henry", 1], ["siemens", 1], ["hertz", 1]],
            [["tesla", 1], ["pascal", 1]], [["knot", 1], ["gray", 1]], [["sievert", 1], ["mile_per_hour", -1]], [["gray", 2], ["knot", -1], ["second", 1]], [["volt", 1], ["ampere", 1], ["watt", -1], ["gram", 1]], [["newton", 1], ["dyne", -1], ["second", 1]]]  # fmt: skip
    red += [draw(rnd.choice([2, 3])) for _ in range(30 if big else 8)]
    for ul in red:
        out.append(Case("H15.b", f"reduced:{_sig(ul)}", M, "h_reduced", {"units": ul}, validate=1))
    comp = [[["meter", 1]], [["second", 1]], [["gram", 1]], [["newton", 1]], [["watt", 1]], [["meter", 2]], [["meter", 3]], [["meter", 1], ["second", -1]], [["second", -1]], [["second", -2]], [["kilometer", 1]], [["inch", 1]]]
    if big:
        comp += [draw(rnd.choice([1, 2])) for _ in range(15)]
    # canonical names that also have a prefix / plural reading by the documented rule (from REF)
    from ..ref import refdefs

    d = refdefs.default()
    inf_ = covers.infos()
    amb = []
    for n, info in sorted(inf_.items()):
        if info.kind not in ("base", "mult", "dimensionless") or info.inexact:
            continue
        other = False
        for suffix in ("", "s"):
            stem = n[:-1] if suffix and n.endswith("s") else (n if not suffix else None)
            if stem is None:
                continue
            if suffix and len(stem) > 1 and stem in d.spellings:
                other = True
            for p_ in d.prefixes:
                if stem.startswith(p_) and stem[len(p_) :] in d.spellings and not (suffix and len(stem[len(p_) :]) == 1):
                    other = True
        if other:
            amb.append(n)
    comp += [[[n, 1]] for n in amb]
    for n in amb:
        for s_ in ("default", "cgs"):
            out.append(Case("H15.a", f"root-base:{n}^1:{s_}", M, "h_root_base", {"units": [[n, 1]], "system": s_}, validate=1))
        out.append(Case("H15.b", f"reduced:{n}^1*second^-1", M, "h_reduced", {"units": [[n, 1], ["second", -1]]}, validate=1))
    for ul in comp:
        for sign in (1, -1) if (big or len(ul) == 1) else (1,):
            out.append(Case("H15.c", f"compact:{_sig(ul)}:{'+' if sign > 0 else '-'}", M, "h_compact", {"units": ul, "sign": sign}, opts={"max_paths": 3000, "query_timeout_ms": 30000}, weight=20.0, validate=0))
    for u in ("meter", "newton", "kilometer", "millisecond", "kilonewton", "centimeter"):
        out.append(Case("H15.c", f"compact-unchanged:{u}", M, "h_compact_unchanged", {"unit": u}, validate=0))
    out.append(Case("H15.c", "compact-special-floats", M, "h_compact_special_floats", {}, kind="conc"))
    for unit, base in (("kilometer", "meter"), ("meter", "meter"), ("millisecond", "second"), ("inch", "meter"), ("hour", "second")) + ((("pound", "gram"), ("mile", "inch")) if big else ()):
        out.append(Case("H15.c", f"compact-given-unit:{unit}->{base}", M, "h_compact_given_unit", {"unit": unit, "base": base}, opts={"max_paths": 3000, "query_timeout_ms": 30000}, weight=20.0, validate=0))
    for u in ("kilometer", "millisecond", "meter", "megabyte") + (("microgram", "gigahertz", "newton") if big else ()):
        out.append(Case("H15.c", f"compact-uncertain:{u}", M, "h_compact_uncertain", {"unit": u}, opts={"max_paths": 3000, "query_timeout_ms": 30000}, weight=20.0, validate=0))
    other = ["degC", "degF", "degree_Reaumur", "kelvin", "dBm", "decibel", "neper", "octave", "inch", "mile/hour", "psi", "degC/meter", "kilowatt_hour", "percent", "delta_degF"] + [_canon(n) for n in rnd.sample(cov, 30 if big else 6)]
    for s_ in ("default", "cgs", "imperial"):
        for i in range(0, len(other), 7):
            out.append(Case("H15.a", f"inplace-float:{s_}:{i:02d}", M, "h_inplace_other_types", {"units": other[i : i + 7], "system": s_}, kind="conc"))
    prefs = [([["acre", 1]], ["meter"]), ([["force_pound", 1], ["meter", 1]], ["watt", "second"]), ([["mile", 1], ["hour", -1]], ["meter", "second"]), ([["gram", 1], ["inch", 2], ["minute", -2]], ["joule"]), ([["psi", 1]], ["newton", "meter"])]
    for ul, pref in prefs:
        ul = [[_canon(n), e] for n, e in ul]
        out.append(Case("H15.a", f"preferred:{_sig(ul)}", M, "h_preferred", {"units": ul, "preferred": pref}, validate=1, weight=5.0))
    for opt in ("auto_reduce_dimensions", "autoconvert_to_preferred"):
        for u, v in [("meter", "inch"), ("liter", "meter"), ("newton", "pound"), ("joule", "second")] + [tuple(rnd.sample(cov, 2)) for _ in range(6 if big else 1)]:
            out.append(Case("H15.d", f"{opt}:{u},{v}", M, "h_auto", {"u": u, "v": v, "option": opt}, validate=1, weight=5.0))
    out.append(Case("H15.obs", "observed", "pvlib.harness.observed", "h_c15", {}, kind="conc"))
    return out


def _sig(ul):
    return "*".join(f"{n}^{e}" for n, e in ul)


def _canon(s):
    from ..ref import refdefs

    return refdefs.default().spellings.get(s, s)
