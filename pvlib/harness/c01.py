"""C01 -- conversion succeeds exactly between units of identical dimensionality."""

from __future__ import annotations

import random
from fractions import Fraction

from pint.errors import DefinitionSyntaxError, DimensionalityError

from .. import covers, regs
from ..runner import Case
from ..sx.q import And, Eq, Iff, Not, Or, term

PROPERTY = "C01"
M = "pvlib.harness.c01"

META = {
    "explanation": "the dimensional-analysis path of the real registry (_get_dimensionality[_recurse], _get_conversion_factor, _convert and "
    "every compatibility predicate) is executed with *symbolic integer exponents* on compound units and with symbolic definition "
    "exponents in generated registries; 'convertible' is proved equivalent to equality of the base-dimension vectors computed by "
    "an independent reader, for all exponent values in the bound and all magnitudes.",
    "functions_encoded": [
        "pint/facets/plain/registry.py::_get_dimensionality, _get_dimensionality_recurse, _get_conversion_factor, _convert, convert, is_compatible_with, get_compatible_units, _get_compatible_units",
        "pint/facets/plain/quantity.py::to, ito, m_as, is_compatible_with, check, dimensionality",
        "pint/facets/plain/unit.py::is_compatible_with, dimensionality",
        "pint/registry_helpers.py::check",
        "pint/util.py::UnitsContainer.__eq__/__hash__/__mul__/__truediv__/__pow__",
    ],
    "bounds": {
        "H01.a": "compound units u1^e1*u2^e2 vs v1^f1*v2^f2 (thorough: 3 factors), every exponent a symbolic non-zero integer in [-2,2] (thorough [-3,3]); unit tuples from the cover list + seeded draws",
        "H01.b": "generated registries: 2 base dimensions + derived dimension, 3 derived units whose reference exponents are symbolic integers in [-2,2]; query exponents symbolic in [-2,2]",
        "H01.c": "ordered pairs of canonical units: seeded sample (quick), all pairs (thorough); compatible-unit listing of every unit",
    },
    "enumerated_axes": [{"axis": "unit tuples", "exhaustive": False}, {"axis": "ordered canonical pairs (thorough)", "exhaustive": True}],
    "outside_claim": ["float/Decimal registries", "case-insensitive spelling (C08)", "auto_reduce_dimensions (C15)", "half-integer exponents in quick tier", "contexts (C11)"],
    "assumptions": ["hash_mode=const in H01.a/b: dict/set lookups keyed on containers with symbolic exponents are decided by __eq__ (sound under the hash contract; C04 checks hashing itself with real hashes)"],
}


def _dimvec(infos, exps):
    """z3 terms: base dimension -> sum_i e_i * D[u_i][dim]"""
    out = {}
    for info, e in zip(infos, exps):
        for dim, k in info.dims:
            out[dim] = out.get(dim, 0) + e * k
    return out


def _vec_equal(a, b):
    keys = sorted(set(a) | set(b))
    if not keys:
        return True
    return And(*[Eq(a.get(k, 0), b.get(k, 0)) for k in keys])


def h_compound(eng, src_units, dst_units, bound):
    ureg = regs.default(eng)
    inf = covers.infos()
    es = [eng.integer(f"e{i}", -bound, bound) for i in range(len(src_units))]
    fs = [eng.integer(f"f{i}", -bound, bound) for i in range(len(dst_units))]
    for v in es + fs:
        eng.assume(Not(Eq(v, 0)))
    x = eng.real("x")
    src = ureg.UnitsContainer(dict(zip(src_units, es)))
    dst = ureg.UnitsContainer(dict(zip(dst_units, fs)))
    compatible = _vec_equal(_dimvec([inf[u] for u in src_units], es), _dimvec([inf[u] for u in dst_units], fs))
    q = ureg.Quantity(x, src)
    try:
        r = ureg.convert(x, src, dst)
        converted = True
    except DimensionalityError:
        converted = False
    eng.prove(Iff(converted, compatible), "convert-iff-same-dimension")
    # every other entry point agrees with the first
    try:
        q.to(dst)
        ok = True
    except DimensionalityError:
        ok = False
    eng.prove(ok == converted, "Quantity.to-agrees")
    try:
        q.m_as(dst)
        ok = True
    except DimensionalityError:
        ok = False
    eng.prove(ok == converted, "Quantity.m_as-agrees")
    q2 = ureg.Quantity(x, src)
    try:
        q2.ito(dst)
        ok = True
    except DimensionalityError:
        ok = False
    eng.prove(ok == converted, "Quantity.ito-agrees")
    if not ok:
        eng.prove(And(Eq(q2.magnitude, x), q2._units == src), "failed-ito-leaves-quantity-unchanged")
    other = ureg.Quantity(1, dst)
    eng.prove(q.is_compatible_with(other) == converted, "Quantity.is_compatible_with(Quantity)")
    eng.prove(q.is_compatible_with(ureg.Unit(dst)) == converted, "Quantity.is_compatible_with(Unit)")
    eng.prove(ureg.Unit(src).is_compatible_with(ureg.Unit(dst)) == converted, "Unit.is_compatible_with")
    eng.prove(ureg.is_compatible_with(q, other) == converted, "registry.is_compatible_with")
    eng.prove(q.check(ureg.Unit(dst)) == converted, "Quantity.check")
    eng.prove((q.dimensionality == other.dimensionality) == converted, "dimensionality-equal")

    @ureg.check(ureg.Unit(dst))
    def f(a):
        return 1

    try:
        f(q)
        ok = True
    except DimensionalityError:
        ok = False
    eng.prove(ok == converted, "check-decorator")

    # the same with more parameters, keyword arguments out of signature order and skipped defaults:
    # each value is checked against its own parameter's dimension
    sec, gram = ureg.Quantity(2, "second"), ureg.Quantity(3, "gram")

    @ureg.check(ureg.Unit(dst), "[mass]", "[time]")
    def g(a, w=gram, b=sec):
        return 1

    for label, call in (("kw-reversed", lambda: g(b=sec, w=gram, a=q)), ("kw-skip-default", lambda: g(q, b=sec)), ("kw-only-first", lambda: g(a=q))):
        try:
            call()
            ok = True
        except DimensionalityError:
            ok = False
        eng.prove(ok == converted, f"check-decorator-{label}")


def _gen_text(eng, a, b, c, d, g):
    return [
        "b1 = [d1] = B1",
        "b2 = [d2] = B2",
        "b0 = []",
        f"[dd] = [d1] ** {eng.lit(g)} / [d2]",
        f"u1 = b1 ** {eng.lit(a)} * b2 ** {eng.lit(b)} = U1",
        f"u2 = u1 ** {eng.lit(c)} * b1 = U2",
        f"u3 = b2 ** {eng.lit(d)} * b0 = U3",
        # a root unit declared directly on the derived dimension, and units built from it
        "u4 = [dd] = U4",
        "u5 = 3 * u4 / b1",
    ]


def h_generated(eng, bound, fixed=None):
    fixed = fixed or {}
    a, b, c, d = (eng.integer(n, -bound, bound) if n not in fixed else eng.integer(n, fixed[n], fixed[n]) for n in "abcd")
    g = eng.integer("g", 1, 2) if "g" not in fixed else eng.integer("g", fixed["g"], fixed["g"])
    for v in (a, b, c, d):
        eng.assume(Not(Eq(v, 0)))
    ureg = regs.build(eng, _gen_text(eng, a, b, c, d, g))
    # model: vectors over (d1, d2)
    D = {"b1": (1, 0), "b2": (0, 1), "b0": (0, 0), "u1": (a, b), "u2": (a * c + 1, b * c), "u3": (0, d), "u4": (g, -1), "u5": (g - 1, -1)}
    e1, e2, f1, f2 = (eng.integer(n, -bound, bound) for n in ("e1", "e2", "f1", "f2"))
    for v in (e1, e2, f1, f2):
        eng.assume(Not(Eq(v, 0)))
    pu, pv, pw, pz = eng.choice("units", [("u1", "u3", "u2", "b2"), ("u2", "b1", "u1", "u3"), ("u1", "b0", "b1", "b2"), ("u4", "b2", "b1", "u5"), ("u5", "u1", "u4", "b1")])
    src = ureg.UnitsContainer({pu: e1, pv: e2})
    dst = ureg.UnitsContainer({pw: f1, pz: f2})
    sv = [e1 * D[pu][i] + e2 * D[pv][i] for i in (0, 1)]
    dv = [f1 * D[pw][i] + f2 * D[pz][i] for i in (0, 1)]
    compatible = And(Eq(sv[0], dv[0]), Eq(sv[1], dv[1]))
    x = eng.real("x")
    try:
        ureg.convert(x, src, dst)
        converted = True
    except DimensionalityError:
        converted = False
    eng.prove(Iff(converted, compatible), "gen-convert-iff-same-dimension")
    # dimensionality values and the memo: ask twice, second answer equals the first
    d1 = ureg.get_dimensionality(src)
    d2 = ureg.get_dimensionality(src)
    for i, dim in enumerate(("[d1]", "[d2]")):
        eng.prove(Eq(d1[dim] if dim in d1 else 0, sv[i]), f"gen-dimensionality-{dim}")
    eng.prove(d1 == d2, "gen-dimensionality-memo")
    eng.prove("[]" not in d1, "gen-no-empty-dimension")
    # a named derived dimension: [dd] = [d1]**g / [d2]
    q = ureg.Quantity(x, src)
    eng.prove(Iff(q.check("[dd]"), And(Eq(sv[0], g), Eq(sv[1], -1))), "gen-check-derived-dimension")
    # derived dimension with a symbolic exponent inside a container of dimensions
    k = eng.integer("k", -2, 2)
    eng.assume(Not(Eq(k, 0)))
    dd = ureg.get_dimensionality(ureg.UnitsContainer({"[dd]": k, "[d2]": 1}))
    eng.prove(Eq(dd["[d1]"] if "[d1]" in dd else 0, g * k), "gen-derived-dimension-power-d1")
    eng.prove(Eq(dd["[d2]"] if "[d2]" in dd else 0, 1 - k), "gen-derived-dimension-power-d2")
    # products, quotients, powers preserve the relation
    us, ud = ureg.Unit(src), ureg.Unit(dst)
    prod = (us * ud).dimensionality
    quot = (us / ud).dimensionality
    for i, dim in enumerate(("[d1]", "[d2]")):
        eng.prove(Eq(prod[dim] if dim in prod else 0, sv[i] + dv[i]), f"gen-product-{dim}")
        eng.prove(Eq(quot[dim] if dim in quot else 0, sv[i] - dv[i]), f"gen-quotient-{dim}")
    sq = (us**2).dimensionality
    eng.prove(Eq(sq["[d1]"] if "[d1]" in sq else 0, 2 * sv[0]), "gen-power")
    # the root unit on the derived dimension has that dimension's base exponents
    d4 = ureg.get_dimensionality("u4")
    eng.prove(And(Eq(d4["[d1]"] if "[d1]" in d4 else 0, g), Eq(d4["[d2]"] if "[d2]" in d4 else 0, -1), set(d4) <= {"[d1]", "[d2]"}), "gen-root-unit-on-derived-dimension")
    eng.prove(ureg.Quantity(x, "u4").check("[dd]") and ureg.Quantity(x, "U4").is_compatible_with(ureg.Unit(ureg.UnitsContainer({"b1": g, "b2": -1}))), "gen-root-unit-on-derived-dimension-compatible")


def h_pairs(eng, pairs):
    ureg = regs.default(eng)
    inf = covers.infos()
    for i, item in enumerate(pairs):
        x = eng.real(f"x{i}")
        if len(item) == 4:
            # spelled forms (alias, symbol, prefixed, plural) of the canonical units cu, cv
            u, v, cu, cv = item
            same = inf[cu].dims == inf[cv].dims
            try:
                ureg.Quantity(x, u).to(v)
                ok = True
            except DimensionalityError:
                ok = False
            eng.prove(ok == same, f"pair-spelled:{u}->{v}")
            eng.prove(ureg.Quantity(x, u).is_compatible_with(v) == same, f"pair-spelled-compat:{u}->{v}")
            try:
                eng.prove(ureg.Quantity(x, u).check(ureg.get_dimensionality(v)) == same, f"pair-spelled-check:{u}->{v}")
            except (AssertionError, DefinitionSyntaxError):
                # known finding K16: get_dimensionality / get_base_units / get_compatible_units /
                # Quantity.check read a string without the registry's preprocessors, so the
                # symbol '%' reaches the expression parser as an operator
                if "%" not in v:
                    raise
                eng.fail("pair-spelled-check:percent-sign-not-preprocessed", stop=False)
            continue
        u, v = item
        same = inf[u].dims == inf[v].dims
        try:
            r = ureg.Quantity(x, u).to(v)
            ok = True
        except DimensionalityError:
            ok = False
        eng.prove(ok == same, f"pair:{u}->{v}")
        if i % 5 == 0:
            q = ureg.Quantity(x, u)
            eng.prove(q.is_compatible_with(v) == same, f"pair-compat-str:{u}->{v}")
            eng.prove(ureg.is_compatible_with(u, v) == same, f"pair-registry-compat-str:{u}->{v}")
            eng.prove(ureg.Unit(u).is_compatible_with(v) == same, f"pair-unit-compat-str:{u}->{v}")
            eng.prove(q.check(v) == same, f"pair-check-str:{u}->{v}")
            # the other side given as an object that is not of this registry's own classes (a
            # second registry with the same definitions): the predicates still go by dimension
            other = regs.default(eng, auto_reduce_dimensions=False)
            for label, o in (("Unit", other.Unit(v)), ("Quantity", other.Quantity(x, v))):
                eng.prove(q.is_compatible_with(o) == same, f"pair-compat-foreign-{label}:{u}->{v}")
                eng.prove(ureg.is_compatible_with(q, o) == same, f"pair-registry-compat-foreign-{label}:{u}->{v}")
                eng.prove(ureg.Unit(u).is_compatible_with(o) == same, f"pair-unit-compat-foreign-{label}:{u}->{v}")
        if ok and not (inf[u].inexact or inf[v].inexact):
            eng.prove(Eq(r.magnitude, x * inf[u].num / inf[v].num), f"pair-value:{u}->{v}")


def h_config(eng, option, u, v, e, f):
    """registry configurations (auto_reduce_dimensions, case_sensitive=False, autoconvert_to_preferred):
    the relation is the same and is preserved by products and quotients"""
    opts = {"case_insensitive": {"case_sensitive": False}}.get(option, {option: True})
    ureg = regs.default(eng, **opts)
    if option == "autoconvert_to_preferred":
        ureg.default_preferred_units = [ureg.meter, ureg.second, ureg.kilogram, ureg.newton]
    inf = covers.infos()
    x, y = eng.real("x"), eng.real("y")
    eng.assume(Not(Eq(y, 0)))
    a, b = ureg.Quantity(x, ureg.UnitsContainer({u: e})), ureg.Quantity(y, ureg.UnitsContainer({v: f}))
    du, dv = _dimvec([inf[u]], [e]), _dimvec([inf[v]], [f])
    for name, sign in (("mul", 1), ("div", -1)):
        want = {}
        for k, val in du.items():
            want[k] = want.get(k, 0) + val
        for k, val in dv.items():
            want[k] = want.get(k, 0) + sign * val
        want = {k: val for k, val in want.items() if val != 0}
        try:
            r = a * b if sign == 1 else a / b
        except DimensionalityError:
            eng.fail(f"{option}:{name}:product-of-quantities-raises")
            continue
        got = {k: (val.c if hasattr(val, "c") else Fraction(val)) for k, val in r.dimensionality.items()}
        eng.prove(got == {k: Fraction(val) for k, val in want.items()}, f"{option}:{name}:dimensionality-is-product")
        # the written product unit is still a valid conversion target, others are not
        target = ureg.UnitsContainer({u: e}) * ureg.UnitsContainer({v: sign * f}) if u != v else ureg.UnitsContainer({u: e + sign * f})
        try:
            r.to(target)
            ok = True
        except DimensionalityError:
            ok = False
        eng.prove(ok, f"{option}:{name}:converts-to-the-written-product")
        eng.prove(r.is_compatible_with(ureg.Unit(target)), f"{option}:{name}:compatible-with-the-written-product")
        eng.prove(not r.is_compatible_with(ureg.Unit(target) * ureg.Unit("candela")), f"{option}:{name}:not-compatible-with-another-dimension")
    # plain conversion relation under the configuration
    same = _vec_equal(du, dv)
    try:
        a.to(b.units)
        ok = True
    except DimensionalityError:
        ok = False
    eng.prove(ok == same, f"{option}:convert-iff-same-dimension")


def h_inplace_predicates(eng, u, v, e, op):
    """the predicates of an array quantity answer for its current units after in-place operations
    (whatever was memoised before), including the step from exponent -1 to -2 and back"""
    import numpy as np

    ureg = regs.default(eng)
    inf = covers.infos()
    x, x2, y = eng.real("x"), eng.real("x2"), eng.real("y")
    eng.assume(Not(Eq(y, 0)))
    q = ureg.Quantity(np.array([x, x2], dtype=object), ureg.UnitsContainer({u: 1, v: e}))
    old_units = ureg.Unit(q._units)
    # memoise everything that can be memoised
    q.dimensionality, q.check(old_units), q.is_compatible_with(old_units), ureg.is_compatible_with(q, old_units)
    if op == "mul":
        q *= ureg.Quantity(y, v)
        e2, k = e + 1, 1
    elif op == "div":
        q /= ureg.Quantity(y, v)
        e2, k = e - 1, 1
    else:
        q **= 2
        e2, k = 2 * e, 2
    want = _dimvec([inf[u], inf[v]], [k, e2])
    got = {kk: (vv.c if hasattr(vv, "c") else Fraction(vv)) for kk, vv in q.dimensionality.items()}
    eng.prove(got == {kk: Fraction(vv) for kk, vv in want.items() if vv != 0}, f"inplace-{op}:dimensionality")
    new_units = ureg.Unit(ureg.UnitsContainer({kk: vv for kk, vv in ((u, k), (v, e2)) if vv != 0}))
    eng.prove(q.check(new_units) and q.is_compatible_with(new_units) and ureg.is_compatible_with(q, new_units), f"inplace-{op}:compatible-with-the-new-units")
    same_as_old = _vec_equal(want, _dimvec([inf[u], inf[v]], [1, e]))
    eng.prove(q.check(old_units) == same_as_old and q.is_compatible_with(old_units) == same_as_old, f"inplace-{op}:old-units-only-if-same-dimension")
    try:
        q.to(new_units)
        ok = True
    except DimensionalityError:
        ok = False
    eng.prove(ok, f"inplace-{op}:converts-to-the-new-units")


def h_compatible_listing(eng, names):
    from ..ref import refdefs

    ureg = regs.default(eng)
    inf = covers.infos()
    d = refdefs.default()
    # the listing is restricted to the members of the default system (see C14)
    members = d.system_members(d.defaults["system"])
    allu = [i for i in inf.values() if i.kind in ("base", "mult", "dimensionless", "offset", "log", "delta") and i.name in members]
    for n in names:
        got = {str(u) for u in ureg.get_compatible_units(n)}
        want = {i.name for i in allu if i.dims == inf[n].dims}
        # pint lists canonical names; delta_ units are not in the listing's source table
        want = {w for w in want if not w.startswith("delta_")}
        got = {g for g in got if not g.startswith("delta_")}
        eng.prove(got == want, f"compatible-units:{n}")


MIN_DISCHARGED = {"H01.a": 300, "H01.b": 100, "H01.c": 300, "H01.d": 100}


def cases(tier, seed):
    big = tier == "thorough"
    rnd = random.Random(f"c01:{seed}")
    inf = covers.infos()
    out = []
    cov = covers.cover(kinds=("base", "mult", "dimensionless"))
    mult = sorted(n for n, i in inf.items() if i.kind in ("base", "mult", "dimensionless"))
    bound = 3 if big else 2
    tuples = [
        (("newton", "meter"), ("joule", "second")),
        (("meter", "inch"), ("second", "hour")),
        (("watt", "second"), ("joule", "radian")),
        (("hertz", "becquerel"), ("second", "count")),
        (("pascal", "liter"), ("newton", "mile")),
        (("volt", "ampere"), ("watt", "percent")),
        (("gram", "pound"), ("ounce", "metric_ton")),
        (("farad", "ohm"), ("second", "hertz")),
        (("meter", "second"), ("meter", "second")),
        (("newton", "radian"), ("radian", "newton")),
        (("inch", "hour"), ("hour", "mile")),
    ]
    n_extra = 60 if big else 16
    for _ in range(n_extra):
        tuples.append((tuple(rnd.sample(cov, 2)), tuple(rnd.sample(mult, 2))))
    for s, d in tuples:
        out.append(Case("H01.a", f"{'*'.join(s)}->{'*'.join(d)}", M, "h_compound", {"src_units": list(s), "dst_units": list(d), "bound": bound}, opts={"hash_mode": "const", "max_paths": 6000}, weight=20.0, validate=4))
    if big:
        for _ in range(12):
            s, d = tuple(rnd.sample(cov, 3)), tuple(rnd.sample(mult, 3))
            out.append(Case("H01.a", f"{'*'.join(s)}->{'*'.join(d)}", M, "h_compound", {"src_units": list(s), "dst_units": list(d), "bound": 2}, opts={"hash_mode": "const", "max_paths": 20000}, weight=60.0, validate=4))
    if big:
        # every definition exponent free in [-2,2]; split over the values of (a, g) so that the
        # cases run in parallel and stay inside the path budget
        for a_ in (-2, -1, 1, 2):
            for g_ in (1, 2):
                out.append(Case("H01.b", f"gen-b2:a={a_},g={g_}", M, "h_generated", {"bound": 2, "fixed": {"a": a_, "g": g_}}, opts={"hash_mode": "const", "max_paths": 10000, "max_wall_s": 900}, weight=100.0, validate=4))
    else:
        # quick: one definition exponent pair free per case, the others pinned (seeded)
        for free in ("ab", "cd", "ac", "bd"):
            fixed = {n: rnd.choice([-2, -1, 1, 2]) for n in "abcd" if n not in free}
            fixed["g"] = rnd.choice([1, 2])
            sig = "free-" + free + "-" + ",".join(f"{k}={v}" for k, v in sorted(fixed.items()))
            out.append(Case("H01.b", sig, M, "h_generated", {"bound": 2, "fixed": fixed}, opts={"hash_mode": "const", "max_paths": 10000}, weight=60.0, validate=4))
    # H01.c concrete units, symbolic magnitude
    canon = sorted(n for n, i in inf.items() if i.kind in ("base", "mult", "dimensionless"))
    if big:
        pairs = [(u, v) for u in canon for v in canon if u != v]
    else:
        pairs = []
        cl = covers.classes(exact_only=False, kinds=("base", "mult", "dimensionless"))
        for _ in range(1500):
            pairs.append(tuple(rnd.sample(canon, 2)))
        pairs += covers.same_dim_pairs(seed, 500)
    # the same relation through other spellings: aliases, symbols, prefixed and plural forms
    from ..ref import refdefs
    from .c02 import _readings

    d = refdefs.default()
    by_canon = {}
    for sp, c in d.spellings.items():
        by_canon.setdefault(c, []).append(sp)

    def spell(c):
        forms = list(by_canon.get(c, [c]))
        for pfx in ("kilo", "milli", "µ", "M"):
            for base in by_canon.get(c, [c])[:3]:
                for suf in ("", "s"):
                    t = pfx + base + suf
                    if t.isidentifier() and _readings(d, t) == {({"kilo": "kilo", "milli": "milli", "µ": "micro", "M": "mega"}[pfx], c)}:
                        forms.append(t)
        for base in by_canon.get(c, [c])[:3]:
            t = base + "s"
            if t.isidentifier() and _readings(d, t) == {("", c)}:
                forms.append(t)
        return rnd.choice(forms)

    spelled = []
    base_pairs = covers.same_dim_pairs(seed + 7, 4000 if big else 250) + [tuple(rnd.sample(canon, 2)) for _ in range(4000 if big else 250)]
    for cu, cv in base_pairs:
        spelled.append((spell(cu), spell(cv), cu, cv))
    # the percent sign as a spelling (always included: reports known finding K16 in every tier)
    spelled.insert(0, ("meter", "%", "meter", "percent"))
    spelled.insert(1, ("ppm", "%", "ppm", "percent"))
    for i in range(0, len(spelled), 50):
        out.append(Case("H01.c", f"spelled:{i:06d}", M, "h_pairs", {"pairs": spelled[i : i + 50]}, validate=0, weight=3.0))
    for i in range(0, len(pairs), 250 if big else 50):
        chunk = pairs[i : i + (250 if big else 50)]
        out.append(Case("H01.c", f"{i:06d}", M, "h_pairs", {"pairs": chunk}, validate=0, weight=3.0))
    for u, v in (("meter", "second"), ("newton", "hour")) + ((("joule", "inch"), ("gram", "minute")) if big else ()):
        for e in (-2, -1, 1, 2):
            for op in ("mul", "div", "pow"):
                out.append(Case("H01.d", f"inplace-predicates:{u}*{v}^{e}:{op}", M, "h_inplace_predicates", {"u": u, "v": v, "e": e, "op": op}, validate=1))
    # registry configurations
    fam = [("meter", "liter"), ("hectare", "inch"), ("second", "hertz"), ("joule", "newton"), ("gallon", "foot"), ("barn", "meter"), ("watt", "volt"), ("mile", "hour"), ("gram", "pound"), ("liter", "liter")]
    fam += [tuple(rnd.sample(cov, 2)) for _ in range(20 if big else 4)]
    for option in ("auto_reduce_dimensions", "case_insensitive", "autoconvert_to_preferred"):
        for u, v in fam:
            for e, f in ((1, 1), (2, -1), (-1, 3)) if (big or option == "auto_reduce_dimensions") else ((1, 1),):
                out.append(Case("H01.d", f"{option}:{u}^{e},{v}^{f}", M, "h_config", {"option": option, "u": u, "v": v, "e": e, "f": f}, validate=1))
    names = canon if big else rnd.sample(canon, 60)
    for i in range(0, len(names), 20):
        out.append(Case("H01.c-listing", f"{i:04d}", M, "h_compatible_listing", {"names": names[i : i + 20]}, kind="conc"))
    out.append(Case("H01.obs", "observed", "pvlib.harness.observed", "h_c01", {}, kind="conc"))
    return out
