"""Runs one CrossHair condition in a subprocess and classifies the verdict.

Only "Confirmed over all paths" counts as discharged.  A counterexample is replayed by
calling the kernel concretely under plain Python before it is reported.  "Not confirmed",
"Unable to meet precondition", internal errors and timeouts are inconclusive."""

from __future__ import annotations

import importlib
import os
import re
import subprocess
import sys
import time

ROOT = os.path.dirname(os.path.dirname(os.path.dirname(os.path.abspath(__file__))))


def line_of(path, func):
    with open(path) as f:
        for i, ln in enumerate(f, 1):
            if ln.startswith(f"def {func}("):
                return i
    raise KeyError(func)


def run_condition(module, func, timeout_s, expect="confirmed"):
    """-> dict(verdict=confirmed|refuted|inconclusive, detail, wall_s, call)"""
    path = os.path.join(ROOT, module.replace(".", "/") + ".py")
    ln = line_of(path, func) + 2
    t0 = time.perf_counter()
    env = dict(os.environ, PYTHONHASHSEED="0")
    try:
        p = subprocess.run(
            [sys.executable, "-m", "crosshair", "check", "--report_all", "--per_condition_timeout", str(timeout_s), f"{path}:{ln}"],
            capture_output=True, text=True, timeout=timeout_s * 1.5 + 60, cwd=ROOT, env=env,
        )
        out = p.stdout + p.stderr
    except subprocess.TimeoutExpired:
        return {"verdict": "inconclusive", "detail": "process timeout", "wall_s": time.perf_counter() - t0, "call": None}
    wall = time.perf_counter() - t0
    if "Confirmed over all paths" in out:
        return {"verdict": "confirmed", "detail": "", "wall_s": wall, "call": None}
    m = re.search(r"error: (?:false|.*?) when calling (\w+\(.*\))(?: \(which (?:returns|raises).*\))?\s*$", out, re.M)
    if m:
        return {"verdict": "refuted", "detail": out.strip().splitlines()[-1][:400], "wall_s": wall, "call": m.group(1)}
    last = [l for l in out.strip().splitlines() if l.strip()][-1:] or [""]
    return {"verdict": "inconclusive", "detail": last[0][:400], "wall_s": wall, "call": None}


def replay_call(module, call):
    """evaluate the printed call concretely; True if the kernel's postcondition fails"""
    mod = importlib.import_module(module)
    try:
        r = eval(call, {"__builtins__": {}}, {k: getattr(mod, k) for k in dir(mod)})  # noqa: S307
    except Exception as e:  # noqa: BLE001
        return True, f"raises {type(e).__name__}: {e}"
    return (not bool(r)), f"returns {r!r}"
