"""CrossHair kernels for C08: the unit *string* is symbolic (all unicode strings up to the
length bound); the registry is the generated colliding registry A with concrete numbers.

Each function is a contract (PEP316): CrossHair searches for a string violating ``post``.
The reference ``ref_readings`` is the documented rule written independently."""

import logging

import pint
from pint.errors import UndefinedUnitError

logging.getLogger("pint").setLevel(logging.CRITICAL)

LINES = [
    "b = [dim]",
    "kk- = 1000 = k- = ki-",
    "mm- = 0.001 = m-",
    "mim = 2 * b = m = mi",
    "min = 3 * b = _ = mn",
    "inn = 5 * b = in",
    "kin = 7 * b",
    "sik = 11 * b = s = ks",
    "nim = 13 * b = _ = ss",
]
UREG = pint.UnitRegistry(LINES)
UNIT_OF = {}
for _d in list(UREG._units.values()):
    UNIT_OF[_d.name] = _d.name
    if _d.has_symbol:
        UNIT_OF[_d.symbol] = _d.name
    for _a in _d.aliases:
        UNIT_OF[_a] = _d.name
PRE_OF = {"kk": "kk", "k": "kk", "ki": "kk", "mm": "mm", "m": "mm"}
BASE_UNITS = dict(UREG._units)


def _reset():
    # prefixed units are memoised in the unit table on first use: start every run clean
    UREG._units.clear()
    UREG._units.update(BASE_UNITS)
    UREG._prefixed_unit_names.clear() if hasattr(UREG, "_prefixed_unit_names") else None
    UREG._cache.parse_unit.clear()


def ref_readings(s: str):
    """every decomposition the documented rule allows (the exact spelling included)"""
    out = set()
    if s in UNIT_OF:
        out.add(("", UNIT_OF[s]))
    for suffix in ("", "s"):
        if suffix and not s.endswith("s"):
            continue
        stem = s[: len(s) - 1] if suffix else s
        if suffix and len(stem) > 1 and stem in UNIT_OF:
            out.add(("", UNIT_OF[stem]))
        for p in PRE_OF:
            if stem.startswith(p):
                u = stem[len(p) :]
                if suffix and len(u) == 1:
                    continue
                if u in UNIT_OF:
                    out.add((PRE_OF[p], UNIT_OF[u]))
    return out


def parse_unit_name_matches_rule(name: str) -> bool:
    """
    pre: len(name) <= 4
    post: _
    """
    _reset()
    got = {(p, u) for p, u, _s in UREG.parse_unit_name(name)}
    want = ref_readings(name)
    # deduplication may drop ('', prefix+unit) when (prefix, unit) is present; nothing else
    return got <= want and all((p, u) in got or (p == "" and any(pp + uu == u for pp, uu in got)) for p, u in want)


def reachability_twin(name: str) -> bool:
    """
    pre: len(name) <= 4
    post: _
    """
    _reset()
    # must be refuted: some strings are defined
    return len(UREG.parse_unit_name(name)) == 0
